//! Instruction-level operations of the history family: the REAL handlers, run through the program's
//! entrypoint by the native executor (svm.rs) on accounts built from the current pool state
//! (fixture.rs), compared with the manager-level reference and with exact fee arithmetic.
//!
//!   H xswap <ver 1|2> <amount> <thrMode> <limit> <ein> <dir> <bpsA> <maxA> <futA> <bpsB> <maxB> <futB>
//! thrMode: 0 = no threshold, 1 = exactly the resulting other amount, 2 = one unit tighter (must fail).
//! bps = 65535 means "no transfer-fee extension" (plain SPL Token mint for v1 / for that side).
//! The op does not change the history's state (it runs on a copy).
use crate::fixture::{token_amount, withheld, FeeCfg, Fx};
use crate::hist::World;
use crate::svm::{ExecError, Meta};
use anchor_lang::InstructionData;

fn fee_of(bps: u64, max: u64, x: u64) -> u64 {
    if bps == 0 || x == 0 {
        return 0;
    }
    let raw = (x as u128 * bps as u128 + 9999) / 10000;
    (raw.min(max as u128)) as u64
}
/// smallest y with y - fee(y) >= x (None: exceeds u64)
fn included_of(bps: u64, max: u64, x: u64) -> Option<u64> {
    if x == 0 {
        return Some(0);
    }
    // g(y) = y - fee(y) is non-decreasing with steps of at most 1: binary search on [x, x + max]
    let (mut lo, mut hi) = (x as u128, x as u128 + max as u128);
    let g = |y: u128| -> u128 { y - ((y * bps as u128 + 9999) / 10000).min(max as u128) };
    if bps == 0 {
        return Some(x);
    }
    while lo < hi {
        let mid = (lo + hi) / 2;
        if g(mid) >= x as u128 {
            hi = mid;
        } else {
            lo = mid + 1;
        }
    }
    if lo > u64::MAX as u128 {
        None
    } else {
        Some(lo as u64)
    }
}

fn parse_fee(bps: &str, max: &str, fut: &str) -> Option<FeeCfg> {
    let b: u64 = bps.parse().unwrap();
    if b == 65535 {
        return None;
    }
    let m: u64 = max.parse().unwrap();
    Some(FeeCfg { bps: b as u16, max_fee: m, newer_from_future: if fut == "1" { Some((((b + 77) % 10001) as u16, m / 3 + 1)) } else { None } })
}

pub fn err_name(e: &ExecError, logs: &[String]) -> String {
    match e {
        ExecError::Code(c) => {
            // Anchor logs "… Error Code: <Name>. Error Number: <n>. …"
            for l in logs.iter().rev() {
                if let Some(i) = l.find("Error Code: ") {
                    let rest = &l[i + 12..];
                    let name: String = rest.chars().take_while(|ch| ch.is_alphanumeric() || *ch == '_').collect();
                    if !name.is_empty() && name != "Custom" {
                        return name;
                    }
                }
            }
            if let Some(n) = whirlpool_error_name(*c) {
                return n;
            }
            format!("Code({})", c)
        }
        ExecError::Abort(m) => format!("Abort({})", m.chars().take(60).collect::<String>()),
        ExecError::Runtime(m) => format!("Runtime({})", m),
    }
}

/// names of the program's custom error numbers (the Pinocchio handlers return bare numbers): the
/// variants of `ErrorCode` in programs/whirlpool/src/errors.rs in declaration order, from 6000;
/// plus the Anchor framework codes the Pinocchio utilities re-use
fn whirlpool_error_name(code: u64) -> Option<String> {
    static NAMES: std::sync::OnceLock<Vec<String>> = std::sync::OnceLock::new();
    let names = NAMES.get_or_init(|| {
        let src = std::fs::read_to_string("/repo/programs/whirlpool/src/errors.rs").unwrap_or_default();
        let mut v = vec![];
        let mut in_enum = false;
        for line in src.lines() {
            let l = line.trim();
            if l.starts_with("pub enum ErrorCode") {
                in_enum = true;
                continue;
            }
            if in_enum {
                if l.starts_with('}') {
                    break;
                }
                if l.starts_with('#') || l.starts_with("//") || l.is_empty() {
                    continue;
                }
                let name: String = l.chars().take_while(|c| c.is_alphanumeric() || *c == '_').collect();
                if !name.is_empty() {
                    v.push(name);
                }
            }
        }
        v
    });
    if (6000..6000 + names.len() as u64).contains(&code) {
        return Some(names[(code - 6000) as usize].clone());
    }
    match code {
        3010 => Some("AccountNotSigner".to_string()),
        3012 => Some("AccountNotInitialized".to_string()),
        3007 => Some("AccountOwnedByWrongProgram".to_string()),
        3000 => Some("AccountDiscriminatorAlreadySet".to_string()),
        3001 => Some("AccountDiscriminatorNotFound".to_string()),
        3002 => Some("AccountDiscriminatorMismatch".to_string()),
        3006 => Some("AccountNotMutable".to_string()),
        2012 => Some("ConstraintAddress".to_string()),
        2003 => Some("ConstraintRaw".to_string()),
        2000 => Some("ConstraintMut".to_string()),
        2006 => Some("ConstraintSeeds".to_string()),
        3008 => Some("InvalidProgramId".to_string()),
        _ => None,
    }
}

pub struct XSwapOut {
    pub line: String,
    pub viols: Vec<String>,
    pub tags: Vec<&'static str>,
}

impl World {
    pub fn x_swap(&self, t: &[&str]) -> XSwapOut {
        let ver: u8 = t[2].parse().unwrap();
        let amount: u64 = t[3].parse().unwrap();
        let thr_mode: u8 = t[4].parse().unwrap();
        let limit: u128 = t[5].parse().unwrap();
        let (ein, dir) = (t[6] == "1", t[7] == "1");
        let (fee_a, fee_b) = if ver == 2 { (parse_fee(t[8], t[9], t[10]), parse_fee(t[11], t[12], t[13])) } else { (None, None) };
        let mut viols = vec![];
        let mut tags = vec![];
        let t22 = ver == 2 && t[8] != "65535";
        let funds = u64::MAX / 4;
        let mut fx0 = Fx::from_world(self, fee_a, fee_b, t22, ver == 2 && t[11] != "65535", funds);
        // trade-enable mode (C14 / C17): the pool's Oracle says trading starts in the future (adaptive-fee pools only)
        let te = t.get(14).map_or(false, |x| *x == "1");
        let mut closed = false;
        if te {
            if let Some(a) = fx0.bank.accts.get_mut(&fx0.oracle) {
                if a.owner == ::whirlpool::ID && a.data.len() >= 48 {
                    a.data[40..48].copy_from_slice(&(self.now + 1000).to_le_bytes());
                    closed = true;
                }
            }
        }
        let (fin, fout) = if dir { (fee_a, fee_b) } else { (fee_b, fee_a) };
        let f = |c: Option<FeeCfg>| c.map(|c| (c.bps as u64, c.max_fee)).unwrap_or((0, 0));
        let ((bi, mi), (bo, mo)) = (f(fin), f(fout));
        // ---- reference: the manager-level swap on a copy of the world, with the fee-adjusted amount
        let pool_amount = if ein { Some(amount - fee_of(bi, mi, amount)) } else { included_of(bo, mo, amount) };
        let mut reference = crate::hist_oracle::clone_world(self);
        let starts: Vec<i32> = {
            let wp = self.wp();
            let tia = 88 * wp.tick_spacing as i32;
            let cur = wp.tick_current_index;
            let base = cur.div_euclid(tia) * tia;
            let first = if dir || cur + (wp.tick_spacing as i32) < base + tia { base } else { base + tia };
            (0..3).map(|kk| first + if dir { -kk * tia } else { kk * tia }).filter(|s| Tick::check_is_valid_start_tick(*s, wp.tick_spacing)).collect()
        };
        // the reference's own vault bookkeeping must not interfere: whether the vault can pay is checked below
        reference.vault_a = u128::MAX / 4;
        reference.vault_b = u128::MAX / 4;
        let vault_out_balance = token_amount(&fx0.bank.data(if dir { &fx0.vault_b } else { &fx0.vault_a }));
        let ref_res = match pool_amount {
            Some(pa) => std::panic::catch_unwind(std::panic::AssertUnwindSafe(|| reference.do_swap_pub(pa, limit, ein, dir, &starts))).unwrap_or_else(|_| Err("Panic".to_string())),
            None => Err("TransferFeeCalculationError".to_string()),
        };
        // what the trader pays / receives according to the property
        let expect: Option<(u64, u64, u64, u64)> = ref_res.as_ref().ok().and_then(|(a, bb, _, _)| {
            let (pin, pout) = if dir { (*a, *bb) } else { (*bb, *a) }; // pool input / output (curve amounts)
            let user_in = if ein && pin == pool_amount.unwrap() { Some(amount) } else { included_of(bi, mi, pin) }?;
            let user_out = pout - fee_of(bo, mo, pout);
            Some((user_in, user_out, pin, pout))
        });
        // ---- threshold
        let thr: u64 = match (thr_mode, &expect) {
            (0, _) | (_, None) => {
                if ein {
                    0
                } else {
                    u64::MAX
                }
            }
            (1, Some((ui, uo, _, _))) => {
                if ein {
                    *uo
                } else {
                    *ui
                }
            }
            (_, Some((ui, uo, _, _))) => {
                if ein {
                    uo.saturating_add(1)
                } else {
                    ui.saturating_sub(1)
                }
            }
        };
        // ---- run the real handler
        let mut fx = fx0.clone();
        // packaging of the tick arrays (C10 at instruction level, swap_v2 only): 0 = the three arrays in order;
        // 1 = the same three in reverse order; 2 = the three static slots hold far-away arrays of this pool (empty
        // system accounts at their addresses) and the needed ones arrive as SUPPLEMENTAL tick arrays, shuffled
        let pk: u8 = if ver == 2 { t.get(15).and_then(|x| x.parse().ok()).unwrap_or(0) } else { 0 };
        let (metas, data): (Vec<Meta>, Vec<u8>) = if ver == 2 {
            let mut m = fx.swap_v2_metas(dir);
            let mut rai = None;
            let slots: Vec<usize> = {
                let ta = fx.swap_arrays(dir);
                (0..m.len()).filter(|i| ta.contains(&m[*i].key)).collect()
            };
            if slots.len() == 3 && pk == 1 {
                let (k0, k2) = (m[slots[0]].key, m[slots[2]].key);
                m[slots[0]].key = k2;
                m[slots[2]].key = k0;
            } else if slots.len() == 3 && pk == 2 {
                use ::whirlpool::util::{AccountsType, RemainingAccountsInfo, RemainingAccountsSlice};
                let real = [m[slots[1]].key, m[slots[2]].key, m[slots[0]].key];
                let tia = 88 * fx.ts as i32;
                for (j, sl) in slots.iter().enumerate() {
                    // valid start indexes far from the price, in the wrong direction: never needed
                    let far = if dir { 20 + j as i32 } else { -20 - j as i32 } * tia + fx.wp().tick_current_index.div_euclid(tia) * tia;
                    m[*sl].key = crate::fixture::tick_array_pda(&fx.pool, far);
                }
                for kx in real {
                    m.push(Meta { key: kx, signer: false, writable: true });
                }
                rai = Some(RemainingAccountsInfo { slices: vec![RemainingAccountsSlice { accounts_type: AccountsType::SupplementalTickArrays, length: 3 }] });
            }
            (m, ::whirlpool::instruction::SwapV2 { amount, other_amount_threshold: thr, sqrt_price_limit: limit, amount_specified_is_input: ein, a_to_b: dir, remaining_accounts_info: rai }.data())
        } else {
            (fx.swap_v1_metas(dir), ::whirlpool::instruction::Swap { amount, other_amount_threshold: thr, sqrt_price_limit: limit, amount_specified_is_input: ein, a_to_b: dir }.data())
        };
        let (res, out) = fx.bank.execute(&metas, &data);
        if closed {
            // C14: trading is refused before the pool's trade-enable time, whatever else holds
            return match &res {
                Err(e) => {
                    let name = err_name(e, &out.logs);
                    if fx.bank.accts != fx0.bank.accts {
                        viols.push("a failed instruction changed account state".to_string());
                    }
                    tags.push("x_trade_not_enabled");
                    XSwapOut { line: format!("err {}", name), viols, tags }
                }
                Ok(()) => {
                    viols.push(format!("C14 swap v{} succeeded on a pool whose trade-enable time is in the future", ver));
                    XSwapOut { line: "ACCEPTED".to_string(), viols, tags }
                }
            };
        }
        let bal = |fx: &Fx, k| token_amount(&fx.bank.data(k));
        let (tin, tout, vin, vout) = if dir { (fx.trader_a, fx.trader_b, fx.vault_a, fx.vault_b) } else { (fx.trader_b, fx.trader_a, fx.vault_b, fx.vault_a) };
        let line = match &res {
            Err(e) => {
                let name = err_name(e, &out.logs);
                // the handler must fail exactly when the reference fails or the threshold binds
                match (&expect, thr_mode) {
                    (Some((ui, uo, _, _)), 2) if (ein && thr > *uo) || (!ein && thr < *ui) => {
                        let want = if ein { "AmountOutBelowMinimum" } else { "AmountInAboveMaximum" };
                        if name != want {
                            viols.push(format!("C03/C16 the threshold is one unit tighter than the resulting amount: expected {}, the handler gives {}", want, name));
                        }
                        tags.push("x_threshold_rejected");
                    }
                    // the trader's own token account holds `funds`: paying more than that is refused by the token program
                    (Some((ui, _, _, pout)), _) if (*ui > funds || *pout > vault_out_balance) && name == "Code(1)" => tags.push("x_token_insufficient_funds"),
                    (Some(_), _) => viols.push(format!("C16/C03 swap handler v{} fails with {} but the swap computation succeeds ({:?})", ver, name, ref_res)),
                    (None, _) => tags.push("x_both_fail"),
                }
                if fx.bank.accts != fx0.bank.accts {
                    viols.push("a failed instruction changed account state".to_string());
                }
                format!("err {}", name)
            }
            Ok(()) => {
                let d_tin = bal(&fx0, &tin) - bal(&fx, &tin);
                let d_tout = bal(&fx, &tout) - bal(&fx0, &tout);
                let d_vin = bal(&fx, &vin) - bal(&fx0, &vin);
                let d_vout = bal(&fx0, &vout) - bal(&fx, &vout);
                let wh_in = withheld(&fx.bank.data(&vin)) - withheld(&fx0.bank.data(&vin));
                let wh_out = withheld(&fx.bank.data(&tout)) - withheld(&fx0.bank.data(&tout));
                match &expect {
                    None => viols.push(format!("C16/C03 swap handler v{} succeeds but the swap computation fails ({:?})", ver, ref_res.as_ref().err())),
                    Some((ui, uo, pin, pout)) => {
                        if thr_mode == 2 && ((ein && thr > *uo) || (!ein && thr < *ui)) {
                            viols.push(format!("C03 the threshold {} is one unit tighter than the resulting amount but the handler succeeded", thr));
                        }
                        if d_vin != *pin {
                            viols.push(format!("C16 the vault received {} of the input token but the curve needs {}", d_vin, pin));
                        }
                        if d_vout != *pout {
                            viols.push(format!("C16 the vault paid out {} of the output token but the curve amount is {}", d_vout, pout));
                        }
                        if d_tin != *ui || d_tout != *uo {
                            viols.push(format!("C16 the trader paid {} and received {}; expected {} (smallest amount whose fee-reduced value is the curve input) and {} (curve output minus its fee)", d_tin, d_tout, ui, uo));
                        }
                        if ein && d_tin > amount {
                            viols.push(format!("C16 exact-in: the trader paid {} > the specified {}", d_tin, amount));
                        }
                        if !ein && d_tout != amount && reference.last_swap_report != (0, 0, 0, 0) && pout >= &included_of(bo, mo, amount).unwrap_or(u64::MAX) {
                            viols.push(format!("C16 exact-out: the trader received {} but specified {}", d_tout, amount));
                        }
                        if ein && d_tout < thr || !ein && d_tin > thr {
                            viols.push(format!("C03/C16 threshold {} violated by what the trader actually paid/received ({}, {})", thr, d_tin, d_tout));
                        }
                        if d_tin - d_vin != wh_in || d_vout - d_tout != wh_out {
                            viols.push(format!("C16 amounts moved do not add up with the withheld fees: in {} -> {} (+{} withheld), out {} -> {} (+{} withheld)", d_tin, d_vin, wh_in, d_vout, d_tout, wh_out));
                        }
                        // pool state = the manager-level reference
                        let (w1, w2) = (fx.wp(), reference.wp());
                        let same = { w1.sqrt_price } == { w2.sqrt_price }
                            && w1.tick_current_index == w2.tick_current_index
                            && { w1.liquidity } == { w2.liquidity }
                            && { w1.fee_growth_global_a } == { w2.fee_growth_global_a }
                            && { w1.fee_growth_global_b } == { w2.fee_growth_global_b }
                            && w1.protocol_fee_owed_a == w2.protocol_fee_owed_a
                            && w1.protocol_fee_owed_b == w2.protocol_fee_owed_b
                            && w1.reward_last_updated_timestamp == w2.reward_last_updated_timestamp
                            && (0..3).all(|i| { w1.reward_infos[i].growth_global_x64 } == { w2.reward_infos[i].growth_global_x64 });
                        if !same {
                            viols.push("C16/C06 the pool account after the swap instruction differs from the manager-level swap on the same state".to_string());
                        }
                        // adaptive-fee pools: the Oracle account must hold exactly the variables the swap computed (C14)
                        if let Some(info) = &reference.af {
                            let od = fx.bank.data(&fx.oracle);
                            if od.len() >= 8 + std::mem::size_of::<::whirlpool::state::Oracle>() {
                                let o: &::whirlpool::state::Oracle = bytemuck::from_bytes(&od[8..8 + std::mem::size_of::<::whirlpool::state::Oracle>()]);
                                let (sv, rv) = (o.adaptive_fee_variables, info.variables);
                                let same_af = { sv.last_reference_update_timestamp } == { rv.last_reference_update_timestamp }
                                    && { sv.last_major_swap_timestamp } == { rv.last_major_swap_timestamp }
                                    && { sv.volatility_reference } == { rv.volatility_reference }
                                    && { sv.tick_group_index_reference } == { rv.tick_group_index_reference }
                                    && { sv.volatility_accumulator } == { rv.volatility_accumulator };
                                if !same_af {
                                    viols.push(format!(
                                        "C14 the Oracle account after the swap instruction stores (ref_ts {}, major_ts {}, vol_ref {}, group_ref {}, vol_acc {}) but the swap computed ({}, {}, {}, {}, {})",
                                        { sv.last_reference_update_timestamp }, { sv.last_major_swap_timestamp }, { sv.volatility_reference }, { sv.tick_group_index_reference }, { sv.volatility_accumulator },
                                        { rv.last_reference_update_timestamp }, { rv.last_major_swap_timestamp }, { rv.volatility_reference }, { rv.tick_group_index_reference }, { rv.volatility_accumulator }
                                    ));
                                }
                                tags.push("x_oracle_checked");
                            } else {
                                viols.push("C14 adaptive-fee pool without an Oracle account after the swap".to_string());
                            }
                        }
                        // the Traded event reports the amounts moved
                        if let Some(ev) = out.events.iter().find(|e| e.len() == 8 + 32 + 1 + 16 + 16 + 8 * 6) {
                            let u = |o: usize| u64::from_le_bytes(ev[o..o + 8].try_into().unwrap());
                            let base = 8 + 32 + 1 + 32;
                            let (e_in, e_out, e_fin, e_fout, e_lp, e_pf) = (u(base), u(base + 8), u(base + 16), u(base + 24), u(base + 32), u(base + 40));
                            let (_, _, lp, pf) = reference.last_swap_report;
                            if e_in != d_tin || e_out != d_vout || e_fin != wh_in || e_fout != wh_out || e_lp != lp || e_pf != pf {
                                viols.push(format!(
                                    "C16/C06 Traded event (in {}, out {}, fees {}/{}, lp {}, protocol {}) differs from the amounts moved (in {}, out {}, withheld {}/{}, lp {}, protocol {})",
                                    e_in, e_out, e_fin, e_fout, e_lp, e_pf, d_tin, d_vout, wh_in, wh_out, lp, pf
                                ));
                            }
                            tags.push("x_event_checked");
                        } else {
                            viols.push("C06 no Traded event was emitted by a successful swap".to_string());
                        }
                        tags.push(if bi > 0 || bo > 0 { "x_ok_with_transfer_fee" } else { "x_ok" });
                    }
                }
                format!("ok {} {} {} {}", d_tin, d_tout, d_vin, d_vout)
            }
        };
        XSwapOut { line, viols, tags }
    }
}

use ::whirlpool::state::Tick;

// ================================================================================================
// C17: two-hop swap instruction versus its two single-swap instructions
//   H xhop <ver 1|2> <amount> <thrMode> <ein> <d1> <d2> <lim1> <lim2> <swapPools 0|1> <feeIn: bps max fut> <feeOut: bps max fut>
// pool one = the current state, pool two = the state saved by `H snap` (or the other way round).
// ================================================================================================
use crate::fixture::{add_token_side, k, trader_account, MintCfg};
use crate::svm::Bank;

pub struct XHopOut {
    pub line: String,
    pub viols: Vec<String>,
    pub tags: Vec<&'static str>,
}

struct Route {
    f1: Fx,
    f2: Fx,
    m_in: MintCfg,
    m_mid: MintCfg,
    m_out: MintCfg,
}

fn swap_ix(fx: &Fx, ver: u8, amount: u64, thr: u64, limit: u128, ein: bool, dir: bool) -> (Vec<Meta>, Vec<u8>) {
    if ver == 2 {
        (fx.swap_v2_metas(dir), ::whirlpool::instruction::SwapV2 { amount, other_amount_threshold: thr, sqrt_price_limit: limit, amount_specified_is_input: ein, a_to_b: dir, remaining_accounts_info: None }.data())
    } else {
        (fx.swap_v1_metas(dir), ::whirlpool::instruction::Swap { amount, other_amount_threshold: thr, sqrt_price_limit: limit, amount_specified_is_input: ein, a_to_b: dir }.data())
    }
}

/// the accounts and data of two_hop_swap (ver 1) / two_hop_swap_v2 (ver 2) over two pool fixtures
#[allow(clippy::too_many_arguments)]
fn build_two_hop(ver: u8, f1: &Fx, f2: &Fx, bank0: &Bank, d1: bool, d2: bool, m_in: &MintCfg, m_mid: &MintCfg, m_out: &MintCfg, t_in: anchor_lang::prelude::Pubkey, t_out: anchor_lang::prelude::Pubkey, amount: u64, thr: u64, ein: bool, lim1: u128, lim2: u128) -> (Vec<Meta>, Vec<u8>) {
    use anchor_lang::ToAccountMetas;
    let ta1 = f1.swap_arrays(d1);
    let ta2 = f2.swap_arrays(d2);
if ver == 2 {
            let acc = ::whirlpool::accounts::TwoHopSwapV2 {
                whirlpool_one: f1.pool,
                whirlpool_two: f2.pool,
                token_mint_input: m_in.key,
                token_mint_intermediate: m_mid.key,
                token_mint_output: m_out.key,
                token_program_input: m_in.program(),
                token_program_intermediate: m_mid.program(),
                token_program_output: m_out.program(),
                token_owner_account_input: t_in,
                token_vault_one_input: if d1 { f1.vault_a } else { f1.vault_b },
                token_vault_one_intermediate: if d1 { f1.vault_b } else { f1.vault_a },
                token_vault_two_intermediate: if d2 { f2.vault_a } else { f2.vault_b },
                token_vault_two_output: if d2 { f2.vault_b } else { f2.vault_a },
                token_owner_account_output: t_out,
                token_authority: f1.trader,
                tick_array_one_0: ta1[0],
                tick_array_one_1: ta1[1],
                tick_array_one_2: ta1[2],
                tick_array_two_0: ta2[0],
                tick_array_two_1: ta2[1],
                tick_array_two_2: ta2[2],
                oracle_one: f1.oracle,
                oracle_two: f2.oracle,
                memo_program: anchor_spl::memo::ID,
            };
            // supplemental tick arrays for BOTH legs in half of the cases (2 + 2, or 3 + 1: each leg within its own limit of
            // three; they repeat the legs' own arrays, which changes nothing for a single swap - C10 - and must change
            // nothing for the two-hop either)
            let mut metas: Vec<Meta> = acc.to_account_metas(None).iter().map(Meta::from).collect();
            let rai = {
                use ::whirlpool::util::{AccountsType, RemainingAccountsInfo, RemainingAccountsSlice};
                let (n1, n2) = match amount % 4 {
                    1 => (2usize, 2usize),
                    2 => (3, 1),
                    _ => (0, 0),
                };
                if n1 + n2 == 0 {
                    None
                } else {
                    for kx in ta1.iter().take(n1) {
                        metas.push(Meta { key: *kx, signer: false, writable: true });
                    }
                    for kx in ta2.iter().take(n2) {
                        metas.push(Meta { key: *kx, signer: false, writable: true });
                    }
                    Some(RemainingAccountsInfo {
                        slices: vec![
                            RemainingAccountsSlice { accounts_type: AccountsType::SupplementalTickArraysOne, length: n1 as u8 },
                            RemainingAccountsSlice { accounts_type: AccountsType::SupplementalTickArraysTwo, length: n2 as u8 },
                        ],
                    })
                }
            };
            (
                metas,
                ::whirlpool::instruction::TwoHopSwapV2 { amount, other_amount_threshold: thr, amount_specified_is_input: ein, a_to_b_one: d1, a_to_b_two: d2, sqrt_price_limit_one: lim1, sqrt_price_limit_two: lim2, remaining_accounts_info: rai }.data(),
            )
        } else {
            let acc = ::whirlpool::accounts::TwoHopSwap {
                token_program: anchor_spl::token::ID,
                token_authority: f1.trader,
                whirlpool_one: f1.pool,
                whirlpool_two: f2.pool,
                token_owner_account_one_a: f1.trader_a,
                token_vault_one_a: f1.vault_a,
                token_owner_account_one_b: f1.trader_b,
                token_vault_one_b: f1.vault_b,
                token_owner_account_two_a: f2.trader_a,
                token_vault_two_a: f2.vault_a,
                token_owner_account_two_b: f2.trader_b,
                token_vault_two_b: f2.vault_b,
                tick_array_one_0: ta1[0],
                tick_array_one_1: ta1[1],
                tick_array_one_2: ta1[2],
                tick_array_two_0: ta2[0],
                tick_array_two_1: ta2[1],
                tick_array_two_2: ta2[2],
                oracle_one: f1.oracle,
                oracle_two: f2.oracle,
            };
            let o1 = !bank0.data(&f1.oracle).is_empty();
            let o2 = !bank0.data(&f2.oracle).is_empty();
            (
                acc.to_account_metas(None)
                    .iter()
                    .map(Meta::from)
                    .map(|mut m| {
                        if (m.key == f1.oracle && o1) || (m.key == f2.oracle && o2) {
                            m.writable = true;
                        }
                        m
                    })
                    .collect(),
                ::whirlpool::instruction::TwoHopSwap { amount, other_amount_threshold: thr, amount_specified_is_input: ein, a_to_b_one: d1, a_to_b_two: d2, sqrt_price_limit_one: lim1, sqrt_price_limit_two: lim2 }.data(),
            )
        }
}

impl World {
    pub fn x_hop(&self, t: &[&str]) -> XHopOut {
        use anchor_lang::ToAccountMetas;
        let mut viols = vec![];
        let mut tags: Vec<&'static str> = vec![];
        let snap = match &self.snap {
            Some(s) => s,
            None => return XHopOut { line: "err NoSnapshot".to_string(), viols, tags },
        };
        let ver: u8 = t[2].parse().unwrap();
        let amount: u64 = t[3].parse().unwrap();
        let thr_mode: u8 = t[4].parse().unwrap();
        let (ein, d1, d2) = (t[5] == "1", t[6] == "1", t[7] == "1");
        let (lim1, lim2): (u128, u128) = (t[8].parse().unwrap(), t[9].parse().unwrap());
        let swap_pools = t[10] == "1";
        let (fee_in, fee_out) = if ver == 2 { (parse_fee(t[11], t[12], t[13]), parse_fee(t[14], t[15], t[16])) } else { (None, None) };
        let (w1, w2): (&World, &World) = if swap_pools { (snap, self) } else { (self, snap) };
        let t22 = ver == 2;
        let m_in = MintCfg { key: k(0x31, 1), token2022: t22 && t[11] != "65535", fee: fee_in, decimals: 6 };
        let m_mid = MintCfg { key: k(0x33, 3), token2022: false, fee: None, decimals: 8 };
        let m_out = MintCfg { key: k(0x35, 5), token2022: t22 && t[14] != "65535", fee: fee_out, decimals: 9 };
        let funds = u64::MAX / 4;
        // pool one trades in -> mid, pool two trades mid -> out
        let (a1, b1) = if d1 { (m_in, m_mid) } else { (m_mid, m_in) };
        let (a2, b2) = if d2 { (m_mid, m_out) } else { (m_out, m_mid) };
        let mut now_w1 = crate::hist_oracle::clone_world(w1);
        now_w1.now = self.now; // both pools live at the current time
        let mut now_w2 = crate::hist_oracle::clone_world(w2);
        now_w2.now = self.now;
        if now_w1.now < now_w1.wp().reward_last_updated_timestamp || now_w2.now < now_w2.wp().reward_last_updated_timestamp {
            return XHopOut { line: "err SnapshotFromTheFuture".to_string(), viols, tags };
        }
        let f1 = Fx::pool_only(&now_w1, &a1, &b1, 0, Bank::new(self.now as i64));
        let mut f2 = Fx::pool_only(&now_w2, &a2, &b2, 1, f1.bank.clone());
        add_token_side(&mut f2.bank, &[m_in, m_mid, m_out], funds);
        // trade-enable mode (C17 / C14): bit 1 = pool one's, bit 2 = pool two's Oracle says trading starts in the future
        // (adaptive-fee pools only: a static-fee pool has no Oracle account)
        let te: u8 = t.get(17).and_then(|x| x.parse().ok()).unwrap_or(0);
        for (bit, oracle) in [(1u8, f1.oracle), (2u8, f2.oracle)] {
            if te < 4 && te & bit != 0 {
                if let Some(a) = f2.bank.accts.get_mut(&oracle) {
                    if a.owner == ::whirlpool::ID && a.data.len() >= 48 {
                        a.data[40..48].copy_from_slice(&(self.now + 1000).to_le_bytes());
                    }
                }
            }
        }
        if te >= 4 {
            // C17 / C15: both legs name the SAME pool (4) / pool two does not trade the intermediate mint (5):
            // the instruction must be refused whatever the amounts, and change nothing
            let (g1, g2, dd2, mo, to) = if te == 4 {
                let mut g1 = f1.clone();
                g1.bank = f2.bank.clone();
                let g2 = g1.clone();
                (g1, g2, !d1, m_in, trader_account(&m_in.key))
            } else {
                let m_alt = MintCfg { key: k(0x37, 9), token2022: false, fee: None, decimals: 6 };
                let (a2x, b2x) = if d2 { (m_alt, m_out) } else { (m_out, m_alt) };
                let mut g2 = Fx::pool_only(&now_w2, &a2x, &b2x, 1, f2.bank.clone());
                add_token_side(&mut g2.bank, &[m_alt], funds);
                let mut g1 = f1.clone();
                g1.bank = g2.bank.clone();
                (g1, g2, d2, m_out, trader_account(&m_out.key))
            };
            let b0 = g2.bank.clone();
            let (metas, data) = build_two_hop(ver, &g1, &g2, &b0, d1, dd2, &m_in, &m_mid, &mo, trader_account(&m_in.key), to, amount, if ein { 0 } else { u64::MAX }, ein, 0, 0);
            let mut bank = b0.clone();
            let (res, out) = bank.execute(&metas, &data);
            return match res {
                Err(e) => {
                    let name = err_name(&e, &out.logs);
                    if bank.accts != b0.accts {
                        viols.push("a failed two-hop instruction changed account state".to_string());
                    }
                    tags.push(if te == 4 { "hop_same_pool_rejected" } else { "hop_wrong_mid_rejected" });
                    if std::env::var("WPH_LOGS").is_ok() {
                        eprintln!("xhop shape {} v{}: {}", te, ver, name);
                    }
                    XHopOut { line: format!("err {}", name), viols, tags }
                }
                Ok(()) => {
                    viols.push(format!("C17/C15 two_hop_swap v{} succeeded although {}", ver, if te == 4 { "both legs name the same pool" } else { "pool two does not trade the intermediate mint" }));
                    XHopOut { line: "ACCEPTED".to_string(), viols, tags }
                }
            };
        }
        let bank0 = f2.bank.clone();
        let mut f1 = f1;
        f1.bank = bank0.clone();
        let r = Route { f1, f2, m_in, m_mid, m_out };
        let bal = |b: &Bank, key: &anchor_lang::prelude::Pubkey| token_amount(&b.data(key));
        let (t_in, t_mid, t_out) = (trader_account(&m_in.key), trader_account(&m_mid.key), trader_account(&m_out.key));

        // ---- the two single swaps on copies (reference)
        // exact-in: leg one with `amount`, leg two with leg one's output.
        // exact-out: quote leg two for `amount` on a throw-away copy to learn its input; leg one exact-out for that; then leg two.
        let run_single = |bank: &mut Bank, fx: &Fx, amt: u64, lim: u128, e: bool, d: bool| -> Result<(u64, u64), String> {
            let mut fxx = fx.clone();
            fxx.bank = bank.clone();
            let (m, data) = swap_ix(&fxx, ver, amt, if e { 0 } else { u64::MAX }, lim, e, d);
            let (tin, tout) = if d { (fxx.trader_a, fxx.trader_b) } else { (fxx.trader_b, fxx.trader_a) };
            let (b_in, b_out) = (bal(bank, &tin), bal(bank, &tout));
            let (res, out) = bank.execute(&m, &data);
            match res {
                Ok(()) => Ok((b_in - bal(bank, &tin), bal(bank, &tout) - b_out)),
                Err(e) => Err(err_name(&e, &out.logs)),
            }
        };
        let mut ref_bank = bank0.clone();
        let singles: Result<(u64, u64, u64, u64), String> = (|| {
            if ein {
                let (in1, out1) = run_single(&mut ref_bank, &r.f1, amount, lim1, true, d1)?;
                let (in2, out2) = run_single(&mut ref_bank, &r.f2, out1, lim2, true, d2)?;
                Ok((in1, out1, in2, out2))
            } else {
                let mut quote = bank0.clone();
                let (need_mid, _) = run_single(&mut quote, &r.f2, amount, lim2, false, d2)?;
                let (in1, out1) = run_single(&mut ref_bank, &r.f1, need_mid, lim1, false, d1)?;
                let (in2, out2) = run_single(&mut ref_bank, &r.f2, amount, lim2, false, d2)?;
                Ok((in1, out1, in2, out2))
            }
        })();
        // expected outcome of the two-hop
        let matching = singles.as_ref().map(|(_, out1, in2, _)| out1 == in2).unwrap_or(false);
        let thr: u64 = match (&singles, thr_mode) {
            (Ok((_, _, _, out2)), 1) if ein => *out2,
            (Ok((in1, _, _, _)), 1) => *in1,
            (Ok((_, _, _, out2)), 2) if ein => out2.saturating_add(1),
            (Ok((in1, _, _, _)), 2) => in1.saturating_sub(1),
            _ => {
                if ein {
                    0
                } else {
                    u64::MAX
                }
            }
        };
        let thr_binds = match &singles {
            Ok((in1, _, _, out2)) => (ein && *out2 < thr) || (!ein && *in1 > thr),
            _ => false,
        };

        // ---- the two-hop instruction
        let mut bank = bank0.clone();
        let (metas, data) = build_two_hop(ver, &r.f1, &r.f2, &bank0, d1, d2, &m_in, &m_mid, &m_out, t_in, t_out, amount, thr, ein, lim1, lim2);
        let (res, out) = bank.execute(&metas, &data);
        let line = match &res {
            Err(e) => {
                let name = err_name(e, &out.logs);
                match &singles {
                    Ok(_) if matching && !thr_binds => viols.push(format!(
                        "C17 the two-hop fails with {} although both legs succeed as single swaps with matching intermediate amounts ({:?}) and the threshold {} holds",
                        name, singles, thr
                    )),
                    Ok(_) if !matching && name != "IntermediateTokenAmountMismatch" && !thr_binds => viols.push(format!("C17 the legs' intermediate amounts differ ({:?}) but the two-hop fails with {} instead of IntermediateTokenAmountMismatch", singles, name)),
                    Ok(_) => tags.push(if thr_binds { "hop_threshold_rejected" } else { "hop_mismatch_rejected" }),
                    Err(_) => tags.push("hop_leg_fails"),
                }
                if bank.accts != bank0.accts {
                    viols.push("a failed two-hop instruction changed account state".to_string());
                }
                format!("err {}", name)
            }
            Ok(()) => {
                let paid = bal(&bank0, &t_in) - bal(&bank, &t_in);
                let got = bal(&bank, &t_out) - bal(&bank0, &t_out);
                let mid_delta = bal(&bank, &t_mid) as i128 - bal(&bank0, &t_mid) as i128;
                match &singles {
                    Err(e) => viols.push(format!("C17 the two-hop succeeds but a leg fails as a single swap ({})", e)),
                    Ok((in1, out1, in2, out2)) => {
                        if !matching {
                            viols.push(format!("C17 the two-hop succeeds although the legs' intermediate amounts differ: leg one pays out {}, leg two takes {}", out1, in2));
                        }
                        if thr_binds {
                            viols.push(format!("C17/C03 the two-hop succeeds although the threshold {} is violated (in {}, out {})", thr, in1, out2));
                        }
                        if paid != *in1 || got != *out2 {
                            viols.push(format!("C17 the trader paid {} and received {}; the two single swaps pay {} and receive {}", paid, got, in1, out2));
                        }
                        if mid_delta != 0 {
                            viols.push(format!("C17 the intermediate token does not net to zero for the trader ({})", mid_delta));
                        }
                        // both pools, their tick arrays and oracles: exactly the state after the two single swaps
                        for (key, a) in &bank.accts {
                            if a.owner == ::whirlpool::ID && ref_bank.accts.get(key) != Some(a) {
                                viols.push(format!("C17 account {} (owned by the program) after the two-hop differs from its state after the two single swaps", key));
                                break;
                            }
                        }
                        // vault balances: pool one's input vault and pool two's output vault as in the single swaps;
                        // the intermediate moves vault to vault
                        if matching {
                            let v = |b: &Bank, k: &anchor_lang::prelude::Pubkey| bal(b, k);
                            let (v1i, v1m) = if d1 { (r.f1.vault_a, r.f1.vault_b) } else { (r.f1.vault_b, r.f1.vault_a) };
                            let (v2m, v2o) = if d2 { (r.f2.vault_a, r.f2.vault_b) } else { (r.f2.vault_b, r.f2.vault_a) };
                            if v(&bank, &v1i) != v(&ref_bank, &v1i) || v(&bank, &v2o) != v(&ref_bank, &v2o) || v(&bank, &v1m) != v(&ref_bank, &v1m) || v(&bank, &v2m) != v(&ref_bank, &v2m) {
                                viols.push("C17 vault balances after the two-hop differ from those after the two single swaps".to_string());
                            }
                        }
                        tags.push("hop_ok");
                    }
                }
                format!("ok {} {}", paid, got)
            }
        };
        let _ = (&r.m_in, &r.m_mid, &r.m_out);
        XHopOut { line, viols, tags }
    }
}

// ================================================================================================
// C12 / C13 / C16 / C04: the liquidity INSTRUCTIONS (Pinocchio-routed) through the entrypoint
//   H xliq <ver 1|2> <id> <inc 0|1> <liquidity> <slackMode> <feeA: bps max fut> <feeB: bps max fut> <authMode>
// slackMode: 0 = loose token max/min, 1 = exactly the resulting amounts, 2 = one unit too tight (A side).
// authMode: 0 = the owner signs; 1 = a stranger signs (must fail); 2 = the owner does not sign (must fail).
// ================================================================================================
pub const TICK_RENT: u64 = 779520;

fn min_balance(len: usize) -> u64 {
    solana_program::rent::Rent::default().minimum_balance(len)
}

/// `H xliqt`: increase_liquidity_by_token_amounts_v2 — carried into `x_liq` (same accounts, same checks)
#[derive(Clone, Debug)]
pub struct ByAmounts {
    pub tmax_a: u64,
    pub tmax_b: u64,
    pub min_p: u128,
    pub max_p: u128,
    /// the error the handler must report before it touches the managers (price window, estimate, zero liquidity)
    pub pre_err: Option<String>,
}
thread_local! {
    static BY_AMOUNTS: std::cell::RefCell<Option<ByAmounts>> = const { std::cell::RefCell::new(None) };
}

impl World {
    /// `H xliqt <id> <tokenMaxA> <tokenMaxB> <minSqrtPrice> <maxSqrtPrice> <feeA: bps max fut> <feeB: bps max fut> <authMode>`
    pub fn x_liqt(&self, t: &[&str]) -> XHopOut {
        let id: u32 = t[2].parse().unwrap();
        let (tmax_a, tmax_b): (u64, u64) = (t[3].parse().unwrap(), t[4].parse().unwrap());
        let (min_p, max_p): (u128, u128) = (t[5].parse().unwrap(), t[6].parse().unwrap());
        let (fee_a, fee_b) = (parse_fee(t[7], t[8], t[9]), parse_fee(t[10], t[11], t[12]));
        let f = |c: Option<FeeCfg>| c.map(|c| (c.bps as u64, c.max_fee)).unwrap_or((0, 0));
        let ((ba, ma), (bb, mb)) = (f(fee_a), f(fee_b));
        let pos = match self.pos(id) {
            Some(p) => p,
            None => return XHopOut { line: "err NoSuchPosition".to_string(), viols: vec![], tags: vec![] },
        };
        let price = { self.wp().sqrt_price };
        let (max_da, max_db) = (tmax_a - fee_of(ba, ma, tmax_a), tmax_b - fee_of(bb, mb, tmax_b));
        let mut pre_err = None;
        let mut liq: u128 = 0;
        if price < min_p || price > max_p {
            pre_err = Some("PriceSlippageOutOfBounds".to_string());
        } else {
            match ::whirlpool::math::estimate_max_liquidity_from_token_amounts(price, pos.tick_lower_index, pos.tick_upper_index, max_da, max_db) {
                Ok(0) => pre_err = Some("LiquidityZero".to_string()),
                Ok(l) => liq = l,
                Err(e) => pre_err = Some(format!("{:?}", e)),
            }
        }
        BY_AMOUNTS.with(|b| *b.borrow_mut() = Some(ByAmounts { tmax_a, tmax_b, min_p, max_p, pre_err }));
        let liq_s = liq.to_string();
        let synth: Vec<&str> = vec!["H", "xliq", "2", t[2], "1", &liq_s, "0", t[7], t[8], t[9], t[10], t[11], t[12], t[13]];
        let out = self.x_liq(&synth);
        BY_AMOUNTS.with(|b| *b.borrow_mut() = None);
        out
    }

    pub fn x_liq(&self, t: &[&str]) -> XHopOut {
        use anchor_lang::ToAccountMetas;
        let mut viols = vec![];
        let mut tags: Vec<&'static str> = vec![];
        let ver: u8 = t[2].parse().unwrap();
        let id: u32 = t[3].parse().unwrap();
        let inc = t[4] == "1";
        let liq: u128 = t[5].parse().unwrap();
        let slack: u8 = t[6].parse().unwrap();
        let (fee_a, fee_b) = if ver == 2 { (parse_fee(t[7], t[8], t[9]), parse_fee(t[10], t[11], t[12])) } else { (None, None) };
        let auth_mode: u8 = t[13].parse().unwrap();
        let pos0 = match self.pos(id) {
            Some(p) => p,
            None => return XHopOut { line: "err NoSuchPosition".to_string(), viols, tags },
        };
        // the world with both tick arrays of the position existing (initialize_tick_array is a separate instruction)
        let mut base = crate::hist_oracle::clone_world(self);
        let (ls, us) = (base.array_start_for(pos0.tick_lower_index), base.array_start_for(pos0.tick_upper_index));
        base.ensure_array(ls);
        base.ensure_array(us);
        let f = |c: Option<FeeCfg>| c.map(|c| (c.bps as u64, c.max_fee)).unwrap_or((0, 0));
        let ((ba, ma), (bb, mb)) = (f(fee_a), f(fee_b));
        // ---- reference: the Pinocchio managers on a copy (vault bookkeeping disabled)
        let mut reference = crate::hist_oracle::clone_world(&base);
        reference.vault_a = u128::MAX / 4;
        reference.vault_b = u128::MAX / 4;
        let ref_res: Result<(u64, u64), String> = std::panic::catch_unwind(std::panic::AssertUnwindSafe(|| {
            reference.modify_pub(id, liq, inc, true).map(|s| {
                let mut it = s.split(' ');
                (it.next().unwrap().parse().unwrap(), it.next().unwrap().parse().unwrap())
            })
        }))
        .unwrap_or_else(|_| Err("Panic".to_string()));
        // what the owner pays / receives
        let expect: Option<(u64, u64)> = ref_res.as_ref().ok().and_then(|(da, db)| {
            if inc {
                Some((included_of(ba, ma, *da)?, included_of(bb, mb, *db)?))
            } else {
                Some((da - fee_of(ba, ma, *da), db - fee_of(bb, mb, *db)))
            }
        });
        let (lim_a, lim_b): (u64, u64) = match (&expect, slack) {
            (Some((ua, ub)), 1) => (*ua, *ub),
            (Some((ua, ub)), 2) => (if inc { ua.saturating_sub(1) } else { ua.saturating_add(1) }, *ub),
            _ => {
                if inc {
                    (u64::MAX, u64::MAX)
                } else {
                    (0, 0)
                }
            }
        };
        let by = BY_AMOUNTS.with(|b| b.borrow().clone());
        let (lim_a, lim_b) = match &by {
            Some(b) => (b.tmax_a, b.tmax_b),
            None => (lim_a, lim_b),
        };
        let tight = match (&expect, &by) {
            (Some((ua, ub)), Some(_)) => *ua > lim_a || *ub > lim_b,
            (Some((ua, _)), None) => slack == 2 && ((inc && lim_a < *ua) || (!inc && lim_a > *ua)),
            (None, _) => false,
        };
        // ---- accounts
        let t22a = ver == 2 && t[7] != "65535";
        let t22b = ver == 2 && t[10] != "65535";
        let funds = u64::MAX / 4;
        let mut fx = Fx::from_world(&base, fee_a, fee_b, t22a, t22b, funds);
        let pmint = k(0x61, id as u8);
        let position = anchor_lang::prelude::Pubkey::find_program_address(&[b"position", pmint.as_ref()], &::whirlpool::ID).0;
        let ptoken = k(0x62, id as u8);
        let stranger = k(0x63, 9);
        let mut pdata = base.positions[&id].clone();
        // authMode 3: a stranger signs and passes HIS OWN token account holding one token of another mint (C04);
        // authMode 4: the position account belongs to ANOTHER pool (C15)
        pdata[8..40].copy_from_slice(if auth_mode == 4 { k(0x77, 1) } else { fx.pool }.as_ref());
        pdata[40..72].copy_from_slice(pmint.as_ref());
        let pos_units = *base.pos_rent.get(&id).unwrap_or(&2);
        fx.bank.set(position, ::whirlpool::ID, min_balance(pdata.len()) + pos_units as u64 * TICK_RENT, pdata);
        fx.bank.set(pmint, anchor_spl::token::ID, 1_000_000, crate::fixture::mint_data(false, 0, None, 0));
        fx.bank.set(ptoken, anchor_spl::token::ID, 2_000_000, crate::fixture::token_account_data(false, &pmint, &fx.trader, if auth_mode == 5 { 0 } else { 1 }, false)); // mode 5: the signer's account of the position mint is EMPTY
        fx.bank.set(stranger, crate::svm::system_id(), 1_000_000, vec![]);
        let (omint, otoken) = (k(0x64, id as u8), k(0x66, id as u8));
        fx.bank.set(omint, anchor_spl::token::ID, 1_000_000, crate::fixture::mint_data(false, 0, None, 0));
        fx.bank.set(otoken, anchor_spl::token::ID, 2_000_000, crate::fixture::token_account_data(false, &omint, &stranger, 1, false));
        let ptoken = if auth_mode == 3 { otoken } else { ptoken };
        // tick arrays: exactly rent-exempt for their size plus the tick-rent units they hold
        for st in [ls, us] {
            let key = crate::fixture::tick_array_pda(&fx.pool, st);
            let mut a = fx.bank.get(&key);
            let dynamic = base.arrays[&st].dynamic;
            a.lamports = if dynamic { min_balance(148) + *base.array_rent.get(&st).unwrap_or(&0) as u64 * TICK_RENT } else { min_balance(a.data.len()) };
            fx.bank.accts.insert(key, a);
        }
        // mode 6: a stranger signs and pays from / receives into token accounts HE owns (so the token program has no
        // reason to refuse the transfer: only the position-authority check stands between him and the position)
        if auth_mode == 6 {
            for key in [fx.trader_a, fx.trader_b] {
                let mut a = fx.bank.get(&key);
                a.data[32..64].copy_from_slice(stranger.as_ref());
                fx.bank.accts.insert(key, a);
            }
        }
        let bank0 = fx.bank.clone();
        let (ta_l, ta_u) = (crate::fixture::tick_array_pda(&fx.pool, ls), crate::fixture::tick_array_pda(&fx.pool, us));
        let signer_key = if auth_mode == 1 || auth_mode == 3 || auth_mode == 6 { stranger } else { fx.trader };
        let (mut metas, data): (Vec<Meta>, Vec<u8>) = if ver == 2 {
            let acc = ::whirlpool::accounts::ModifyLiquidityV2 {
                whirlpool: fx.pool,
                token_program_a: fx.prog_a,
                token_program_b: fx.prog_b,
                memo_program: anchor_spl::memo::ID,
                position_authority: signer_key,
                position,
                position_token_account: ptoken,
                token_mint_a: fx.mint_a,
                token_mint_b: fx.mint_b,
                token_owner_account_a: fx.trader_a,
                token_owner_account_b: fx.trader_b,
                token_vault_a: fx.vault_a,
                token_vault_b: fx.vault_b,
                tick_array_lower: ta_l,
                tick_array_upper: ta_u,
            };
            let m = acc.to_account_metas(None).iter().map(Meta::from).collect();
            let d = if let Some(b) = &by {
                ::whirlpool::instruction::IncreaseLiquidityByTokenAmountsV2 {
                    method: ::whirlpool::instructions::IncreaseLiquidityMethod::ByTokenAmounts { token_max_a: b.tmax_a, token_max_b: b.tmax_b, min_sqrt_price: b.min_p, max_sqrt_price: b.max_p },
                    remaining_accounts_info: None,
                }
                .data()
            } else if inc {
                ::whirlpool::instruction::IncreaseLiquidityV2 { liquidity_amount: liq, token_max_a: lim_a, token_max_b: lim_b, remaining_accounts_info: None }.data()
            } else {
                ::whirlpool::instruction::DecreaseLiquidityV2 { liquidity_amount: liq, token_min_a: lim_a, token_min_b: lim_b, remaining_accounts_info: None }.data()
            };
            (m, d)
        } else {
            let acc = ::whirlpool::accounts::ModifyLiquidity {
                whirlpool: fx.pool,
                token_program: anchor_spl::token::ID,
                position_authority: signer_key,
                position,
                position_token_account: ptoken,
                token_owner_account_a: fx.trader_a,
                token_owner_account_b: fx.trader_b,
                token_vault_a: fx.vault_a,
                token_vault_b: fx.vault_b,
                tick_array_lower: ta_l,
                tick_array_upper: ta_u,
            };
            let m = acc.to_account_metas(None).iter().map(Meta::from).collect();
            let d = if inc {
                ::whirlpool::instruction::IncreaseLiquidity { liquidity_amount: liq, token_max_a: lim_a, token_max_b: lim_b }.data()
            } else {
                ::whirlpool::instruction::DecreaseLiquidity { liquidity_amount: liq, token_min_a: lim_a, token_min_b: lim_b }.data()
            };
            (m, d)
        };
        if auth_mode == 2 {
            for m in metas.iter_mut() {
                if m.key == signer_key {
                    m.signer = false;
                }
            }
        }
        let (res, out) = fx.bank.execute(&metas, &data);
        let bal = |b: &Bank, key: &anchor_lang::prelude::Pubkey| token_amount(&b.data(key));
        let vault_short = match &ref_res {
            Ok((da, db)) if !inc => *da > bal(&bank0, &fx.vault_a) || *db > bal(&bank0, &fx.vault_b),
            _ => false,
        };
        let line = match &res {
            Err(e) => {
                let name = err_name(e, &out.logs);
                if auth_mode != 0 {
                    tags.push("liq_unauthorized_rejected");
                } else if let Some(pe) = by.as_ref().and_then(|b| b.pre_err.clone()) {
                    if name != pe {
                        viols.push(format!("C08 increase_liquidity_by_token_amounts_v2 must fail with {} (price window / estimate), the handler gives {}", pe, name));
                    }
                    tags.push("liqt_pre_rejected");
                } else {
                    match &expect {
                        Some(_) if tight => {
                            let want = if inc { "TokenMaxExceeded" } else { "TokenMinSubceeded" };
                            if name != want {
                                viols.push(format!("C16/C08 token limit one unit too tight: expected {}, the handler gives {}", want, name));
                            }
                            tags.push("liq_limit_rejected");
                        }
                        Some((ua, ub)) if (inc && (*ua > funds || *ub > funds)) || vault_short => tags.push("liq_token_insufficient_funds"),
                        Some(_) => viols.push(format!("C12 liquidity instruction v{} fails with {} but the manager computation succeeds ({:?})", ver, name, ref_res)),
                        None => tags.push("liq_both_fail"),
                    }
                }
                if fx.bank.accts != bank0.accts {
                    viols.push("a failed liquidity instruction changed account state".to_string());
                }
                format!("err {}", name)
            }
            Ok(()) => {
                if auth_mode != 0 {
                    viols.push(format!("C04/C15 the liquidity instruction succeeded although {} (mode {})", match auth_mode { 3 => "a stranger holding one token of ANOTHER mint signed as the position's authority", 4 => "the position belongs to another pool than the one named", 5 => "the signer's account of the position mint holds no token", 6 => "a stranger signed, paying from token accounts of his own", _ => "the position owner did not sign" }, auth_mode));
                }
                if let Some(pe) = by.as_ref().and_then(|b| b.pre_err.clone()) {
                    viols.push(format!("C08 increase_liquidity_by_token_amounts_v2 succeeded although it must fail with {}", pe));
                }
                if by.is_some() {
                    tags.push("liqt_ok");
                }
                match (&ref_res, &expect) {
                    (Ok((da, db)), Some((ua, ub))) => {
                        if tight {
                            viols.push("C16/C08 the token limit is one unit too tight but the instruction succeeded".to_string());
                        }
                        let (d_ta, d_tb, d_va, d_vb) = if inc {
                            (bal(&bank0, &fx.trader_a) - bal(&fx.bank, &fx.trader_a), bal(&bank0, &fx.trader_b) - bal(&fx.bank, &fx.trader_b), bal(&fx.bank, &fx.vault_a) - bal(&bank0, &fx.vault_a), bal(&fx.bank, &fx.vault_b) - bal(&bank0, &fx.vault_b))
                        } else {
                            (bal(&fx.bank, &fx.trader_a) - bal(&bank0, &fx.trader_a), bal(&fx.bank, &fx.trader_b) - bal(&bank0, &fx.trader_b), bal(&bank0, &fx.vault_a) - bal(&fx.bank, &fx.vault_a), bal(&bank0, &fx.vault_b) - bal(&fx.bank, &fx.vault_b))
                        };
                        if (d_va, d_vb) != (*da, *db) {
                            viols.push(format!("C16/C08 the vaults moved ({}, {}) but the liquidity change is worth ({}, {})", d_va, d_vb, da, db));
                        }
                        if (d_ta, d_tb) != (*ua, *ub) {
                            viols.push(format!("C16 the owner {} ({}, {}); expected ({}, {})", if inc { "paid" } else { "received" }, d_ta, d_tb, ua, ub));
                        }
                        // whirlpool and position accounts = the manager-level reference
                        let mut want_wp = reference.wp.clone();
                        let got_wp = fx.bank.data(&fx.pool);
                        // (config / mints / vaults / bump were set by the fixture)
                        let w_ref = Whirlpool::try_deserialize(&mut &want_wp[..]).unwrap();
                        let w_got = fx.wp();
                        let same_pool = { w_ref.liquidity } == { w_got.liquidity }
                            && w_ref.reward_last_updated_timestamp == w_got.reward_last_updated_timestamp
                            && (0..3).all(|i| { w_ref.reward_infos[i].growth_global_x64 } == { w_got.reward_infos[i].growth_global_x64 })
                            && { w_ref.sqrt_price } == { w_got.sqrt_price }
                            && { w_ref.fee_growth_global_a } == { w_got.fee_growth_global_a };
                        if !same_pool {
                            viols.push("C12 the whirlpool account after the liquidity instruction differs from the manager-level result".to_string());
                        }
                        let _ = (&mut want_wp, got_wp);
                        let p_got = fx.bank.data(&position);
                        let p_ref = &reference.positions[&id];
                        if p_got[72..] != p_ref[72..] {
                            viols.push("C12 the position account after the liquidity instruction differs from the manager-level result".to_string());
                        }
                        // tick arrays: bytes (up to the re-keyed pool field), REAL account length, lamports
                        for st in [ls, us] {
                            let key = crate::fixture::tick_array_pda(&fx.pool, st);
                            let got = fx.bank.get(&key);
                            let racc = &reference.arrays[&st];
                            let rdata = racc.data.borrow();
                            if racc.dynamic {
                                let n = u128::from_le_bytes(rdata[44..60].try_into().unwrap()).count_ones() as usize;
                                let used = 148 + 112 * n;
                                if got.data.len() != used {
                                    viols.push(format!("C13 dynamic tick array at {}: account length {} after the instruction, 148 + 112 x {} = {}", st, got.data.len(), n, used));
                                } else if got.data[44..used] != rdata[44..used] || got.data[..12] != rdata[..12] {
                                    viols.push(format!("C12/C13 dynamic tick array at {} differs from the manager-level result", st));
                                }
                                if got.lamports < min_balance(got.data.len()) {
                                    viols.push(format!("C13 dynamic tick array at {} is not rent exempt after the instruction ({} lamports for {} bytes)", st, got.lamports, got.data.len()));
                                }
                                let want_l = min_balance(148) + *reference.array_rent.get(&st).unwrap_or(&0) as u64 * TICK_RENT;
                                if got.lamports != want_l {
                                    viols.push(format!("C13 dynamic tick array at {} holds {} lamports, the rent ledger says {}", st, got.lamports, want_l));
                                }
                            } else {
                                let n = rdata.len();
                                if got.data.len() != n || got.data[..n - 32] != rdata[..n - 32] {
                                    viols.push(format!("C12 fixed tick array at {} differs from the manager-level result", st));
                                }
                            }
                        }
                        let want_pl = min_balance(216) + *reference.pos_rent.get(&id).unwrap_or(&2) as u64 * TICK_RENT;
                        if fx.bank.get(&position).lamports != want_pl {
                            viols.push(format!("C13 the position holds {} lamports, the rent ledger says {}", fx.bank.get(&position).lamports, want_pl));
                        }
                        tags.push(if ba > 0 || bb > 0 { "liq_ok_with_transfer_fee" } else { "liq_ok" });
                        format!("ok {} {} {} {}", d_ta, d_tb, d_va, d_vb)
                    }
                    _ => {
                        viols.push(format!("C12 liquidity instruction v{} succeeds but the manager computation fails ({:?})", ver, ref_res.as_ref().err()));
                        "ok ?".to_string()
                    }
                }
            }
        };
        XHopOut { line, viols, tags }
    }
}
use ::whirlpool::state::Whirlpool;
use anchor_lang::AccountDeserialize;

/// the new range of the `repo` substitution experiment: same lower bound, upper bound one spacing further (nearer at the top)
fn repo_range(lo: i32, hi: i32, ts: u16) -> (i32, i32) {
    let ts = ts as i32;
    if hi + ts <= 443636 - (443636 % ts) {
        (lo, hi + ts)
    } else if hi - ts > lo {
        (lo, hi - ts)
    } else {
        (lo, hi)
    }
}

// ================================================================================================
// C15 / C04: account substitution — every account slot of an instruction replaced by a look-alike
//   H xsub <swap|liq> <slot> <id>
// The look-alike has the same owner program and the same account type, but is not the account the
// pool / position names (another vault for the same mint, another mint, a tick array or oracle of a
// different pool, another position, the other token program, an unrelated signer ...).
// The instruction must be refused and must change nothing.
// ================================================================================================
impl World {
    pub fn x_sub(&self, t: &[&str]) -> XHopOut {
        use anchor_lang::ToAccountMetas;
        let mut viols = vec![];
        let mut tags: Vec<&'static str> = vec![];
        let kind = t[2];
        if kind == "grid" {
            // every (instruction, slot, variant) combination on this state: look-alike and the five forgeries
            let mut all = XHopOut { line: "rejected".to_string(), viols: vec![], tags: vec!["sub_grid"] };
            for kd in ["swap", "liq", "dec", "liqt", "liq1", "dec1", "repo"] {
                for slot in 0..19 {
                    for forge in 0..8 {
                        let sl = slot.to_string();
                        let fg = forge.to_string();
                        let o = self.x_sub(&[t[0], t[1], kd, &sl, t[4], &fg]);
                        if o.line == "ACCEPTED" {
                            all.line = "ACCEPTED".to_string();
                        }
                        all.viols.extend(o.viols);
                    }
                }
            }
            return all;
        }
        let slot: usize = t[3].parse().unwrap();
        let id: u32 = t[4].parse().unwrap();
        let funds = u64::MAX / 4;
        let mut base = crate::hist_oracle::clone_world(self);
        let pos0 = self.pos(id);
        if kind != "swap" {
            match &pos0 {
                Some(p) => {
                    let (ls, us) = (base.array_start_for(p.tick_lower_index), base.array_start_for(p.tick_upper_index));
                    base.ensure_array(ls);
                    base.ensure_array(us);
                    // the right-hand neighbours of both arrays exist too (forge variant 7 offers them instead)
                    let span = 88 * base.wp().tick_spacing as i32;
                    for st in [ls + span, us + span] {
                        if st <= 443636 {
                            base.ensure_array(st);
                        }
                    }
                    if kind == "repo" {
                        let (_, nhi) = repo_range(p.tick_lower_index, p.tick_upper_index, base.wp().tick_spacing);
                        let nus = base.array_start_for(nhi);
                        base.ensure_array(nus);
                    }
                }
                None => return XHopOut { line: "err NoSuchPosition".to_string(), viols, tags },
            }
        }
        // Token-2022 mints on both sides so that every slot has a look-alike of the same program
        let mut fx = Fx::from_world(&base, None, None, false, false, funds);
        // a second pool over the same mints (look-alike whirlpool, vaults, tick arrays, oracle)
        let ma = MintCfg { key: fx.mint_a, token2022: false, fee: None, decimals: 6 };
        let mb = MintCfg { key: fx.mint_b, token2022: false, fee: None, decimals: 9 };
        let other = Fx::pool_only(&base, &ma, &mb, 1, fx.bank.clone());
        fx.bank = other.bank.clone();
        // a third mint with the trader's account, a stranger, a second position
        let mc = MintCfg { key: k(0x37, 7), token2022: false, fee: None, decimals: 6 };
        add_token_side(&mut fx.bank, &[mc], funds);
        let stranger = k(0x63, 9);
        fx.bank.set(stranger, crate::svm::system_id(), 1_000_000, vec![]);
        let dir = true;
        let ta = fx.swap_arrays(dir);
        let ota = other.swap_arrays(dir);
        // make sure the foreign tick arrays exist as initialized accounts of the OTHER pool
        let (metas, data, roles): (Vec<Meta>, Vec<u8>, Vec<(anchor_lang::prelude::Pubkey, anchor_lang::prelude::Pubkey)>) = if kind == "swap" {
            let m = fx.swap_v2_metas(dir);
            let d = ::whirlpool::instruction::SwapV2 { amount: 1000, other_amount_threshold: 0, sqrt_price_limit: 0, amount_specified_is_input: true, a_to_b: dir, remaining_accounts_info: None }.data();
            let roles = vec![
                (fx.pool, other.pool),
                (fx.mint_a, mc.key),
                (fx.mint_b, mc.key),
                (fx.trader_a, trader_account(&mc.key)),
                (fx.trader_b, trader_account(&mc.key)),
                (fx.vault_a, other.vault_a),
                (fx.vault_b, other.vault_b),
                (ta[0], ota[0]),
                (ta[1], ota[1]),
                (ta[2], ota[2]),
                (fx.oracle, other.oracle),
                (fx.trader, stranger),
                (fx.prog_a, anchor_spl::token_2022::ID),
                (anchor_spl::memo::ID, anchor_spl::token::ID),
            ];
            (m, d, roles)
        } else {
            let p = pos0.clone().unwrap();
            let (ls, us) = (base.array_start_for(p.tick_lower_index), base.array_start_for(p.tick_upper_index));
            let mk_pos = |bank: &mut Bank, pool: &anchor_lang::prelude::Pubkey, tag: u8| -> (anchor_lang::prelude::Pubkey, anchor_lang::prelude::Pubkey) {
                let pmint = k(0x61 + tag, id as u8);
                let position = anchor_lang::prelude::Pubkey::find_program_address(&[b"position", pmint.as_ref()], &::whirlpool::ID).0;
                let ptoken = k(0x65 + tag, id as u8);
                let mut pdata = base.positions[&id].clone();
                pdata[8..40].copy_from_slice(pool.as_ref());
                pdata[40..72].copy_from_slice(pmint.as_ref());
                bank.set(position, ::whirlpool::ID, min_balance(pdata.len()) + 2 * TICK_RENT, pdata);
                bank.set(pmint, anchor_spl::token::ID, 1_000_000, crate::fixture::mint_data(false, 0, None, 0));
                bank.set(ptoken, anchor_spl::token::ID, 2_000_000, crate::fixture::token_account_data(false, &pmint, &k(0x51, 1), 1, false));
                (position, ptoken)
            };
            let (position, ptoken) = mk_pos(&mut fx.bank, &fx.pool, 0);
            let (o_position, o_ptoken) = mk_pos(&mut fx.bank, &other.pool, 1);
            let (ta_l, ta_u) = (crate::fixture::tick_array_pda(&fx.pool, ls), crate::fixture::tick_array_pda(&fx.pool, us));
            let (ota_l, ota_u) = (crate::fixture::tick_array_pda(&other.pool, ls), crate::fixture::tick_array_pda(&other.pool, us));
            if kind == "repo" {
                // reposition_liquidity_v2 (Pinocchio): same lower bound, the upper bound one spacing further (or nearer)
                let (nlo, nhi) = repo_range(p.tick_lower_index, p.tick_upper_index, base.wp().tick_spacing);
                let nus = base.array_start_for(nhi);
                let (nta_u, onta_u) = (crate::fixture::tick_array_pda(&fx.pool, nus), crate::fixture::tick_array_pda(&other.pool, nus));
                fx.bank.set_program(crate::svm::system_id());
                let a = fx.bank.get(&position);
                fx.bank.set(position, a.owner, a.lamports + 4 * TICK_RENT, a.data.clone());
                let acc = ::whirlpool::accounts::RepositionLiquidityV2 {
                    whirlpool: fx.pool,
                    token_program_a: fx.prog_a,
                    token_program_b: fx.prog_b,
                    memo_program: anchor_spl::memo::ID,
                    position_authority: fx.trader,
                    funder: fx.trader,
                    position,
                    position_token_account: ptoken,
                    token_mint_a: fx.mint_a,
                    token_mint_b: fx.mint_b,
                    token_owner_account_a: fx.trader_a,
                    token_owner_account_b: fx.trader_b,
                    token_vault_a: fx.vault_a,
                    token_vault_b: fx.vault_b,
                    existing_tick_array_lower: ta_l,
                    existing_tick_array_upper: ta_u,
                    new_tick_array_lower: ta_l,
                    new_tick_array_upper: nta_u,
                    system_program: crate::svm::system_id(),
                };
                let m: Vec<Meta> = acc.to_account_metas(None).iter().map(Meta::from).collect();
                let d = ::whirlpool::instruction::RepositionLiquidityV2 {
                    new_tick_lower_index: nlo,
                    new_tick_upper_index: nhi,
                    method: ::whirlpool::instructions::RepositionLiquidityMethod::ByLiquidity {
                        new_liquidity_amount: 1000,
                        existing_range_token_min_a: 0,
                        existing_range_token_min_b: 0,
                        new_range_token_max_a: u64::MAX,
                        new_range_token_max_b: u64::MAX,
                    },
                    remaining_accounts_info: None,
                }
                .data();
                let roles = vec![
                    (fx.pool, other.pool),
                    (position, o_position),
                    (ptoken, o_ptoken),
                    (fx.mint_a, mc.key),
                    (fx.mint_b, mc.key),
                    (fx.trader_a, trader_account(&mc.key)),
                    (fx.trader_b, trader_account(&mc.key)),
                    (fx.vault_a, other.vault_a),
                    (fx.vault_b, other.vault_b),
                    (ta_l, ota_l),
                    (ta_u, ota_u),
                    (nta_u, onta_u),
                    (fx.trader, stranger),
                    (fx.prog_a, anchor_spl::token_2022::ID),
                    (anchor_spl::memo::ID, anchor_spl::token::ID),
                ];
                (m, d, roles)
            } else {
            let acc = ::whirlpool::accounts::ModifyLiquidityV2 {
                whirlpool: fx.pool,
                token_program_a: fx.prog_a,
                token_program_b: fx.prog_b,
                memo_program: anchor_spl::memo::ID,
                position_authority: fx.trader,
                position,
                position_token_account: ptoken,
                token_mint_a: fx.mint_a,
                token_mint_b: fx.mint_b,
                token_owner_account_a: fx.trader_a,
                token_owner_account_b: fx.trader_b,
                token_vault_a: fx.vault_a,
                token_vault_b: fx.vault_b,
                tick_array_lower: ta_l,
                tick_array_upper: ta_u,
            };
            let m: Vec<Meta> = if kind == "liq1" || kind == "dec1" {
                // the v1 instructions (Pinocchio handlers too): one token program, no mints, no memo
                let acc1 = ::whirlpool::accounts::ModifyLiquidity {
                    whirlpool: fx.pool,
                    token_program: anchor_spl::token::ID,
                    position_authority: fx.trader,
                    position,
                    position_token_account: ptoken,
                    token_owner_account_a: fx.trader_a,
                    token_owner_account_b: fx.trader_b,
                    token_vault_a: fx.vault_a,
                    token_vault_b: fx.vault_b,
                    tick_array_lower: ta_l,
                    tick_array_upper: ta_u,
                };
                acc1.to_account_metas(None).iter().map(Meta::from).collect()
            } else {
                acc.to_account_metas(None).iter().map(Meta::from).collect()
            };
            let d = if kind == "liq1" {
                ::whirlpool::instruction::IncreaseLiquidity { liquidity_amount: 1000, token_max_a: u64::MAX, token_max_b: u64::MAX }.data()
            } else if kind == "dec1" {
                let l = p.liquidity.min(1000);
                ::whirlpool::instruction::DecreaseLiquidity { liquidity_amount: l, token_min_a: 0, token_min_b: 0 }.data()
            } else if kind == "liqt" {
                // increase_liquidity_by_token_amounts_v2: same accounts, its own Pinocchio handler
                ::whirlpool::instruction::IncreaseLiquidityByTokenAmountsV2 {
                    method: ::whirlpool::instructions::IncreaseLiquidityMethod::ByTokenAmounts { token_max_a: 1_000_000, token_max_b: 1_000_000, min_sqrt_price: 0, max_sqrt_price: u128::MAX },
                    remaining_accounts_info: None,
                }
                .data()
            } else if kind == "dec" {
                // a withdrawal: the tokens are moved by the pool's own signature, so the position authority is the only gate
                let l = p.liquidity.min(1000);
                ::whirlpool::instruction::DecreaseLiquidityV2 { liquidity_amount: l, token_min_a: 0, token_min_b: 0, remaining_accounts_info: None }.data()
            } else {
                ::whirlpool::instruction::IncreaseLiquidityV2 { liquidity_amount: 1000, token_max_a: u64::MAX, token_max_b: u64::MAX, remaining_accounts_info: None }.data()
            };
            let roles = vec![
                (fx.pool, other.pool),
                (position, o_position),
                (ptoken, o_ptoken),
                (fx.mint_a, mc.key),
                (fx.mint_b, mc.key),
                (fx.trader_a, trader_account(&mc.key)),
                (fx.trader_b, trader_account(&mc.key)),
                (fx.vault_a, other.vault_a),
                (fx.vault_b, other.vault_b),
                (ta_l, ota_l),
                (ta_u, ota_u),
                (fx.trader, stranger),
                (fx.prog_a, anchor_spl::token_2022::ID),
                (anchor_spl::memo::ID, anchor_spl::token::ID),
            ];
            (m, d, roles)
            }
        };
        // (slot of the position token account, slot of the position authority) of the liquidity instructions
        let (ptoken_slot, auth_slot) = match kind {
            "liq1" | "dec1" => (4usize, 2usize),
            "repo" => (7, 4),
            _ => (6, 4),
        };
        // reposition does not touch the arrays of the existing range when the position holds no liquidity: what sits in
        // those two slots is then never read (not a pin to test)
        if kind == "repo" && (slot == 14 || slot == 15) && pos0.as_ref().map_or(true, |p| p.liquidity == 0) {
            return XHopOut { line: "skip NotUsed".to_string(), viols, tags: vec!["sub_not_used"] };
        }
        // the funder of a reposition is whoever signs for the rent top-up: not a pin
        if kind == "repo" && slot == 5 {
            return XHopOut { line: "skip NotPinned".to_string(), viols, tags: vec!["sub_not_pinned"] };
        }
        // the unsubstituted instruction must be acceptable (else the experiment says nothing)
        let mut control = fx.bank.clone();
        let (cres, cout) = control.execute(&metas, &data);
        if let Err(e) = &cres {
            return XHopOut { line: format!("skip {}", err_name(e, &cout.logs)), viols, tags: vec!["sub_control_fails"] };
        }
        if slot >= metas.len() {
            return XHopOut { line: "skip NoSuchSlot".to_string(), viols, tags: vec!["sub_no_slot"] };
        }
        let orig = metas[slot].key;
        let forge_req = t.get(5).map_or(false, |x| x != &"0");
        let subst = match roles.iter().find(|(a, _)| *a == orig) {
            Some((_, b)) => *b,
            None if forge_req => orig,
            None => return XHopOut { line: "skip NoLookAlike".to_string(), viols, tags: vec!["sub_no_lookalike"] },
        };
        // a look-alike must be a real account of the same kind (an array that does not exist in the other pool is
        // just an unrelated empty account, which the tick-array builder legitimately ignores)
        if !forge_req && (fx.bank.get(&orig).owner == ::whirlpool::ID || roles.iter().position(|(a, _)| *a == orig).map_or(false, |i| kind == "swap" && (7..=10).contains(&i))) && fx.bank.get(&subst).owner != ::whirlpool::ID {
            return XHopOut { line: "skip NoLookAlike".to_string(), viols, tags: vec!["sub_no_lookalike"] };
        }
        let mut m2 = metas.clone();
        // a duplicated key (token program a == b) is substituted in this slot only
        m2[slot].key = subst;
        // forged variants (5th argument > 0): a byte-identical copy of the ORIGINAL account at another address,
        // owned by a program that is not the expected one (random id; an id ending in the Token-2022 / Token
        // program's last byte; the whirlpool program; the system program).  For the position token account the
        // copy names the stranger as holder and the stranger signs as position authority.
        let forge: u32 = t.get(5).and_then(|x| x.parse().ok()).unwrap_or(0);
        let mut subst = subst;
        if forge == 7 {
            // variant 7 (C05 / C13): a tick-array slot of a liquidity instruction holds ANOTHER tick array of the SAME pool -
            // the right-hand neighbour of the right one.  The bound's tick is not in it: TickNotFound, nothing written.
            let span = 88 * base.wp().tick_spacing as i32;
            let starts: Vec<i32> = base.arrays.keys().copied().collect();
            let hit = starts.iter().find(|st| crate::fixture::tick_array_pda(&fx.pool, **st) == orig).copied();
            let nb = match hit {
                Some(st) if kind != "swap" && base.arrays.contains_key(&(st + span)) => crate::fixture::tick_array_pda(&fx.pool, st + span),
                _ => return XHopOut { line: "skip NoForgery".to_string(), viols, tags: vec!["sub_no_forgery"] },
            };
            if metas.iter().any(|m| m.key == nb) && kind != "repo" {
                // (lower and upper bound in adjacent arrays: the neighbour is the other slot's array - still the wrong one here)
            }
            m2[slot].key = nb;
            subst = nb;
            tags.push("sub_neighbour_array");
        } else if forge == 6 {
            // variant 6: a byte-identical copy of one of the pool's VAULTS at another address, under the SAME token
            // program (anyone can create a token account of the right mint whose authority is the pool): only the
            // address distinguishes it from the pool's vault
            if orig != fx.vault_a && orig != fx.vault_b {
                return XHopOut { line: "skip NoForgery".to_string(), viols, tags: vec!["sub_no_forgery"] };
            }
            let o = fx.bank.get(&orig);
            let cloned = k(0x74, slot as u8);
            fx.bank.set(cloned, o.owner, o.lamports, o.data.clone());
            m2[slot].key = cloned;
            subst = cloned;
            tags.push("sub_cloned_vault");
        } else if forge > 0 {
            let o = fx.bank.get(&orig);
            // the trader's own token accounts are validated by the token program only when tokens actually move
            // (a zero-amount side makes no transfer), so a forged copy there says nothing about the whirlpool program
            if o.executable || o.owner == crate::svm::system_id() || metas[slot].signer || orig == fx.trader_a || orig == fx.trader_b {
                return XHopOut { line: "skip NoForgery".to_string(), viols, tags: vec!["sub_no_forgery"] };
            }
            let mut fake = [0x71u8; 32];
            fake[0] = slot as u8;
            let fake_owner = match forge {
                1 => anchor_lang::prelude::Pubkey::new_from_array(fake),
                2 => { fake[31] = 0xfc; anchor_lang::prelude::Pubkey::new_from_array(fake) }
                3 => { fake[31] = 0xa9; anchor_lang::prelude::Pubkey::new_from_array(fake) }
                4 => if o.owner == ::whirlpool::ID { anchor_spl::token::ID } else { ::whirlpool::ID },
                _ => crate::svm::system_id(),
            };
            let forged = k(0x73, slot as u8);
            let mut data = o.data.clone();
            if kind != "swap" && slot == ptoken_slot && data.len() >= 64 {
                data[32..64].copy_from_slice(stranger.as_ref());
                m2[auth_slot].key = stranger;
            }
            fx.bank.set(forged, fake_owner, o.lamports, data);
            m2[slot].key = forged;
            subst = forged;
            tags.push("sub_forged");
        }
        let bank0 = fx.bank.clone();
        let (res, out) = fx.bank.execute(&m2, &data);
        let line = match res {
            Ok(()) => {
                if forge > 0 && kind != "swap" && slot == ptoken_slot {
                    viols.push(format!("C04 the {} instruction accepted a stranger's signature with a forged position token account owned by another program (variant {})", kind, forge));
                }
                if forge == 7 {
                    viols.push(format!("C05/C13 the {} instruction accepted, in slot {}, the NEIGHBOURING tick array of the same pool, which does not contain the position's bound", kind, slot));
                } else {
                    viols.push(format!("C15 the {} instruction accepted a {} account in slot {} ({} instead of {})", kind, if forge > 0 { "forged" } else { "look-alike" }, slot, subst, orig));
                }
                "ACCEPTED".to_string()
            }
            Err(e) => {
                let _ = err_name(&e, &out.logs);
                if fx.bank.accts != bank0.accts {
                    viols.push("a refused instruction changed account state".to_string());
                }
                tags.push("sub_rejected");
                "rejected".to_string()
            }
        };
        XHopOut { line, viols, tags }
    }
}

// ================================================================================================
// C04 / C18 / C06 / C16: position instructions of the ANCHOR path through the entrypoint
//   H xpos <kind upd|cf|close|reset> <ver 1|2> <id> <authMode> <a1> <a2> <feeA: bps max fut> <feeB: bps max fut>
// upd   = update_fees_and_rewards (permissionless)            cf = collect_fees (ver 1) / collect_fees_v2 (ver 2)
// close = close_position                                      reset = reset_position_range(a1, a2)
// authMode: 0 owner signs; 1 a stranger signs; 2 the owner does not sign; 3 a one-token delegate signs;
//           4 a delegate with allowance 0 signs.
// Read-only on the history: runs on a fixture built from the current state.
// ================================================================================================
use ::whirlpool::state::Position;
use anchor_lang::prelude::Pubkey;
use anchor_lang::AccountSerialize;

fn token_account_delegated(mint: &Pubkey, owner: &Pubkey, amount: u64, delegate: &Pubkey, delegated: u64) -> Vec<u8> {
    use anchor_lang::solana_program::program_option::COption;
    use anchor_lang::solana_program::program_pack::Pack;
    let base = anchor_spl::token::spl_token::state::Account {
        mint: *mint,
        owner: *owner,
        amount,
        delegate: COption::Some(*delegate),
        state: anchor_spl::token::spl_token::state::AccountState::Initialized,
        is_native: COption::None,
        delegated_amount: delegated,
        close_authority: COption::None,
    };
    let mut d = vec![0u8; 165];
    anchor_spl::token::spl_token::state::Account::pack(base, &mut d).unwrap();
    d
}

impl World {
    pub fn x_pos(&self, t: &[&str]) -> XHopOut {
        use anchor_lang::ToAccountMetas;
        let mut viols = vec![];
        let mut tags: Vec<&'static str> = vec![];
        let kind = t[2];
        let ver: u8 = t[3].parse().unwrap();
        let id: u32 = t[4].parse().unwrap();
        let mut auth_mode: u8 = t[5].parse().unwrap();
        let (a1, a2): (i64, i64) = (t[6].parse().unwrap(), t[7].parse().unwrap());
        let v2 = kind == "cf" && ver == 2;
        let (fee_a, fee_b) = if v2 { (parse_fee(t[8], t[9], t[10]), parse_fee(t[11], t[12], t[13])) } else { (None, None) };
        // modes 5 / 6 (C15 / C04): 5 = the position account belongs to ANOTHER pool (not for close, which names no pool);
        // 6 = a stranger signs and passes HIS OWN token account holding one token of another mint (not for upd)
        if kind == "upd" && auth_mode != 5 {
            auth_mode = 0;
        }
        if kind == "close" && (3..=5).contains(&auth_mode) {
            // a delegate can burn but not close the token account: not a variant of this experiment
            auth_mode = 0;
        }
        let pos0 = match self.pos(id) {
            Some(p) => p,
            None => return XHopOut { line: "err NoSuchPosition".to_string(), viols, tags },
        };
        let mut base = crate::hist_oracle::clone_world(self);
        let (ls, us) = (base.array_start_for(pos0.tick_lower_index), base.array_start_for(pos0.tick_upper_index));
        base.ensure_array(ls);
        base.ensure_array(us);
        let f = |c: Option<FeeCfg>| c.map(|c| (c.bps as u64, c.max_fee)).unwrap_or((0, 0));
        let ((ba, ma), (bb, mb)) = (f(fee_a), f(fee_b));
        // ---- fixture
        let t22a = v2 && t[8] != "65535";
        let t22b = v2 && t[11] != "65535";
        let funds = u64::MAX / 4;
        let mut fx = Fx::from_world(&base, fee_a, fee_b, t22a, t22b, funds);
        let pmint = k(0x61, id as u8);
        let position = Pubkey::find_program_address(&[b"position", pmint.as_ref()], &::whirlpool::ID).0;
        let ptoken = k(0x62, id as u8);
        let stranger = k(0x63, 9);
        let delegate = k(0x63, 10);
        let mut pdata = base.positions[&id].clone();
        pdata[8..40].copy_from_slice(if auth_mode == 5 { k(0x77, 1) } else { fx.pool }.as_ref());
        pdata[40..72].copy_from_slice(pmint.as_ref());
        let pos_units = *base.pos_rent.get(&id).unwrap_or(&2);
        // (reset: two positions in three predate the tick-rent scheme and hold the rent of no / one tick — the handler tops up)
        let pos_units = if kind == "reset" { pos_units.min((id % 3) as _) } else { pos_units };
        fx.bank.set(position, ::whirlpool::ID, min_balance(pdata.len()) + pos_units as u64 * TICK_RENT, pdata.clone());
        // position mint with supply 1 (close burns the token)
        {
            use anchor_lang::solana_program::program_option::COption;
            use anchor_lang::solana_program::program_pack::Pack;
            let m = anchor_spl::token::spl_token::state::Mint { mint_authority: COption::None, supply: 1, decimals: 0, is_initialized: true, freeze_authority: COption::None };
            let mut d = vec![0u8; 82];
            anchor_spl::token::spl_token::state::Mint::pack(m, &mut d).unwrap();
            fx.bank.set(pmint, anchor_spl::token::ID, 1_500_000, d);
        }
        let tdata = match auth_mode {
            3 => token_account_delegated(&pmint, &fx.trader, 1, &delegate, 1),
            4 => token_account_delegated(&pmint, &fx.trader, 1, &delegate, 0),
            7 => crate::fixture::token_account_data(false, &pmint, &fx.trader, 0, false), // the signer's account of the position mint is EMPTY
            _ => crate::fixture::token_account_data(false, &pmint, &fx.trader, 1, false),
        };
        fx.bank.set(ptoken, anchor_spl::token::ID, 2_100_000, tdata);
        // the stranger's own one-token account of another mint (mode 6)
        let (omint, otoken) = (k(0x64, id as u8), k(0x66, id as u8));
        let pm = fx.bank.data(&pmint);
        fx.bank.set(omint, anchor_spl::token::ID, 1_500_000, pm);
        fx.bank.set(otoken, anchor_spl::token::ID, 2_100_000, crate::fixture::token_account_data(false, &omint, &stranger, 1, false));
        let ptoken = if auth_mode == 6 { otoken } else { ptoken };
        fx.bank.set(stranger, crate::svm::system_id(), 1_000_000, vec![]);
        fx.bank.set(delegate, crate::svm::system_id(), 1_000_000, vec![]);
        fx.bank.set_program(crate::svm::system_id());
        let bank0 = fx.bank.clone();
        let signer_key = match auth_mode {
            1 | 6 => stranger,
            3 | 4 => delegate,
            _ => fx.trader,
        };
        let (ta_l, ta_u) = (crate::fixture::tick_array_pda(&fx.pool, ls), crate::fixture::tick_array_pda(&fx.pool, us));
        // ---- instruction
        let (mut metas, data): (Vec<Meta>, Vec<u8>) = match (kind, ver) {
            ("upd", _) => {
                let acc = ::whirlpool::accounts::UpdateFeesAndRewards { whirlpool: fx.pool, position, tick_array_lower: ta_l, tick_array_upper: ta_u };
                (acc.to_account_metas(None).iter().map(Meta::from).collect(), ::whirlpool::instruction::UpdateFeesAndRewards {}.data())
            }
            ("cf", 2) => {
                let acc = ::whirlpool::accounts::CollectFeesV2 {
                    whirlpool: fx.pool,
                    position_authority: signer_key,
                    position,
                    position_token_account: ptoken,
                    token_mint_a: fx.mint_a,
                    token_mint_b: fx.mint_b,
                    token_owner_account_a: fx.trader_a,
                    token_vault_a: fx.vault_a,
                    token_owner_account_b: fx.trader_b,
                    token_vault_b: fx.vault_b,
                    token_program_a: fx.prog_a,
                    token_program_b: fx.prog_b,
                    memo_program: anchor_spl::memo::ID,
                };
                (acc.to_account_metas(None).iter().map(Meta::from).collect(), ::whirlpool::instruction::CollectFeesV2 { remaining_accounts_info: None }.data())
            }
            ("cf", _) => {
                let acc = ::whirlpool::accounts::CollectFees {
                    whirlpool: fx.pool,
                    position_authority: signer_key,
                    position,
                    position_token_account: ptoken,
                    token_owner_account_a: fx.trader_a,
                    token_vault_a: fx.vault_a,
                    token_owner_account_b: fx.trader_b,
                    token_vault_b: fx.vault_b,
                    token_program: anchor_spl::token::ID,
                };
                (acc.to_account_metas(None).iter().map(Meta::from).collect(), ::whirlpool::instruction::CollectFees {}.data())
            }
            ("close", _) => {
                let acc = ::whirlpool::accounts::ClosePosition { position_authority: signer_key, receiver: fx.trader, position, position_mint: pmint, position_token_account: ptoken, token_program: anchor_spl::token::ID };
                (acc.to_account_metas(None).iter().map(Meta::from).collect(), ::whirlpool::instruction::ClosePosition {}.data())
            }
            _ => {
                let acc = ::whirlpool::accounts::ResetPositionRange { funder: fx.trader, position_authority: signer_key, whirlpool: fx.pool, position, position_token_account: ptoken, system_program: crate::svm::system_id() };
                (
                    acc.to_account_metas(None).iter().map(Meta::from).collect(),
                    ::whirlpool::instruction::ResetPositionRange { new_tick_lower_index: a1.clamp(i32::MIN as i64, i32::MAX as i64) as i32, new_tick_upper_index: a2.clamp(i32::MIN as i64, i32::MAX as i64) as i32 }.data(),
                )
            }
        };
        if auth_mode == 2 {
            for m in metas.iter_mut() {
                if m.key == signer_key {
                    m.signer = false;
                }
            }
        }
        if kind == "reset" {
            // the funder (the owner's wallet) always signs; in mode 2 only the authority slot loses its signature
            // (funder and authority are the same key in modes 0 and 2, so mode 2 cannot be expressed: use the stranger as funder)
            if auth_mode == 2 {
                for m in metas.iter_mut().take(1) {
                    m.key = stranger;
                    m.signer = true;
                }
            }
        }
        let (res, out) = fx.bank.execute(&metas, &data);
        let bal = |b: &Bank, key: &Pubkey| token_amount(&b.data(key));
        // ---- expectations
        let empty = Position::is_position_empty(&pos0);
        let authorised = matches!(auth_mode, 0 | 3);
        let line = match &res {
            Err(e) => {
                let name = err_name(e, &out.logs);
                if fx.bank.accts != bank0.accts {
                    viols.push("a failed position instruction changed account state".to_string());
                }
                if authorised {
                    match kind {
                        "close" if !empty => tags.push("pos_close_not_empty_rejected"),
                        "reset" => tags.push("pos_reset_rejected"),
                        "upd" => tags.push("pos_upd_rejected"),
                        "cf" => {
                            let short = (pos0.fee_owed_a > bal(&bank0, &fx.vault_a)) || (pos0.fee_owed_b > bal(&bank0, &fx.vault_b));
                            if short {
                                tags.push("pos_cf_vault_cap");
                            } else {
                                viols.push(format!("C04/C06 collect_fees v{} by the position's authority fails with {}", ver, name));
                            }
                        }
                        _ => viols.push(format!("C18 close_position of an empty position by its owner fails with {}", name)),
                    }
                } else {
                    tags.push("pos_unauthorized_rejected");
                }
                format!("err {}", name)
            }
            Ok(()) => {
                if auth_mode == 5 {
                    viols.push(format!("C15 position instruction `{}` succeeded on a position that belongs to another pool than the one named", kind));
                    return XHopOut { line: "ACCEPTED".to_string(), viols, tags };
                }
                if auth_mode == 6 {
                    viols.push(format!("C04 position instruction `{}` accepted a stranger who holds one token of ANOTHER mint as the position's authority", kind));
                    return XHopOut { line: "ACCEPTED".to_string(), viols, tags };
                }
                if auth_mode == 7 {
                    viols.push(format!("C04 position instruction `{}` accepted a signer whose account of the position mint holds NO token", kind));
                    return XHopOut { line: "ACCEPTED".to_string(), viols, tags };
                }
                if !authorised {
                    viols.push(format!("C04 position instruction `{}` succeeded although neither the holder of the position token nor its one-token delegate signed (mode {})", kind, auth_mode));
                }
                match kind {
                    "upd" => {
                        let mut reference = crate::hist_oracle::clone_world(&base);
                        match reference.update_fees_pub(id) {
                            Ok(_) => {
                                if fx.bank.data(&position)[72..] != reference.positions[&id][72..] {
                                    viols.push("C07/C11 the position after update_fees_and_rewards differs from the manager-level result".to_string());
                                }
                                let (w1, w2) = (fx.wp(), reference.wp());
                                if w1.reward_last_updated_timestamp != w2.reward_last_updated_timestamp || (0..3).any(|i| { w1.reward_infos[i].growth_global_x64 } != { w2.reward_infos[i].growth_global_x64 }) {
                                    viols.push("C11 the pool's reward state after update_fees_and_rewards differs from the manager-level result".to_string());
                                }
                            }
                            Err(e) => viols.push(format!("update_fees_and_rewards succeeded but the manager-level computation fails with {}", e)),
                        }
                        tags.push("pos_upd_ok");
                        "ok".to_string()
                    }
                    "cf" => {
                        let (oa, ob) = (pos0.fee_owed_a, pos0.fee_owed_b);
                        let (ua, ub) = (oa - fee_of(ba, ma, oa), ob - fee_of(bb, mb, ob));
                        let (d_ta, d_tb) = (bal(&fx.bank, &fx.trader_a) - bal(&bank0, &fx.trader_a), bal(&fx.bank, &fx.trader_b) - bal(&bank0, &fx.trader_b));
                        let (d_va, d_vb) = (bal(&bank0, &fx.vault_a) - bal(&fx.bank, &fx.vault_a), bal(&bank0, &fx.vault_b) - bal(&fx.bank, &fx.vault_b));
                        if (d_va, d_vb) != (oa, ob) {
                            viols.push(format!("C06/C01 collect_fees took ({}, {}) from the vaults but the position was owed ({}, {})", d_va, d_vb, oa, ob));
                        }
                        if (d_ta, d_tb) != (ua, ub) {
                            viols.push(format!("C16 collect_fees: the owner received ({}, {}); expected the owed amounts minus their transfer fees ({}, {})", d_ta, d_tb, ua, ub));
                        }
                        let p_after = Position::try_deserialize(&mut &fx.bank.data(&position)[..]).unwrap();
                        if p_after.fee_owed_a != 0 || p_after.fee_owed_b != 0 {
                            viols.push("C06 collect_fees left fees owed on the position".to_string());
                        }
                        let mut want = pos0.clone();
                        want.reset_fees_owed();
                        let mut wd = vec![];
                        want.try_serialize(&mut wd).unwrap();
                        if fx.bank.data(&position)[72..] != wd[72..] {
                            viols.push("C06 collect_fees changed something else than the fees owed of the position".to_string());
                        }
                        if fx.bank.data(&fx.pool) != bank0.data(&fx.pool) {
                            viols.push("C06 collect_fees changed the pool account".to_string());
                        }
                        tags.push(if ba > 0 || bb > 0 { "pos_cf_ok_with_transfer_fee" } else { "pos_cf_ok" });
                        format!("ok {} {} {} {}", ua, ub, oa, ob)
                    }
                    "close" => {
                        if !empty {
                            viols.push("C18 close_position succeeded on a position that still holds liquidity, owed fees or owed rewards".to_string());
                        }
                        let p_after = fx.bank.get(&position);
                        if !(p_after.data.is_empty() || p_after.lamports == 0 || p_after.owner != ::whirlpool::ID) {
                            viols.push("C18 close_position left the position account open".to_string());
                        }
                        let m_after = fx.bank.data(&pmint);
                        if m_after.len() >= 44 && u64::from_le_bytes(m_after[36..44].try_into().unwrap()) != 0 {
                            viols.push("C18 close_position did not burn the position token".to_string());
                        }
                        tags.push("pos_close_ok");
                        "ok".to_string()
                    }
                    _ => {
                        if !empty {
                            viols.push("C18 reset_position_range succeeded on a non-empty position".to_string());
                        }
                        let p_after = Position::try_deserialize(&mut &fx.bank.data(&position)[..]).unwrap();
                        if (p_after.tick_lower_index as i64, p_after.tick_upper_index as i64) != (a1, a2) {
                            viols.push("C18 reset_position_range did not store the new range".to_string());
                        }
                        if (a1, a2) == (pos0.tick_lower_index as i64, pos0.tick_upper_index as i64) {
                            viols.push("C18 reset_position_range accepted the unchanged range".to_string());
                        }
                        let ts = fx.wp().tick_spacing;
                        let ok_range = a1 < a2 && Tick::check_is_usable_tick(a1 as i32, ts) && Tick::check_is_usable_tick(a2 as i32, ts) && a1 >= -443636 && a2 <= 443636;
                        if !ok_range {
                            viols.push(format!("C18 reset_position_range accepted the invalid range [{}, {}) for spacing {}", a1, a2, ts));
                        }
                        if p_after.fee_growth_checkpoint_a != 0 || p_after.fee_growth_checkpoint_b != 0 || (0..3).any(|i| p_after.reward_infos[i].growth_inside_checkpoint != 0) {
                            viols.push("C18 reset_position_range did not reset the growth checkpoints".to_string());
                        }
                        let got_l = fx.bank.get(&position).lamports;
                        if got_l < min_balance(216) + 2 * TICK_RENT {
                            viols.push(format!("C13 after reset_position_range the position holds {} lamports, less than rent exemption + the rent of two ticks ({})", got_l, min_balance(216) + 2 * TICK_RENT));
                        }
                        tags.push("pos_reset_ok");
                        "ok".to_string()
                    }
                }
            }
        };
        XHopOut { line, viols, tags }
    }
}

// ================================================================================================
// C12 / C18 / C16 / C01: reposition_liquidity_v2 (Pinocchio) through the entrypoint
//   H xrepo <id> <newLower> <newUpper> <newLiquidity> <slackMode> <feeA: bps max fut> <feeB: bps max fut> <authMode>
// = withdraw ALL liquidity of the position, re-range it (owed fees and rewards kept), deposit newLiquidity
//   into the new range, and settle only the NET token movement per token.
// slackMode: 0 loose limits; 1 exactly the resulting amounts; 2 one unit too tight on the A side
//            (min of the withdrawal when the owner nets tokens out, max of the deposit otherwise).
// Read-only on the history.
// ================================================================================================
impl World {
    pub fn x_repo(&self, t: &[&str]) -> XHopOut {
        use anchor_lang::ToAccountMetas;
        let mut viols = vec![];
        let mut tags: Vec<&'static str> = vec![];
        let id: u32 = t[2].parse().unwrap();
        let (nlo, nhi): (i64, i64) = (t[3].parse().unwrap(), t[4].parse().unwrap());
        let new_liq: u128 = t[5].parse().unwrap();
        let slack: u8 = t[6].parse().unwrap();
        let (fee_a, fee_b) = (parse_fee(t[7], t[8], t[9]), parse_fee(t[10], t[11], t[12]));
        let auth_mode: u8 = t[13].parse().unwrap();
        let pos0 = match self.pos(id) {
            Some(p) => p,
            None => return XHopOut { line: "err NoSuchPosition".to_string(), viols, tags },
        };
        let ts = self.wp().tick_spacing;
        let in_i32 = |x: i64| x.clamp(i32::MIN as i64, i32::MAX as i64) as i32;
        let (nlo32, nhi32) = (in_i32(nlo), in_i32(nhi));
        let range_ok = nlo < nhi && Tick::check_is_usable_tick(nlo32, ts) && Tick::check_is_usable_tick(nhi32, ts);
        // arrays of the old and (if addressable) the new range
        let mut base = crate::hist_oracle::clone_world(self);
        let (ls, us) = (base.array_start_for(pos0.tick_lower_index), base.array_start_for(pos0.tick_upper_index));
        base.ensure_array(ls);
        base.ensure_array(us);
        let (nls, nus) = if range_ok { (base.array_start_for(nlo32), base.array_start_for(nhi32)) } else { (ls, us) };
        base.ensure_array(nls);
        base.ensure_array(nus);
        let f = |c: Option<FeeCfg>| c.map(|c| (c.bps as u64, c.max_fee)).unwrap_or((0, 0));
        let ((ba, ma), (bb, mb)) = (f(fee_a), f(fee_b));
        // ---- reference: the Pinocchio managers on a copy
        let mut reference = crate::hist_oracle::clone_world(&base);
        reference.vault_a = u128::MAX / 4;
        reference.vault_b = u128::MAX / 4;
        // (decA, decB, incA, incB) or the error the instruction must report
        let ref_res: Result<(u64, u64, u64, u64), String> = std::panic::catch_unwind(std::panic::AssertUnwindSafe(|| {
            if new_liq == 0 {
                return Err("LiquidityZero".to_string());
            }
            let (da, db) = if pos0.liquidity == 0 {
                (0, 0)
            } else {
                let s = reference.modify_pub(id, pos0.liquidity, false, true)?;
                let mut it = s.split(' ');
                (it.next().unwrap().parse::<u64>().unwrap(), it.next().unwrap().parse::<u64>().unwrap())
            };
            Ok((da, db, 0, 0))
        }))
        .unwrap_or_else(|_| Err("Panic".to_string()));
        // limits are fixed below from the expected amounts; compute the rest of the reference first with loose limits
        let after_dec = ref_res.clone();
        let ref_full: Result<(u64, u64, u64, u64), String> = after_dec.and_then(|(da, db, _, _)| {
            // re-range (owed amounts are kept)
            let p = reference.pos(id).unwrap();
            if (nlo, nhi) == (p.tick_lower_index as i64, p.tick_upper_index as i64) {
                return Err("SameTickRangeNotAllowed".to_string());
            }
            if !range_ok {
                return Err("InvalidTickIndex".to_string());
            }
            if ts >= 32768 && !(nlo32 == (-443636 / ts as i32) * ts as i32 && nhi32 == (443636 / ts as i32) * ts as i32) {
                return Err("FullRangeOnlyPool".to_string());
            }
            let mut q = p;
            q.tick_lower_index = nlo32;
            q.tick_upper_index = nhi32;
            q.fee_growth_checkpoint_a = 0;
            q.fee_growth_checkpoint_b = 0;
            for i in 0..3 {
                q.reward_infos[i].growth_inside_checkpoint = 0;
            }
            let mut d = vec![];
            q.try_serialize(&mut d).unwrap();
            reference.positions.insert(id, d);
            let s = std::panic::catch_unwind(std::panic::AssertUnwindSafe(|| reference.modify_pub(id, new_liq, true, true))).unwrap_or_else(|_| Err("Panic".to_string()))?;
            let mut it = s.split(' ');
            Ok((da, db, it.next().unwrap().parse::<u64>().unwrap(), it.next().unwrap().parse::<u64>().unwrap()))
        });
        // per token: (amount moved between owner and vault on the owner's side, fee, from owner?, vault delta)
        let net = |bps: u64, max: u64, dec: u64, inc: u64| -> Option<(u64, u64, bool)> {
            if dec > inc {
                let d = dec - inc;
                Some((d, fee_of(bps, max, d), false))
            } else {
                let d = inc - dec;
                let incl = included_of(bps, max, d)?;
                Some((incl, incl - d, true))
            }
        };
        let expect = ref_full.as_ref().ok().and_then(|(da, db, ia, ib)| Some((net(ba, ma, *da, *ia)?, net(bb, mb, *db, *ib)?)));
        // ---- limits
        let (mut min_a, mut min_b, mut max_a, mut max_b) = (0u64, 0u64, u64::MAX, u64::MAX);
        if let (Ok((da, db, ia, ib)), Some(((_, fa, from_a), (_, fb, from_b)))) = (&ref_full, &expect) {
            let (xa, xb) = (da - fee_of(ba, ma, *da), db - fee_of(bb, mb, *db));
            let (ya, yb) = (ia.saturating_add(if *from_a { *fa } else { 0 }), ib.saturating_add(if *from_b { *fb } else { 0 }));
            if slack >= 1 {
                min_a = xa;
                min_b = xb;
                max_a = ya;
                max_b = yb;
            }
            match slack {
                2 => {
                    if *from_a {
                        max_a = ya.saturating_sub(1);
                    } else {
                        min_a = xa.saturating_add(1);
                    }
                }
                // the maxima bind in BOTH net directions (deposit + fee of the new range), the minima on the withdrawal
                3 => max_a = ya.saturating_sub(1),
                4 => max_b = yb.saturating_sub(1),
                5 => min_b = xb.saturating_add(1),
                _ => {}
            }
        }
        let tight = match (&ref_full, &expect) {
            (Ok((da, db, ia, ib)), Some(((_, fa, from_a), (_, fb, from_b)))) => {
                let (xa, xb) = (da - fee_of(ba, ma, *da), db - fee_of(bb, mb, *db));
                let (ya, yb) = (ia.saturating_add(if *from_a { *fa } else { 0 }), ib.saturating_add(if *from_b { *fb } else { 0 }));
                xa < min_a || xb < min_b || ya > max_a || yb > max_b
            }
            _ => false,
        };
        // ---- fixture
        let t22a = t[7] != "65535";
        let t22b = t[10] != "65535";
        let funds = u64::MAX / 4;
        let mut fx = Fx::from_world(&base, fee_a, fee_b, t22a, t22b, funds);
        let pmint = k(0x61, id as u8);
        let position = Pubkey::find_program_address(&[b"position", pmint.as_ref()], &::whirlpool::ID).0;
        let ptoken = k(0x62, id as u8);
        let stranger = k(0x63, 9);
        let mut pdata = base.positions[&id].clone();
        // authMode 3: a stranger with one token of another mint (C04_8b); authMode 4: the position belongs to another pool (C15)
        pdata[8..40].copy_from_slice(if auth_mode == 4 { k(0x77, 1) } else { fx.pool }.as_ref());
        pdata[40..72].copy_from_slice(pmint.as_ref());
        let pos_units = *base.pos_rent.get(&id).unwrap_or(&2);
        // (two positions in three predate the tick-rent scheme and hold the rent of no / one tick: the handler tops up
        // before the new range's ticks are paid for, or the position would dip under its own rent exemption)
        let pos_units = pos_units.min((id % 3) as _);
        fx.bank.set(position, ::whirlpool::ID, min_balance(pdata.len()) + pos_units as u64 * TICK_RENT, pdata);
        fx.bank.set(pmint, anchor_spl::token::ID, 1_000_000, crate::fixture::mint_data(false, 0, None, 0));
        fx.bank.set(ptoken, anchor_spl::token::ID, 2_000_000, crate::fixture::token_account_data(false, &pmint, &fx.trader, if auth_mode == 5 { 0 } else { 1 }, false)); // mode 5: the signer's account of the position mint is EMPTY
        fx.bank.set(stranger, crate::svm::system_id(), 1_000_000_000, vec![]);
        let (omint, otoken) = (k(0x64, id as u8), k(0x66, id as u8));
        fx.bank.set(omint, anchor_spl::token::ID, 1_000_000, crate::fixture::mint_data(false, 0, None, 0));
        fx.bank.set(otoken, anchor_spl::token::ID, 2_000_000, crate::fixture::token_account_data(false, &omint, &stranger, 1, false));
        let ptoken = if auth_mode == 3 { otoken } else { ptoken };
        fx.bank.set_program(crate::svm::system_id());
        let mut starts = vec![ls, us, nls, nus];
        starts.sort();
        starts.dedup();
        for st in &starts {
            let key = crate::fixture::tick_array_pda(&fx.pool, *st);
            let mut a = fx.bank.get(&key);
            let dynamic = base.arrays[st].dynamic;
            a.lamports = if dynamic { min_balance(148) + *base.array_rent.get(st).unwrap_or(&0) as u64 * TICK_RENT } else { min_balance(a.data.len()) };
            fx.bank.accts.insert(key, a);
        }
        // mode 6: a stranger signs and pays from / receives into token accounts HE owns (so the token program has no
        // reason to refuse the transfer: only the position-authority check stands between him and the position)
        if auth_mode == 6 {
            for key in [fx.trader_a, fx.trader_b] {
                let mut a = fx.bank.get(&key);
                a.data[32..64].copy_from_slice(stranger.as_ref());
                fx.bank.accts.insert(key, a);
            }
        }
        let bank0 = fx.bank.clone();
        let signer_key = if auth_mode == 1 || auth_mode == 3 || auth_mode == 6 { stranger } else { fx.trader };
        let acc = ::whirlpool::accounts::RepositionLiquidityV2 {
            whirlpool: fx.pool,
            token_program_a: fx.prog_a,
            token_program_b: fx.prog_b,
            memo_program: anchor_spl::memo::ID,
            position_authority: signer_key,
            funder: fx.trader,
            position,
            position_token_account: ptoken,
            token_mint_a: fx.mint_a,
            token_mint_b: fx.mint_b,
            token_owner_account_a: fx.trader_a,
            token_owner_account_b: fx.trader_b,
            token_vault_a: fx.vault_a,
            token_vault_b: fx.vault_b,
            existing_tick_array_lower: crate::fixture::tick_array_pda(&fx.pool, ls),
            existing_tick_array_upper: crate::fixture::tick_array_pda(&fx.pool, us),
            new_tick_array_lower: crate::fixture::tick_array_pda(&fx.pool, nls),
            new_tick_array_upper: crate::fixture::tick_array_pda(&fx.pool, nus),
            system_program: crate::svm::system_id(),
        };
        let mut metas: Vec<Meta> = acc.to_account_metas(None).iter().map(Meta::from).collect();
        let data = ::whirlpool::instruction::RepositionLiquidityV2 {
            new_tick_lower_index: nlo32,
            new_tick_upper_index: nhi32,
            method: ::whirlpool::instructions::RepositionLiquidityMethod::ByLiquidity {
                new_liquidity_amount: new_liq,
                existing_range_token_min_a: min_a,
                existing_range_token_min_b: min_b,
                new_range_token_max_a: max_a,
                new_range_token_max_b: max_b,
            },
            remaining_accounts_info: None,
        }
        .data();
        if auth_mode == 2 {
            // the authority slot (index 4) loses its signature; signatures are per key, so the funder (index 5)
            // must be another key: the stranger pays the rent top-up if one is needed
            metas[4].signer = false;
            metas[5].key = stranger;
            metas[5].signer = true;
        }
        let (res, out) = fx.bank.execute(&metas, &data);
        let bal = |b: &Bank, key: &Pubkey| token_amount(&b.data(key));
        let line = match &res {
            Err(e) => {
                let name = err_name(e, &out.logs);
                if fx.bank.accts != bank0.accts {
                    viols.push("a failed reposition instruction changed account state".to_string());
                }
                if auth_mode != 0 {
                    tags.push("repo_unauthorized_rejected");
                } else {
                    match (&ref_full, &expect) {
                        (Err(want), _) => {
                            if &name != want && !(want == "Panic") {
                                // error names of the manager level and of the instruction agree for the checks modelled here
                                viols.push(format!("C12/C18 reposition fails with {} but the step-by-step computation fails with {}", name, want));
                            }
                            tags.push("repo_both_fail");
                        }
                        (Ok(_), Some(_)) if tight => {
                            if name != "TokenMinSubceeded" && name != "TokenMaxExceeded" {
                                viols.push(format!("C16/C08 reposition with a limit one unit too tight must fail on that limit, the handler gives {}", name));
                            }
                            tags.push("repo_limit_rejected");
                        }
                        (Ok((da, db, ia, ib)), Some(((ta, _, from_a), (tb, _, from_b)))) => {
                            let short = (*from_a && *ta > funds) || (*from_b && *tb > funds) || (!*from_a && (da - ia) > bal(&bank0, &fx.vault_a)) || (!*from_b && (db - ib) > bal(&bank0, &fx.vault_b));
                            if short && name == "Code(1)" {
                                tags.push("repo_token_insufficient_funds");
                            } else {
                                viols.push(format!("C12 reposition fails with {} but the step-by-step computation succeeds ({:?})", name, ref_full));
                            }
                        }
                        (Ok(_), None) => tags.push("repo_fee_calculation_fails"),
                    }
                }
                format!("err {}", name)
            }
            Ok(()) => {
                if auth_mode != 0 {
                    viols.push(format!("C04/C15 reposition succeeded although {} (mode {})", match auth_mode { 3 => "a stranger holding one token of ANOTHER mint signed as the position's authority", 4 => "the position belongs to another pool than the one named", 5 => "the signer's account of the position mint holds no token", 6 => "a stranger signed, paying from token accounts of his own", _ => "the position owner did not sign" }, auth_mode));
                }
                match (&ref_full, &expect) {
                    (Ok((da, db, ia, ib)), Some(((ta, fa, from_a), (tb, fb, from_b)))) => {
                        if tight {
                            viols.push("C16/C08 a reposition limit is one unit too tight but the instruction succeeded".to_string());
                        }
                        // vaults: net of withdrawal and deposit
                        let v = |b0: u64, b1: u64| b1 as i128 - b0 as i128;
                        let (dva, dvb) = (v(bal(&bank0, &fx.vault_a), bal(&fx.bank, &fx.vault_a)), v(bal(&bank0, &fx.vault_b), bal(&fx.bank, &fx.vault_b)));
                        if dva != *ia as i128 - *da as i128 || dvb != *ib as i128 - *db as i128 {
                            viols.push(format!("C01/C16 reposition moved the vaults by ({}, {}) but deposit minus withdrawal is ({}, {})", dva, dvb, *ia as i128 - *da as i128, *ib as i128 - *db as i128));
                        }
                        // owner: pays the fee-included net deposit, or receives the net withdrawal minus its fee
                        let (dta, dtb) = (v(bal(&bank0, &fx.trader_a), bal(&fx.bank, &fx.trader_a)), v(bal(&bank0, &fx.trader_b), bal(&fx.bank, &fx.trader_b)));
                        let want_a = if *from_a { -(*ta as i128) } else { *ta as i128 - *fa as i128 };
                        let want_b = if *from_b { -(*tb as i128) } else { *tb as i128 - *fb as i128 };
                        if dta != want_a || dtb != want_b {
                            viols.push(format!("C16 reposition: the owner's balances moved by ({}, {}); expected ({}, {})", dta, dtb, want_a, want_b));
                        }
                        // accounts = the step-by-step reference
                        let p_got = fx.bank.data(&position);
                        let p_ref = &reference.positions[&id];
                        if p_got[72..] != p_ref[72..] {
                            viols.push("C12/C18 the position after reposition differs from withdraw-all + re-range + deposit".to_string());
                        }
                        let (w_ref, w_got) = (reference.wp(), fx.wp());
                        if { w_ref.liquidity } != { w_got.liquidity } || (0..3).any(|i| { w_ref.reward_infos[i].growth_global_x64 } != { w_got.reward_infos[i].growth_global_x64 }) || w_ref.reward_last_updated_timestamp != w_got.reward_last_updated_timestamp {
                            viols.push("C12 the pool after reposition differs from withdraw-all + re-range + deposit".to_string());
                        }
                        for st in &starts {
                            let key = crate::fixture::tick_array_pda(&fx.pool, *st);
                            let got = fx.bank.get(&key);
                            let racc = &reference.arrays[st];
                            let rdata = racc.data.borrow();
                            if racc.dynamic {
                                let n = u128::from_le_bytes(rdata[44..60].try_into().unwrap()).count_ones() as usize;
                                let used = 148 + 112 * n;
                                if got.data.len() != used {
                                    viols.push(format!("C13 dynamic tick array at {}: account length {} after reposition, 148 + 112 x {} = {}", st, got.data.len(), n, used));
                                } else if got.data[44..used] != rdata[44..used] {
                                    viols.push(format!("C12/C13 dynamic tick array at {} differs from the step-by-step result", st));
                                }
                                if got.lamports < min_balance(got.data.len()) {
                                    viols.push(format!("C13 dynamic tick array at {} is not rent exempt after reposition", st));
                                }
                            } else {
                                let n = rdata.len();
                                if got.data.len() != n || got.data[..n - 32] != rdata[..n - 32] {
                                    viols.push(format!("C12 fixed tick array at {} differs from the step-by-step result", st));
                                }
                            }
                        }
                        if fx.bank.get(&position).lamports < min_balance(216) {
                            viols.push("C13 the position account is not rent exempt after reposition".to_string());
                        }
                        tags.push(if ba > 0 || bb > 0 { "repo_ok_with_transfer_fee" } else { "repo_ok" });
                        format!("ok {} {} {} {} {} {} {} {} {} {}", ta, fa, if *from_a { 1 } else { 0 }, tb, fb, if *from_b { 1 } else { 0 }, da, db, ia, ib)
                    }
                    _ => {
                        viols.push(format!("C12 reposition succeeds but the step-by-step computation fails ({:?})", ref_full.as_ref().err()));
                        "ok".to_string()
                    }
                }
            }
        };
        XHopOut { line, viols, tags }
    }
}

// ================================================================================================
// C11 / C06 / C04 / C15: reward and protocol-fee instructions through the entrypoint
//   H xrew <kind emis|crew|cproto> <ver 1|2> <idx> <id> <authMode> <value> <feeA: bps max fut> <feeB: bps max fut>
// emis   = set_reward_emissions(idx, value)      (signed by the pool's reward authority)
// crew   = collect_reward / collect_reward_v2(idx) for position id (fee A = the reward mint's transfer fee)
// cproto = collect_protocol_fees / _v2           (signed by the config's collect-protocol-fees authority)
// authMode: 0 the right key signs; 1 a stranger signs; 2 the right key does not sign.
// Read-only on the history.  Only initialized rewards are addressed (the vault of an uninitialized reward
// is the all-zero key, which no token account can have).
// ================================================================================================
impl World {
    pub fn x_rew(&self, t: &[&str]) -> XHopOut {
        use anchor_lang::ToAccountMetas;
        let mut viols = vec![];
        let mut tags: Vec<&'static str> = vec![];
        let kind = t[2];
        let ver: u8 = t[3].parse().unwrap();
        let idx: usize = t[4].parse().unwrap();
        let id: u32 = t[5].parse().unwrap();
        let auth_mode: u8 = t[6].parse().unwrap();
        let value: u128 = t[7].parse().unwrap();
        let v2 = ver == 2;
        let (fee_a, fee_b) = if v2 { (parse_fee(t[8], t[9], t[10]), parse_fee(t[11], t[12], t[13])) } else { (None, None) };
        let f = |c: Option<FeeCfg>| c.map(|c| (c.bps as u64, c.max_fee)).unwrap_or((0, 0));
        let ((ba, ma), (bb, mb)) = (f(fee_a), f(fee_b));
        let wp0 = self.wp();
        if idx >= 3 || (kind != "cproto" && !wp0.reward_infos[idx].initialized()) {
            return XHopOut { line: "err RewardNotInitialized".to_string(), viols, tags };
        }
        let base = crate::hist_oracle::clone_world(self);
        let funds = u64::MAX / 4;
        // pool-side fixture; for cproto the pool mints carry the fees, for crew the reward mint does
        let (pfa, pfb, t22a, t22b) = if kind == "cproto" { (fee_a, fee_b, v2 && t[8] != "65535", v2 && t[11] != "65535") } else { (None, None, false, false) };
        let mut fx = Fx::from_world(&base, pfa, pfb, t22a, t22b, funds);
        let reward_auth = k(0x71, 1);
        let cpf_auth = k(0x71, 2);
        let stranger = k(0x63, 9);
        let cap = u64::MAX / 4;
        // rewards: mint, vault, the owner's account; reward authority in reward_infos[0].extension
        let mut wp = fx.wp();
        wp.reward_infos[0].extension = reward_auth.to_bytes();
        let rmint = |i: usize| k(0x33, i as u8);
        let rvault = |i: usize| k(0x43, i as u8);
        let mut vault_amt = [0u64; 3];
        for i in 0..3 {
            if wp0.reward_infos[i].initialized() {
                let fee_i = if kind == "crew" && i == idx { fee_a } else { None };
                let m22 = fee_i.is_some() || (kind == "crew" && i == idx && v2 && t[8] != "65535");
                let mc = crate::fixture::MintCfg { key: rmint(i), token2022: m22, fee: fee_i, decimals: 6 };
                wp.reward_infos[i].mint = rmint(i);
                wp.reward_infos[i].vault = rvault(i);
                vault_amt[i] = self.reward_vaults[i].min(cap as u128) as u64;
                fx.bank.set(mc.key, mc.program(), 1_000_000, crate::fixture::mint_data(mc.is22(), 6, fee_i, fx.bank.epoch));
                fx.bank.set(rvault(i), mc.program(), 2_000_000, crate::fixture::token_account_data(mc.is22(), &mc.key, &fx.pool, vault_amt[i], fee_i.is_some()));
                fx.bank.set(trader_account(&mc.key), mc.program(), 2_000_000, crate::fixture::token_account_data(mc.is22(), &mc.key, &fx.trader, 0, fee_i.is_some()));
            }
        }
        {
            let mut d = vec![];
            wp.try_serialize(&mut d).unwrap();
            let a = fx.bank.get(&fx.pool);
            fx.bank.set(fx.pool, a.owner, a.lamports, d);
        }
        // config with the collect-protocol-fees authority
        {
            let cfg = ::whirlpool::state::WhirlpoolsConfig { fee_authority: k(0x71, 3), collect_protocol_fees_authority: cpf_auth, reward_emissions_super_authority: k(0x71, 4), default_protocol_fee_rate: 300, feature_flags: 0 };
            let mut d = vec![];
            cfg.try_serialize(&mut d).unwrap();
            d.resize(::whirlpool::state::WhirlpoolsConfig::LEN, 0);
            fx.bank.set(wp.whirlpools_config, ::whirlpool::ID, 5_000_000, d);
        }
        for kk in [reward_auth, cpf_auth, stranger] {
            fx.bank.set(kk, crate::svm::system_id(), 1_000_000, vec![]);
        }
        // position accounts (crew)
        let pmint = k(0x61, id as u8);
        let position = Pubkey::find_program_address(&[b"position", pmint.as_ref()], &::whirlpool::ID).0;
        let ptoken = k(0x62, id as u8);
        let pos0 = self.pos(id);
        if kind == "crew" {
            let p = match &pos0 {
                Some(p) => p,
                None => return XHopOut { line: "err NoSuchPosition".to_string(), viols, tags },
            };
            let _ = p;
            let mut pdata = base.positions[&id].clone();
            pdata[8..40].copy_from_slice(fx.pool.as_ref());
            pdata[40..72].copy_from_slice(pmint.as_ref());
            fx.bank.set(position, ::whirlpool::ID, min_balance(pdata.len()) + 2 * TICK_RENT, pdata);
            fx.bank.set(pmint, anchor_spl::token::ID, 1_000_000, crate::fixture::mint_data(false, 0, None, 0));
            fx.bank.set(ptoken, anchor_spl::token::ID, 2_000_000, crate::fixture::token_account_data(false, &pmint, &fx.trader, if auth_mode == 5 { 0 } else { 1 }, false)); // mode 5: the signer's account of the position mint is EMPTY
        }
        let bank0 = fx.bank.clone();
        let bal = |b: &Bank, key: &Pubkey| token_amount(&b.data(key));
        // ---- instruction
        let right_key = match kind {
            "emis" => reward_auth,
            "cproto" => cpf_auth,
            _ => fx.trader,
        };
        let signer_key = if auth_mode == 1 { stranger } else { right_key };
        let (mut metas, data): (Vec<Meta>, Vec<u8>) = match (kind, v2) {
            ("emis", true) => {
                let acc = ::whirlpool::accounts::SetRewardEmissionsV2 { whirlpool: fx.pool, reward_authority: signer_key, reward_vault: rvault(idx) };
                (acc.to_account_metas(None).iter().map(Meta::from).collect(), ::whirlpool::instruction::SetRewardEmissionsV2 { reward_index: idx as u8, emissions_per_second_x64: value }.data())
            }
            ("emis", false) => {
                let acc = ::whirlpool::accounts::SetRewardEmissions { whirlpool: fx.pool, reward_authority: signer_key, reward_vault: rvault(idx) };
                (acc.to_account_metas(None).iter().map(Meta::from).collect(), ::whirlpool::instruction::SetRewardEmissions { reward_index: idx as u8, emissions_per_second_x64: value }.data())
            }
            ("crew", true) => {
                let acc = ::whirlpool::accounts::CollectRewardV2 {
                    whirlpool: fx.pool,
                    position_authority: signer_key,
                    position,
                    position_token_account: ptoken,
                    reward_owner_account: trader_account(&rmint(idx)),
                    reward_mint: rmint(idx),
                    reward_vault: rvault(idx),
                    reward_token_program: fx.bank.get(&rmint(idx)).owner,
                    memo_program: anchor_spl::memo::ID,
                };
                (acc.to_account_metas(None).iter().map(Meta::from).collect(), ::whirlpool::instruction::CollectRewardV2 { reward_index: idx as u8, remaining_accounts_info: None }.data())
            }
            ("crew", false) => {
                let acc = ::whirlpool::accounts::CollectReward {
                    whirlpool: fx.pool,
                    position_authority: signer_key,
                    position,
                    position_token_account: ptoken,
                    reward_owner_account: trader_account(&rmint(idx)),
                    reward_vault: rvault(idx),
                    token_program: anchor_spl::token::ID,
                };
                (acc.to_account_metas(None).iter().map(Meta::from).collect(), ::whirlpool::instruction::CollectReward { reward_index: idx as u8 }.data())
            }
            (_, true) => {
                let acc = ::whirlpool::accounts::CollectProtocolFeesV2 {
                    whirlpools_config: wp.whirlpools_config,
                    whirlpool: fx.pool,
                    collect_protocol_fees_authority: signer_key,
                    token_mint_a: fx.mint_a,
                    token_mint_b: fx.mint_b,
                    token_vault_a: fx.vault_a,
                    token_vault_b: fx.vault_b,
                    token_destination_a: fx.trader_a,
                    token_destination_b: fx.trader_b,
                    token_program_a: fx.prog_a,
                    token_program_b: fx.prog_b,
                    memo_program: anchor_spl::memo::ID,
                };
                (acc.to_account_metas(None).iter().map(Meta::from).collect(), ::whirlpool::instruction::CollectProtocolFeesV2 { remaining_accounts_info: None }.data())
            }
            (_, false) => {
                let acc = ::whirlpool::accounts::CollectProtocolFees {
                    whirlpools_config: wp.whirlpools_config,
                    whirlpool: fx.pool,
                    collect_protocol_fees_authority: signer_key,
                    token_vault_a: fx.vault_a,
                    token_vault_b: fx.vault_b,
                    token_destination_a: fx.trader_a,
                    token_destination_b: fx.trader_b,
                    token_program: anchor_spl::token::ID,
                };
                (acc.to_account_metas(None).iter().map(Meta::from).collect(), ::whirlpool::instruction::CollectProtocolFees {}.data())
            }
        };
        if auth_mode == 2 {
            for m in metas.iter_mut() {
                if m.key == signer_key {
                    m.signer = false;
                }
            }
        }
        // modes 3 / 4 (C15): the vault slot (4: the second vault of collect_protocol_fees) holds a byte-identical copy
        // of the pool's vault at another address - right mint, right token program, authority = the pool
        let mut bank0 = bank0;
        if auth_mode == 5 && kind != "crew" {
            return XHopOut { line: "err NotAVariant".to_string(), viols, tags };
        }
        if auth_mode == 3 || auth_mode == 4 {
            let target = match kind {
                "cproto" => if auth_mode == 4 { fx.vault_b } else { fx.vault_a },
                _ => rvault(idx),
            };
            let o = fx.bank.get(&target);
            let cloned = k(0x74, auth_mode);
            fx.bank.set(cloned, o.owner, o.lamports, o.data.clone());
            bank0 = fx.bank.clone();
            for m in metas.iter_mut() {
                if m.key == target {
                    m.key = cloned;
                }
            }
        }
        let (res, out) = fx.bank.execute(&metas, &data);
        let line = match &res {
            Err(e) => {
                let name = err_name(e, &out.logs);
                if fx.bank.accts != bank0.accts {
                    viols.push("a failed reward / protocol-fee instruction changed account state".to_string());
                }
                if auth_mode == 5 {
                    tags.push("rew_empty_token_account_rejected");
                    return XHopOut { line: format!("err {}", name), viols, tags };
                }
                if auth_mode >= 3 {
                    tags.push("rew_cloned_vault_rejected");
                    return XHopOut { line: format!("err {}", name), viols, tags };
                }
                if auth_mode != 0 {
                    tags.push("rew_unauthorized_rejected");
                } else {
                    match kind {
                        "emis" => {
                            // must be one of the documented refusals
                            let per_day = ::whirlpool::math::checked_mul_shift_right(86400, value);
                            let short = per_day.map(|d| (vault_amt[idx] as u128) < d as u128).unwrap_or(true);
                            if !short && self.now >= wp0.reward_last_updated_timestamp {
                                viols.push(format!("C11 set_reward_emissions fails with {} although the vault holds a day of emissions and the timestamp is in order", name));
                            }
                            tags.push("rew_emis_rejected");
                        }
                        "crew" => viols.push(format!("C11/C04 collect_reward v{} by the position's owner fails with {}", ver, name)),
                        _ => {
                            let short = wp0.protocol_fee_owed_a > bal(&bank0, &fx.vault_a) || wp0.protocol_fee_owed_b > bal(&bank0, &fx.vault_b);
                            if short {
                                tags.push("rew_cproto_vault_cap");
                            } else {
                                viols.push(format!("C06/C04 collect_protocol_fees v{} by its authority fails with {}", ver, name));
                            }
                        }
                    }
                }
                format!("err {}", name)
            }
            Ok(()) => {
                if auth_mode == 5 {
                    viols.push(format!("C04 collect_reward v{} accepted a signer whose account of the position mint holds NO token", ver));
                    return XHopOut { line: "ACCEPTED".to_string(), viols, tags };
                }
                if auth_mode >= 3 {
                    viols.push(format!("C15 `{}` v{} accepted, in its vault slot, a token account of the right mint and authority that is not the pool's vault", kind, ver));
                    return XHopOut { line: "ACCEPTED".to_string(), viols, tags };
                }
                if auth_mode != 0 {
                    viols.push(format!("C04 `{}` succeeded although its authority did not sign (mode {})", kind, auth_mode));
                }
                match kind {
                    "emis" => {
                        let mut reference = crate::hist_oracle::clone_world(&base);
                        reference.reward_vaults[idx] = vault_amt[idx] as u128;
                        match reference.set_reward_pub(idx, value, 0) {
                            Ok(_) => {
                                let (w1, w2) = (fx.wp(), reference.wp());
                                let same = w1.reward_last_updated_timestamp == w2.reward_last_updated_timestamp
                                    && (0..3).all(|i| { w1.reward_infos[i].growth_global_x64 } == { w2.reward_infos[i].growth_global_x64 } && { w1.reward_infos[i].emissions_per_second_x64 } == { w2.reward_infos[i].emissions_per_second_x64 });
                                if !same {
                                    viols.push("C11 the pool after set_reward_emissions differs from settle-then-set at manager level".to_string());
                                }
                            }
                            Err(e) => viols.push(format!("C11 set_reward_emissions succeeded but the manager-level rule refuses it ({})", e)),
                        }
                        tags.push("rew_emis_ok");
                        "ok".to_string()
                    }
                    "crew" => {
                        let p = pos0.unwrap();
                        let owed = p.reward_infos[idx].amount_owed;
                        let transfer = owed.min(vault_amt[idx]);
                        let user = transfer - fee_of(ba, ma, transfer);
                        let d_v = bal(&bank0, &rvault(idx)) - bal(&fx.bank, &rvault(idx));
                        let d_t = bal(&fx.bank, &trader_account(&rmint(idx))) - bal(&bank0, &trader_account(&rmint(idx)));
                        if d_v != transfer {
                            viols.push(format!("C11 collect_reward took {} from the reward vault; min(owed {}, vault {}) = {}", d_v, owed, vault_amt[idx], transfer));
                        }
                        if d_t != user {
                            viols.push(format!("C16 collect_reward: the owner received {}; expected {}", d_t, user));
                        }
                        let p_after = Position::try_deserialize(&mut &fx.bank.data(&position)[..]).unwrap();
                        if p_after.reward_infos[idx].amount_owed != owed - transfer {
                            viols.push(format!("C11 collect_reward leaves {} owed; expected owed - paid = {}", p_after.reward_infos[idx].amount_owed, owed - transfer));
                        }
                        let mut want = p.clone();
                        want.update_reward_owed(idx, owed - transfer);
                        let mut wd = vec![];
                        want.try_serialize(&mut wd).unwrap();
                        if fx.bank.data(&position)[72..] != wd[72..] {
                            viols.push("C11 collect_reward changed something else than the owed amount of that reward".to_string());
                        }
                        tags.push(if transfer < owed { "rew_crew_partial" } else if ba > 0 { "rew_crew_ok_with_transfer_fee" } else { "rew_crew_ok" });
                        format!("ok {} {} {}", transfer, user, owed - transfer)
                    }
                    _ => {
                        let (oa, ob) = (wp0.protocol_fee_owed_a, wp0.protocol_fee_owed_b);
                        let (ua, ub) = (oa - fee_of(ba, ma, oa), ob - fee_of(bb, mb, ob));
                        let (d_va, d_vb) = (bal(&bank0, &fx.vault_a) - bal(&fx.bank, &fx.vault_a), bal(&bank0, &fx.vault_b) - bal(&fx.bank, &fx.vault_b));
                        let (d_ta, d_tb) = (bal(&fx.bank, &fx.trader_a) - bal(&bank0, &fx.trader_a), bal(&fx.bank, &fx.trader_b) - bal(&bank0, &fx.trader_b));
                        if (d_va, d_vb) != (oa, ob) {
                            viols.push(format!("C06 collect_protocol_fees took ({}, {}) from the vaults but ({}, {}) were owed", d_va, d_vb, oa, ob));
                        }
                        if (d_ta, d_tb) != (ua, ub) {
                            viols.push(format!("C16/C06 collect_protocol_fees: the destination received ({}, {}); expected ({}, {})", d_ta, d_tb, ua, ub));
                        }
                        let w1 = fx.wp();
                        if w1.protocol_fee_owed_a != 0 || w1.protocol_fee_owed_b != 0 {
                            viols.push("C06 collect_protocol_fees did not reset the protocol fees owed".to_string());
                        }
                        tags.push("rew_cproto_ok");
                        format!("ok {} {} {} {}", ua, ub, oa, ob)
                    }
                }
            }
        };
        XHopOut { line, viols, tags }
    }
}

// ================================================================================================
// C18 / C04: close_position_with_token_extensions on an UNLOCKED Token-2022 position
//   H xclose22 <id> <authMode 0 owner | 1 stranger | 2 owner not signing>
// The position is first opened by the real open_position_with_token_extensions (so that its mint carries what that
// instruction gives it: close authority, freeze authority, ...), then given the state of history position <id>
// (liquidity, owed fees, owed rewards), then closed.  Expected: success exactly for an EMPTY position closed by its
// owner; afterwards position, token account and mint are gone and the rent went to the receiver.
// ================================================================================================
impl World {
    pub fn x_close22(&self, t: &[&str]) -> XHopOut {
        use anchor_lang::ToAccountMetas;
        let mut viols = vec![];
        let mut tags: Vec<&'static str> = vec![];
        let id: u32 = t[2].parse().unwrap();
        let auth_mode: u8 = t[3].parse().unwrap();
        let pos0 = match self.pos(id) {
            Some(p) => p,
            None => return XHopOut { line: "err NoSuchPosition".to_string(), viols, tags },
        };
        let base = crate::hist_oracle::clone_world(self);
        let mut fx = Fx::from_world(&base, None, None, false, false, 1_000);
        let t22 = anchor_spl::token_2022::ID;
        let pmint = k(0x6A, id as u8);
        let (position, _bump) = Pubkey::find_program_address(&[b"position", pmint.as_ref()], &::whirlpool::ID);
        let owner = fx.trader;
        let stranger = k(0x63, 9);
        let ata = Pubkey::find_program_address(&[owner.as_ref(), t22.as_ref(), pmint.as_ref()], &anchor_spl::associated_token::ID).0;
        let sysid = crate::svm::system_id();
        fx.bank.set(fx.trader, sysid, 10_000_000_000, vec![]);
        fx.bank.set(stranger, sysid, 1_000_000_000, vec![]);
        fx.bank.set_program(sysid);
        fx.bank.set_program(anchor_spl::associated_token::ID);
        let upd_auth = ::whirlpool::constants::nft::whirlpool_nft_update_auth::ID;
        fx.bank.set(upd_auth, sysid, 1_000_000, vec![]);
        // step 1: open over the history position's range
        let acc = ::whirlpool::accounts::OpenPositionWithTokenExtensions {
            funder: fx.trader,
            owner,
            position,
            position_mint: pmint,
            position_token_account: ata,
            whirlpool: fx.pool,
            token_2022_program: t22,
            system_program: sysid,
            associated_token_program: anchor_spl::associated_token::ID,
            metadata_update_auth: upd_auth,
        };
        let metas: Vec<Meta> = acc.to_account_metas(None).iter().map(Meta::from).collect();
        let data = ::whirlpool::instruction::OpenPositionWithTokenExtensions { tick_lower_index: pos0.tick_lower_index, tick_upper_index: pos0.tick_upper_index, with_token_metadata_extension: id % 2 == 0 }.data();
        let (r1, o1) = fx.bank.execute(&metas, &data);
        if let Err(e) = r1 {
            return XHopOut { line: format!("skip open fails {}", err_name(&e, &o1.logs)), viols, tags: vec!["close22_open_failed"] };
        }
        // step 2: the history position's state in the new position account
        {
            let a = fx.bank.get(&position);
            let mut pdata = base.positions[&id].clone();
            pdata[8..40].copy_from_slice(fx.pool.as_ref());
            pdata[40..72].copy_from_slice(pmint.as_ref());
            pdata.resize(a.data.len(), 0);
            fx.bank.set(position, a.owner, a.lamports, pdata);
        }
        let bank0 = fx.bank.clone();
        let lam0 = fx.bank.get(&fx.trader).lamports;
        // step 3: close
        let signer_key = if auth_mode == 1 { stranger } else { fx.trader };
        let a = ::whirlpool::accounts::ClosePositionWithTokenExtensions { position_authority: signer_key, receiver: fx.trader, position, position_mint: pmint, position_token_account: ata, token_2022_program: t22 };
        let mut m2: Vec<Meta> = a.to_account_metas(None).iter().map(Meta::from).collect();
        if auth_mode == 2 {
            m2[0].signer = false;
        }
        let (res, out) = fx.bank.execute(&m2, &::whirlpool::instruction::ClosePositionWithTokenExtensions {}.data());
        let empty = Position::is_position_empty(&pos0);
        let line = match &res {
            Err(e) => {
                let name = err_name(e, &out.logs);
                if fx.bank.accts != bank0.accts {
                    viols.push("a failed close_position_with_token_extensions changed account state".to_string());
                }
                if auth_mode == 0 && empty {
                    viols.push(format!("C18 close_position_with_token_extensions of an empty position by its owner fails with {}", name));
                }
                tags.push(if auth_mode != 0 { "close22_unauthorized_rejected" } else { "close22_not_empty_rejected" });
                format!("err {}", name)
            }
            Ok(()) => {
                if auth_mode != 0 {
                    viols.push(format!("C04 close_position_with_token_extensions succeeded although the position's owner did not sign (mode {})", auth_mode));
                }
                if !empty {
                    viols.push("C18 close_position_with_token_extensions closed a position that still holds liquidity, owed fees or owed rewards".to_string());
                }
                for (what, key) in [("position", position), ("position token account", ata), ("position mint", pmint)] {
                    let acc = fx.bank.get(&key);
                    if !(acc.lamports == 0 || acc.data.is_empty() || acc.owner == sysid) {
                        viols.push(format!("C18 close_position_with_token_extensions left the {} open", what));
                    }
                }
                if fx.bank.get(&fx.trader).lamports <= lam0 {
                    viols.push("C18 close_position_with_token_extensions did not return the rent to the receiver".to_string());
                }
                tags.push("close22_ok");
                "ok".to_string()
            }
        };
        XHopOut { line, viols, tags }
    }
}

// ================================================================================================
// C18 / C04: locking — lock_position, then one follow-up instruction on the locked position
//   H xlock <id> <authMode> <follow none|dec|close|reset|repo|inc|cf|xfer|lock2>
// The position token is a Token-2022 token whose mint's freeze authority is the position PDA (what
// open_position_with_token_extensions creates).  authMode (lock step): 0 owner signs; 1 stranger; 2 nobody.
// Expected: only positions WITH liquidity can be locked; a locked position cannot have liquidity removed,
// be closed, re-ranged or repositioned, but can add liquidity, collect fees and be transferred.
// Output: `err <name>` for a refused lock, else `ok <follow> <ok|rej>`.
// ================================================================================================
fn t22_mint_with_freeze(supply: u64, freeze: &Pubkey) -> Vec<u8> {
    use anchor_lang::solana_program::program_option::COption;
    use anchor_lang::solana_program::program_pack::Pack;
    let m = anchor_spl::token::spl_token::state::Mint { mint_authority: COption::None, supply, decimals: 0, is_initialized: true, freeze_authority: COption::Some(*freeze) };
    let mut d = vec![0u8; 82];
    anchor_spl::token::spl_token::state::Mint::pack(m, &mut d).unwrap();
    // a Token-2022 mint without extensions is exactly the 82 base bytes (a type byte without TLV data is invalid)
    d
}

/// a Token-2022 token account as the associated-token program creates it: base + type byte + ImmutableOwner
fn t22_token_account(mint: &Pubkey, owner: &Pubkey, amount: u64) -> Vec<u8> {
    let mut d = crate::fixture::token_account_data(false, mint, owner, amount, false);
    d.push(2); // account type: Account
    d.extend_from_slice(&7u16.to_le_bytes()); // ImmutableOwner
    d.extend_from_slice(&0u16.to_le_bytes());
    d
}

impl World {
    pub fn x_lock(&self, t: &[&str]) -> XHopOut {
        use anchor_lang::ToAccountMetas;
        let mut viols = vec![];
        let mut tags: Vec<&'static str> = vec![];
        let id: u32 = t[2].parse().unwrap();
        let auth_mode: u8 = t[3].parse().unwrap();
        let follow = t[4];
        let pos0 = match self.pos(id) {
            Some(p) => p,
            None => return XHopOut { line: "err NoSuchPosition".to_string(), viols, tags },
        };
        let mut base = crate::hist_oracle::clone_world(self);
        let (ls, us) = (base.array_start_for(pos0.tick_lower_index), base.array_start_for(pos0.tick_upper_index));
        base.ensure_array(ls);
        base.ensure_array(us);
        // the `repo` follow-up asks for a DIFFERENT range (upper bound one spacing further), with its arrays in place: only
        // the lock stands between the owner and the re-ranging
        let (repo_lo, repo_hi) = repo_range(pos0.tick_lower_index, pos0.tick_upper_index, base.wp().tick_spacing);
        let repo_us = base.array_start_for(repo_hi);
        base.ensure_array(repo_us);
        let funds = u64::MAX / 4;
        let mut fx = Fx::from_world(&base, None, None, false, false, funds);
        let t22 = anchor_spl::token_2022::ID;
        let pmint = k(0x61, id as u8);
        let (position, _bump) = Pubkey::find_program_address(&[b"position", pmint.as_ref()], &::whirlpool::ID);
        let ptoken = k(0x62, id as u8);
        let stranger = k(0x63, 9);
        let dest = k(0x64, id as u8);
        let lock_config = Pubkey::find_program_address(&[b"lock_config", position.as_ref()], &::whirlpool::ID).0;
        let mut pdata = base.positions[&id].clone();
        pdata[8..40].copy_from_slice(fx.pool.as_ref());
        pdata[40..72].copy_from_slice(pmint.as_ref());
        let pos_units = *base.pos_rent.get(&id).unwrap_or(&2);
        fx.bank.set(position, ::whirlpool::ID, min_balance(pdata.len()) + pos_units as u64 * TICK_RENT, pdata);
        fx.bank.set(pmint, t22, 3_000_000, t22_mint_with_freeze(1, &position));
        fx.bank.set(ptoken, t22, 2_100_000, t22_token_account(&pmint, &fx.trader, if auth_mode == 6 { 0 } else { 1 })); // mode 6: an EMPTY account of the position mint
        fx.bank.set(dest, t22, 2_100_000, t22_token_account(&pmint, &stranger, 0));
        fx.bank.set(stranger, crate::svm::system_id(), 1_000_000_000, vec![]);
        fx.bank.set_program(crate::svm::system_id());
        for st in [ls, us] {
            let key = crate::fixture::tick_array_pda(&fx.pool, st);
            let mut a = fx.bank.get(&key);
            let dynamic = base.arrays[&st].dynamic;
            a.lamports = if dynamic { min_balance(148) + *base.array_rent.get(&st).unwrap_or(&0) as u64 * TICK_RENT } else { min_balance(a.data.len()) };
            fx.bank.accts.insert(key, a);
        }
        // auth modes 3 / 4 / 5 (C15): the lock config offered is NOT at the position's lock-config address; the mint
        // offered is another (look-alike) mint, not the position's; the position belongs to ANOTHER pool
        let omint = k(0x67, id as u8);
        let pm = fx.bank.get(&pmint);
        fx.bank.set(omint, pm.owner, pm.lamports, pm.data.clone());
        if auth_mode == 5 {
            let mut a = fx.bank.get(&position);
            a.data[8..40].copy_from_slice(k(0x77, 1).as_ref());
            fx.bank.accts.insert(position, a);
        }
        let bank0 = fx.bank.clone();
        // ---- step 1: lock
        let signer_key = if auth_mode == 1 { stranger } else { fx.trader };
        let acc = ::whirlpool::accounts::LockPosition {
            funder: if auth_mode == 2 { stranger } else { fx.trader },
            position_authority: signer_key,
            position,
            position_mint: if auth_mode == 4 { omint } else { pmint },
            position_token_account: ptoken,
            lock_config: if auth_mode == 3 { k(0x99, 7) } else { lock_config },
            whirlpool: fx.pool,
            token_2022_program: t22,
            system_program: crate::svm::system_id(),
        };
        let mut metas: Vec<Meta> = acc.to_account_metas(None).iter().map(Meta::from).collect();
        if auth_mode == 2 {
            metas[1].signer = false;
        }
        let data = ::whirlpool::instruction::LockPosition { lock_type: ::whirlpool::state::LockType::Permanent }.data();
        let (res, out) = fx.bank.execute(&metas, &data);
        let frozen = |b: &Bank, key: &Pubkey| b.data(key).get(108).copied() == Some(2);
        match &res {
            Err(e) => {
                let name = err_name(e, &out.logs);
                if fx.bank.accts != bank0.accts {
                    viols.push("a failed lock_position changed account state".to_string());
                }
                if std::env::var("WPH_LOGS").is_ok() {
                    eprintln!("lock failed: {:?}\n{}", e, out.logs.join("\n"));
                }
                if auth_mode == 0 && pos0.liquidity > 0 {
                    viols.push(format!("C18 lock_position of a position with liquidity by its owner fails with {}", name));
                }
                tags.push(if auth_mode != 0 { "lock_unauthorized_rejected" } else { "lock_empty_rejected" });
                return XHopOut { line: format!("err {}", name), viols, tags };
            }
            Ok(()) => {
                if auth_mode == 6 {
                    viols.push("C04 lock_position accepted a signer whose account of the position mint holds NO token".to_string());
                    return XHopOut { line: "ACCEPTED".to_string(), viols, tags };
                }
                if auth_mode >= 3 {
                    viols.push(format!("C15 lock_position succeeded although {}", match auth_mode { 3 => "the lock config is not at the position's lock-config address", 4 => "the mint offered is not the position's mint", _ => "the position belongs to another pool than the one named" }));
                    return XHopOut { line: "ACCEPTED".to_string(), viols, tags };
                }
                if auth_mode != 0 {
                    viols.push(format!("C04 lock_position succeeded although the position owner did not sign (mode {})", auth_mode));
                }
                if pos0.liquidity == 0 {
                    viols.push("C18 a position without liquidity was locked".to_string());
                }
                if !frozen(&fx.bank, &ptoken) {
                    viols.push("C18 lock_position did not freeze the position token account".to_string());
                }
                let lc = fx.bank.get(&lock_config);
                if lc.owner != ::whirlpool::ID || lc.data.len() < 8 + 32 * 3 {
                    viols.push("C18 lock_position did not create the lock config".to_string());
                }
                if fx.bank.data(&position) != bank0.data(&position) {
                    viols.push("C18 lock_position changed the position account".to_string());
                }
                tags.push("lock_ok");
            }
        }
        // ---- step 2: the follow-up on the locked position, signed by the owner
        let mut locked = fx.bank.clone();
        let (ta_l, ta_u) = (crate::fixture::tick_array_pda(&fx.pool, ls), crate::fixture::tick_array_pda(&fx.pool, us));
        let liq_dec = pos0.liquidity.max(1);
        let (m2, d2): (Vec<Meta>, Vec<u8>) = match follow {
            "none" => return XHopOut { line: "ok none ok".to_string(), viols, tags },
            "dec" | "inc" => {
                let a = ::whirlpool::accounts::ModifyLiquidityV2 {
                    whirlpool: fx.pool,
                    token_program_a: fx.prog_a,
                    token_program_b: fx.prog_b,
                    memo_program: anchor_spl::memo::ID,
                    position_authority: fx.trader,
                    position,
                    position_token_account: ptoken,
                    token_mint_a: fx.mint_a,
                    token_mint_b: fx.mint_b,
                    token_owner_account_a: fx.trader_a,
                    token_owner_account_b: fx.trader_b,
                    token_vault_a: fx.vault_a,
                    token_vault_b: fx.vault_b,
                    tick_array_lower: ta_l,
                    tick_array_upper: ta_u,
                };
                let d = if follow == "dec" {
                    ::whirlpool::instruction::DecreaseLiquidityV2 { liquidity_amount: liq_dec, token_min_a: 0, token_min_b: 0, remaining_accounts_info: None }.data()
                } else {
                    ::whirlpool::instruction::IncreaseLiquidityV2 { liquidity_amount: 1, token_max_a: u64::MAX, token_max_b: u64::MAX, remaining_accounts_info: None }.data()
                };
                (a.to_account_metas(None).iter().map(Meta::from).collect(), d)
            }
            "close" => {
                let a = ::whirlpool::accounts::ClosePositionWithTokenExtensions { position_authority: fx.trader, receiver: fx.trader, position, position_mint: pmint, position_token_account: ptoken, token_2022_program: t22 };
                (a.to_account_metas(None).iter().map(Meta::from).collect(), ::whirlpool::instruction::ClosePositionWithTokenExtensions {}.data())
            }
            "reset" => {
                let a = ::whirlpool::accounts::ResetPositionRange { funder: fx.trader, position_authority: fx.trader, whirlpool: fx.pool, position, position_token_account: ptoken, system_program: crate::svm::system_id() };
                let ts = fx.wp().tick_spacing as i32;
                (
                    a.to_account_metas(None).iter().map(Meta::from).collect(),
                    ::whirlpool::instruction::ResetPositionRange { new_tick_lower_index: pos0.tick_lower_index, new_tick_upper_index: (pos0.tick_upper_index - ts).max(pos0.tick_lower_index + ts) }.data(),
                )
            }
            "repo" => {
                let a = ::whirlpool::accounts::RepositionLiquidityV2 {
                    whirlpool: fx.pool,
                    token_program_a: fx.prog_a,
                    token_program_b: fx.prog_b,
                    memo_program: anchor_spl::memo::ID,
                    position_authority: fx.trader,
                    funder: fx.trader,
                    position,
                    position_token_account: ptoken,
                    token_mint_a: fx.mint_a,
                    token_mint_b: fx.mint_b,
                    token_owner_account_a: fx.trader_a,
                    token_owner_account_b: fx.trader_b,
                    token_vault_a: fx.vault_a,
                    token_vault_b: fx.vault_b,
                    existing_tick_array_lower: ta_l,
                    existing_tick_array_upper: ta_u,
                    new_tick_array_lower: ta_l,
                    new_tick_array_upper: crate::fixture::tick_array_pda(&fx.pool, repo_us),
                    system_program: crate::svm::system_id(),
                };
                let d = ::whirlpool::instruction::RepositionLiquidityV2 {
                    new_tick_lower_index: repo_lo,
                    new_tick_upper_index: repo_hi,
                    method: ::whirlpool::instructions::RepositionLiquidityMethod::ByLiquidity { new_liquidity_amount: 1, existing_range_token_min_a: 0, existing_range_token_min_b: 0, new_range_token_max_a: u64::MAX, new_range_token_max_b: u64::MAX },
                    remaining_accounts_info: None,
                }
                .data();
                (a.to_account_metas(None).iter().map(Meta::from).collect(), d)
            }
            "cf" => {
                let a = ::whirlpool::accounts::CollectFeesV2 {
                    whirlpool: fx.pool,
                    position_authority: fx.trader,
                    position,
                    position_token_account: ptoken,
                    token_mint_a: fx.mint_a,
                    token_mint_b: fx.mint_b,
                    token_owner_account_a: fx.trader_a,
                    token_vault_a: fx.vault_a,
                    token_owner_account_b: fx.trader_b,
                    token_vault_b: fx.vault_b,
                    token_program_a: fx.prog_a,
                    token_program_b: fx.prog_b,
                    memo_program: anchor_spl::memo::ID,
                };
                (a.to_account_metas(None).iter().map(Meta::from).collect(), ::whirlpool::instruction::CollectFeesV2 { remaining_accounts_info: None }.data())
            }
            // transfers that must be REFUSED (C15 / C18): the destination is a token account of another mint; the
            // destination is the source itself; the lock config of ANOTHER position is offered
            "xferm" | "xfers" | "xferl" => {
                let omint = k(0x67, id as u8);
                let odest = k(0x68, id as u8);
                fx.bank.set(odest, t22, 2_100_000, t22_token_account(&omint, &stranger, 0));
                let other_pos = k(0x69, id as u8);
                let other_lock = Pubkey::find_program_address(&[b"lock_config", other_pos.as_ref()], &::whirlpool::ID).0;
                {
                    // a lock config that really belongs to another position (same owner, same pool)
                    let mut d = fx.bank.data(&lock_config);
                    if d.len() >= 40 {
                        d[8..40].copy_from_slice(other_pos.as_ref());
                    }
                    let lc = fx.bank.get(&lock_config);
                    fx.bank.set(other_lock, lc.owner, lc.lamports, d);
                }
                locked = fx.bank.clone();
                let a = ::whirlpool::accounts::TransferLockedPosition {
                    position_authority: fx.trader,
                    receiver: fx.trader,
                    position,
                    position_mint: pmint,
                    position_token_account: ptoken,
                    destination_token_account: if follow == "xferm" { odest } else if follow == "xfers" { ptoken } else { dest },
                    lock_config: if follow == "xferl" { other_lock } else { lock_config },
                    token_2022_program: t22,
                };
                (a.to_account_metas(None).iter().map(Meta::from).collect(), ::whirlpool::instruction::TransferLockedPosition {}.data())
            }
            "xfer" => {
                let a = ::whirlpool::accounts::TransferLockedPosition { position_authority: fx.trader, receiver: fx.trader, position, position_mint: pmint, position_token_account: ptoken, destination_token_account: dest, lock_config, token_2022_program: t22 };
                (a.to_account_metas(None).iter().map(Meta::from).collect(), ::whirlpool::instruction::TransferLockedPosition {}.data())
            }
            _ => {
                // lock2: lock again
                let a = ::whirlpool::accounts::LockPosition { funder: fx.trader, position_authority: fx.trader, position, position_mint: pmint, position_token_account: ptoken, lock_config, whirlpool: fx.pool, token_2022_program: t22, system_program: crate::svm::system_id() };
                (a.to_account_metas(None).iter().map(Meta::from).collect(), ::whirlpool::instruction::LockPosition { lock_type: ::whirlpool::state::LockType::Permanent }.data())
            }
        };
        let (res2, out2) = fx.bank.execute(&m2, &d2);
        let must_fail = matches!(follow, "dec" | "close" | "reset" | "repo" | "lock2" | "xferm" | "xfers" | "xferl");
        let line = match &res2 {
            Err(e) => {
                let name = err_name(e, &out2.logs);
                if fx.bank.accts != locked.accts {
                    viols.push("a failed instruction on a locked position changed account state".to_string());
                }
                if !must_fail {
                    // adding liquidity may legitimately fail in the managers; fee collection / transfer may not
                    let inc_ref_fails = follow == "inc" && {
                        let mut r = crate::hist_oracle::clone_world(&base);
                        r.vault_a = u128::MAX / 4;
                        r.vault_b = u128::MAX / 4;
                        std::panic::catch_unwind(std::panic::AssertUnwindSafe(|| r.modify_pub(id, 1, true, true))).map(|x| x.is_err()).unwrap_or(true)
                    };
                    let cf_short = follow == "cf" && (pos0.fee_owed_a > token_amount(&locked.data(&fx.vault_a)) || pos0.fee_owed_b > token_amount(&locked.data(&fx.vault_b)));
                    if !(inc_ref_fails || cf_short) {
                        viols.push(format!("C18 `{}` on a locked position must be allowed but fails with {}", follow, name));
                    }
                }
                // the four instructions the lock exists to stop must be stopped BY THE LOCK (not by an accident of the
                // accounts offered): the position is otherwise in order and its owner signs
                // (reset_position_range tests emptiness first, and a locked position is never empty: its lock refusal
                // cannot be observed)
                if matches!(follow, "dec" | "close" | "repo") && name != "OperationNotAllowedOnLockedPosition" {
                    viols.push(format!("C18 `{}` on a locked position is refused with {}, not with OperationNotAllowedOnLockedPosition", follow, name));
                }
                tags.push("lock_follow_rejected");
                format!("ok {} rej", follow)
            }
            Ok(()) => {
                if must_fail {
                    viols.push(match follow {
                        "xferm" => "C15/C18 transfer_locked_position moved the position token into an account of ANOTHER mint".to_string(),
                        "xfers" => "C18 transfer_locked_position accepted the source itself as destination".to_string(),
                        "xferl" => "C15/C18 transfer_locked_position accepted the lock config of ANOTHER position".to_string(),
                        _ => format!("C18 `{}` succeeded on a locked position", follow),
                    });
                }
                if follow == "xfer" {
                    if !frozen(&fx.bank, &dest) || token_amount(&fx.bank.data(&dest)) != 1 {
                        viols.push("C18 transfer_locked_position: the destination does not hold the frozen position token".to_string());
                    }
                    let src = fx.bank.get(&ptoken);
                    if !(src.data.is_empty() || src.lamports == 0) {
                        viols.push("C18 transfer_locked_position left the source token account open".to_string());
                    }
                    let lc = fx.bank.data(&lock_config);
                    if lc.len() >= 8 + 64 && lc[8 + 32..8 + 64] != stranger.to_bytes() {
                        viols.push("C18 transfer_locked_position did not record the new owner in the lock config".to_string());
                    }
                } else if !frozen(&fx.bank, &ptoken) {
                    viols.push(format!("C18 `{}` left the locked position's token account unfrozen", follow));
                }
                tags.push("lock_follow_ok");
                format!("ok {} ok", follow)
            }
        };
        XHopOut { line, viols, tags }
    }
}

// ================================================================================================
// C18: opening a position through the entrypoint
//   H xopen <kind 1|2|3> <lower> <upper> <ownerIsFunder 0|1>
// kind 1 = open_position (SPL Token mint, Anchor `init` of position / mint / associated token account);
// kind 2 = open_position_with_token_extensions without metadata; kind 3 = the same with token metadata.
// The position mint is a fresh signer; the owner's token account is the associated address (created by the
// harness' associated-token program through the REAL token program).  lower / upper may be the sentinels
// i32::MIN / i32::MAX ("derive this bound from the price").
// Expected: exactly one position token, no mint authority left, range = the resolved and validated range.
// ================================================================================================
impl World {
    pub fn x_open(&self, t: &[&str]) -> XHopOut {
        use anchor_lang::ToAccountMetas;
        let mut viols = vec![];
        let mut tags: Vec<&'static str> = vec![];
        let kind: u8 = t[2].parse().unwrap();
        let (lo, hi): (i64, i64) = (t[3].parse().unwrap(), t[4].parse().unwrap());
        let owner_is_funder = t[5] == "1";
        // 6th token (optional): the pool REQUIRES non-transferable positions (control flag set at pool creation from a token
        // badge attribute): the plain / metadata opens are refused, the token-extensions open adds the NonTransferable extension
        let nt = t.get(6).map_or(false, |x| *x == "1");
        let base = crate::hist_oracle::clone_world(self);
        let mut fx = Fx::from_world(&base, None, None, false, false, 1_000);
        if nt {
            let mut wp = fx.wp();
            wp.reward_infos[1].extension = ::whirlpool::state::WhirlpoolExtensionSegmentPrimary::new(::whirlpool::state::WhirlpoolControlFlags::REQUIRE_NON_TRANSFERABLE_POSITION).to_bytes();
            wp.reward_infos[2].extension = [0u8; 32];
            let mut d = vec![];
            wp.try_serialize(&mut d).unwrap();
            let a = fx.bank.get(&fx.pool);
            fx.bank.set(fx.pool, a.owner, a.lamports, d);
        }
        let t22 = anchor_spl::token_2022::ID;
        let tokp = if kind == 1 || kind == 4 { anchor_spl::token::ID } else { t22 };
        let pmint = k(0x65, kind);
        let (position, bump) = Pubkey::find_program_address(&[b"position", pmint.as_ref()], &::whirlpool::ID);
        let owner = if owner_is_funder { fx.trader } else { k(0x63, 11) };
        let ata = Pubkey::find_program_address(&[owner.as_ref(), tokp.as_ref(), pmint.as_ref()], &anchor_spl::associated_token::ID).0;
        let sysid = crate::svm::system_id();
        fx.bank.set(owner, sysid, 1_000_000_000, vec![]);
        fx.bank.set(fx.trader, sysid, 10_000_000_000, vec![]);
        fx.bank.set_program(sysid);
        fx.bank.set_program(anchor_spl::associated_token::ID);
        // Rent sysvar account (bincode: lamports_per_byte_year u64, exemption_threshold f64, burn_percent u8)
        let rent_id = anchor_lang::solana_program::sysvar::rent::ID;
        {
            let r = anchor_lang::solana_program::rent::Rent::default();
            let mut d = vec![];
            d.extend_from_slice(&r.lamports_per_byte_year.to_le_bytes());
            d.extend_from_slice(&r.exemption_threshold.to_le_bytes());
            d.push(r.burn_percent);
            fx.bank.set(rent_id, anchor_lang::solana_program::sysvar::ID, 1_009_200, d);
        }
        let upd_auth = ::whirlpool::constants::nft::whirlpool_nft_update_auth::ID;
        fx.bank.set(upd_auth, sysid, 1_000_000, vec![]);
        fx.bank.set_program(anchor_spl::metadata::ID);
        let bank0 = fx.bank.clone();
        let in_i32 = |x: i64| x.clamp(i32::MIN as i64, i32::MAX as i64) as i32;
        let meta_pid = anchor_spl::metadata::ID;
        let metadata_pda = Pubkey::find_program_address(&[b"metadata", meta_pid.as_ref(), pmint.as_ref()], &meta_pid).0;
        let (metas, data): (Vec<Meta>, Vec<u8>) = if kind == 4 {
            // open_position_with_metadata: the Metaplex program is a stand-in (svm.rs `metadata_program`)
            let acc = ::whirlpool::accounts::OpenPositionWithMetadata {
                funder: fx.trader,
                owner,
                position,
                position_mint: pmint,
                position_metadata_account: metadata_pda,
                position_token_account: ata,
                whirlpool: fx.pool,
                token_program: anchor_spl::token::ID,
                system_program: sysid,
                rent: rent_id,
                associated_token_program: anchor_spl::associated_token::ID,
                metadata_program: meta_pid,
                metadata_update_auth: upd_auth,
            };
            (
                acc.to_account_metas(None).iter().map(Meta::from).collect(),
                ::whirlpool::instruction::OpenPositionWithMetadata {
                    bumps: ::whirlpool::state::OpenPositionWithMetadataBumps { position_bump: bump, metadata_bump: 0 },
                    tick_lower_index: in_i32(lo),
                    tick_upper_index: in_i32(hi),
                }
                .data(),
            )
        } else if kind == 1 {
            let acc = ::whirlpool::accounts::OpenPosition {
                funder: fx.trader,
                owner,
                position,
                position_mint: pmint,
                position_token_account: ata,
                whirlpool: fx.pool,
                token_program: anchor_spl::token::ID,
                system_program: sysid,
                rent: rent_id,
                associated_token_program: anchor_spl::associated_token::ID,
            };
            (
                acc.to_account_metas(None).iter().map(Meta::from).collect(),
                ::whirlpool::instruction::OpenPosition { bumps: ::whirlpool::state::OpenPositionBumps { position_bump: bump }, tick_lower_index: in_i32(lo), tick_upper_index: in_i32(hi) }.data(),
            )
        } else {
            let acc = ::whirlpool::accounts::OpenPositionWithTokenExtensions {
                funder: fx.trader,
                owner,
                position,
                position_mint: pmint,
                position_token_account: ata,
                whirlpool: fx.pool,
                token_2022_program: t22,
                system_program: sysid,
                associated_token_program: anchor_spl::associated_token::ID,
                metadata_update_auth: upd_auth,
            };
            (
                acc.to_account_metas(None).iter().map(Meta::from).collect(),
                ::whirlpool::instruction::OpenPositionWithTokenExtensions { tick_lower_index: in_i32(lo), tick_upper_index: in_i32(hi), with_token_metadata_extension: kind == 3 }.data(),
            )
        };
        let (res, out) = fx.bank.execute(&metas, &data);
        let wp = self.wp();
        let ts = wp.tick_spacing;
        let line = match &res {
            Err(e) => {
                let name = err_name(e, &out.logs);
                if std::env::var("WPH_LOGS").is_ok() {
                    eprintln!("open failed: {:?}\n{}", e, out.logs.join("\n"));
                }
                if fx.bank.accts != bank0.accts {
                    viols.push("a failed open_position changed account state".to_string());
                }
                tags.push("open_rejected");
                format!("err {}", name)
            }
            Ok(()) => {
                let p = Position::try_deserialize(&mut &fx.bank.data(&position)[..]).unwrap();
                let (rlo, rhi) = (p.tick_lower_index, p.tick_upper_index);
                if !(rlo < rhi && Tick::check_is_usable_tick(rlo, ts) && Tick::check_is_usable_tick(rhi, ts)) {
                    viols.push(format!("C18 a position was opened over the invalid range [{}, {}) (spacing {})", rlo, rhi, ts));
                }
                if ts >= 32768 && !(rlo == (-443636 / ts as i32) * ts as i32 && rhi == (443636 / ts as i32) * ts as i32) {
                    viols.push(format!("C18 a partial range [{}, {}) was opened on a full-range-only pool", rlo, rhi));
                }
                if lo != i32::MIN as i64 && rlo as i64 != lo || hi != i32::MAX as i64 && rhi as i64 != hi {
                    viols.push(format!("C18 open_position stored [{}, {}) for the explicit bounds [{}, {})", rlo, rhi, lo, hi));
                }
                // a derived bound keeps the position entirely on one side of the current price
                let price = { wp.sqrt_price };
                if lo == i32::MIN as i64 && !(::whirlpool::math::sqrt_price_from_tick_index(rlo) >= price) {
                    viols.push(format!("C18 derived lower bound {} lies below the current price", rlo));
                }
                if hi == i32::MAX as i64 && !(::whirlpool::math::sqrt_price_from_tick_index(rhi) <= price) {
                    viols.push(format!("C18 derived upper bound {} lies above the current price", rhi));
                }
                if p.whirlpool != fx.pool || p.position_mint != pmint || p.liquidity != 0 || p.fee_owed_a != 0 || p.fee_owed_b != 0 {
                    viols.push("C18 the opened position is not an empty position of this pool and mint".to_string());
                }
                // the opener pre-pays the rent of the two ticks the position may initialise in dynamic tick arrays
                let want_l = min_balance(216) + 2 * TICK_RENT;
                let got_l = fx.bank.get(&position).lamports;
                if got_l < want_l {
                    viols.push(format!("C13 the opened position holds {} lamports, less than rent exemption + the rent of two ticks ({}): with dynamic tick arrays its first deposit cannot pay for its ticks, with fixed arrays it can", got_l, want_l));
                }
                // exactly one token, held by the owner, no mint authority left
                let md = fx.bank.data(&pmint);
                let ma = fx.bank.get(&pmint);
                if ma.owner != tokp || md.len() < 82 {
                    viols.push("C18 the position mint is not a mint of the expected token program".to_string());
                } else {
                    let mint_auth_tag = u32::from_le_bytes(md[0..4].try_into().unwrap());
                    let supply = u64::from_le_bytes(md[36..44].try_into().unwrap());
                    if mint_auth_tag != 0 {
                        viols.push("C18 the position mint still has a mint authority".to_string());
                    }
                    if supply != 1 || md[44] != 0 {
                        viols.push(format!("C18 the position mint has supply {} / decimals {} (expected 1 / 0)", supply, md[44]));
                    }
                }
                let td = fx.bank.data(&ata);
                if td.len() < 165 || token_amount(&td) != 1 || td[32..64] != owner.to_bytes() || td[0..32] != pmint.to_bytes() {
                    viols.push("C18 the owner's associated token account does not hold exactly one position token".to_string());
                }
                if nt && (kind == 1 || kind == 4) {
                    viols.push("C18 a pool that requires non-transferable positions accepted an open without token extensions".to_string());
                }
                if kind == 2 || kind == 3 {
                    // Token-2022 mint: base 82 bytes, padding to 165, account type at 165, TLV from 166; NonTransferable = type 9
                    let md = fx.bank.data(&pmint);
                    let mut has_nt = false;
                    let mut o = 166;
                    while o + 4 <= md.len() {
                        let ty = u16::from_le_bytes([md[o], md[o + 1]]);
                        let ln = u16::from_le_bytes([md[o + 2], md[o + 3]]) as usize;
                        if ty == 0 {
                            break;
                        }
                        if ty == 9 {
                            has_nt = true;
                        }
                        o += 4 + ln;
                    }
                    if has_nt != nt {
                        viols.push(format!("C18 the position mint {} the NonTransferable extension although the pool {} non-transferable positions", if has_nt { "carries" } else { "lacks" }, if nt { "requires" } else { "does not require" }));
                    }
                }
                if kind == 4 {
                    // the metadata account the (stand-in) Metaplex program was asked to create: for THIS mint, with the
                    // program's update authority, naming the position in its URI
                    let m = fx.bank.get(&metadata_pda);
                    let want_uri = format!("{}/{}", ::whirlpool::constants::nft::WP_METADATA_URI, position);
                    if m.owner != meta_pid || m.data.len() < 65 {
                        viols.push("C18 open_position_with_metadata did not create the position's metadata account".to_string());
                    } else {
                        if m.data[1..33] != upd_auth.to_bytes() {
                            viols.push("C18/C15 the position metadata's update authority is not the program's".to_string());
                        }
                        if m.data[33..65] != pmint.to_bytes() {
                            viols.push("C18 the metadata account was created for another mint".to_string());
                        }
                        let hay = &m.data[65..];
                        if !hay.windows(want_uri.len()).any(|w| w == want_uri.as_bytes()) {
                            viols.push("C18 the position metadata does not name the position in its URI".to_string());
                        }
                    }
                }
                tags.push(match kind {
                    1 => "open_ok",
                    2 => "open_ext_ok",
                    4 => "open_metadata_ok",
                    _ => "open_ext_meta_ok",
                });
                format!("ok {} {}", rlo, rhi)
            }
        };
        XHopOut { line, viols, tags }
    }
}
