//! Instruction-level operations of the history family: the REAL handlers, run through the program's
//! entrypoint by the native executor (svm.rs) on accounts built from the current pool state
//! (fixture.rs), compared with the manager-level reference and with exact fee arithmetic.
//!
//!   H xswap <ver 1|2> <amount> <thrMode> <limit> <ein> <dir> <bpsA> <maxA> <futA> <bpsB> <maxB> <futB>
//! thrMode: 0 = no threshold, 1 = exactly the resulting other amount, 2 = one unit tighter (must fail).
//! bps = 65535 means "no transfer-fee extension" (plain SPL Token mint for v1 / for that side).
//! The op does not change the history's state (it runs on a copy).
use crate::fixture::{token_amount, withheld, FeeCfg, Fx};
use crate::hist::World;
use crate::svm::{ExecError, Meta};
use anchor_lang::InstructionData;

fn fee_of(bps: u64, max: u64, x: u64) -> u64 {
    if bps == 0 || x == 0 {
        return 0;
    }
    let raw = (x as u128 * bps as u128 + 9999) / 10000;
    (raw.min(max as u128)) as u64
}
/// smallest y with y - fee(y) >= x (None: exceeds u64)
fn included_of(bps: u64, max: u64, x: u64) -> Option<u64> {
    if x == 0 {
        return Some(0);
    }
    // g(y) = y - fee(y) is non-decreasing with steps of at most 1: binary search on [x, x + max]
    let (mut lo, mut hi) = (x as u128, x as u128 + max as u128);
    let g = |y: u128| -> u128 { y - ((y * bps as u128 + 9999) / 10000).min(max as u128) };
    if bps == 0 {
        return Some(x);
    }
    while lo < hi {
        let mid = (lo + hi) / 2;
        if g(mid) >= x as u128 {
            hi = mid;
        } else {
            lo = mid + 1;
        }
    }
    if lo > u64::MAX as u128 {
        None
    } else {
        Some(lo as u64)
    }
}

fn parse_fee(bps: &str, max: &str, fut: &str) -> Option<FeeCfg> {
    let b: u64 = bps.parse().unwrap();
    if b == 65535 {
        return None;
    }
    let m: u64 = max.parse().unwrap();
    Some(FeeCfg { bps: b as u16, max_fee: m, newer_from_future: if fut == "1" { Some((((b + 77) % 10001) as u16, m / 3 + 1)) } else { None } })
}

pub fn err_name(e: &ExecError, logs: &[String]) -> String {
    match e {
        ExecError::Code(c) => {
            // Anchor logs "… Error Code: <Name>. Error Number: <n>. …"
            for l in logs.iter().rev() {
                if let Some(i) = l.find("Error Code: ") {
                    let rest = &l[i + 12..];
                    let name: String = rest.chars().take_while(|ch| ch.is_alphanumeric() || *ch == '_').collect();
                    if !name.is_empty() && name != "Custom" {
                        return name;
                    }
                }
            }
            format!("Code({})", c)
        }
        ExecError::Abort(m) => format!("Abort({})", m.chars().take(60).collect::<String>()),
        ExecError::Runtime(m) => format!("Runtime({})", m),
    }
}

pub struct XSwapOut {
    pub line: String,
    pub viols: Vec<String>,
    pub tags: Vec<&'static str>,
}

impl World {
    pub fn x_swap(&self, t: &[&str]) -> XSwapOut {
        let ver: u8 = t[2].parse().unwrap();
        let amount: u64 = t[3].parse().unwrap();
        let thr_mode: u8 = t[4].parse().unwrap();
        let limit: u128 = t[5].parse().unwrap();
        let (ein, dir) = (t[6] == "1", t[7] == "1");
        let (fee_a, fee_b) = if ver == 2 { (parse_fee(t[8], t[9], t[10]), parse_fee(t[11], t[12], t[13])) } else { (None, None) };
        let mut viols = vec![];
        let mut tags = vec![];
        let t22 = ver == 2 && t[8] != "65535";
        let funds = u64::MAX / 4;
        let fx0 = Fx::from_world(self, fee_a, fee_b, t22, ver == 2 && t[11] != "65535", funds);
        let (fin, fout) = if dir { (fee_a, fee_b) } else { (fee_b, fee_a) };
        let f = |c: Option<FeeCfg>| c.map(|c| (c.bps as u64, c.max_fee)).unwrap_or((0, 0));
        let ((bi, mi), (bo, mo)) = (f(fin), f(fout));
        // ---- reference: the manager-level swap on a copy of the world, with the fee-adjusted amount
        let pool_amount = if ein { Some(amount - fee_of(bi, mi, amount)) } else { included_of(bo, mo, amount) };
        let mut reference = crate::hist_oracle::clone_world(self);
        let starts: Vec<i32> = {
            let wp = self.wp();
            let tia = 88 * wp.tick_spacing as i32;
            let cur = wp.tick_current_index;
            let base = cur.div_euclid(tia) * tia;
            let first = if dir || cur + (wp.tick_spacing as i32) < base + tia { base } else { base + tia };
            (0..3).map(|kk| first + if dir { -kk * tia } else { kk * tia }).filter(|s| Tick::check_is_valid_start_tick(*s, wp.tick_spacing)).collect()
        };
        // the reference's own vault bookkeeping must not interfere: whether the vault can pay is checked below
        reference.vault_a = u128::MAX / 4;
        reference.vault_b = u128::MAX / 4;
        let vault_out_balance = token_amount(&fx0.bank.data(if dir { &fx0.vault_b } else { &fx0.vault_a }));
        let ref_res = match pool_amount {
            Some(pa) => std::panic::catch_unwind(std::panic::AssertUnwindSafe(|| reference.do_swap_pub(pa, limit, ein, dir, &starts))).unwrap_or_else(|_| Err("Panic".to_string())),
            None => Err("TransferFeeCalculationError".to_string()),
        };
        // what the trader pays / receives according to the property
        let expect: Option<(u64, u64, u64, u64)> = ref_res.as_ref().ok().and_then(|(a, bb, _, _)| {
            let (pin, pout) = if dir { (*a, *bb) } else { (*bb, *a) }; // pool input / output (curve amounts)
            let user_in = if ein && pin == pool_amount.unwrap() { Some(amount) } else { included_of(bi, mi, pin) }?;
            let user_out = pout - fee_of(bo, mo, pout);
            Some((user_in, user_out, pin, pout))
        });
        // ---- threshold
        let thr: u64 = match (thr_mode, &expect) {
            (0, _) | (_, None) => {
                if ein {
                    0
                } else {
                    u64::MAX
                }
            }
            (1, Some((ui, uo, _, _))) => {
                if ein {
                    *uo
                } else {
                    *ui
                }
            }
            (_, Some((ui, uo, _, _))) => {
                if ein {
                    uo.saturating_add(1)
                } else {
                    ui.saturating_sub(1)
                }
            }
        };
        // ---- run the real handler
        let mut fx = fx0.clone();
        let (metas, data): (Vec<Meta>, Vec<u8>) = if ver == 2 {
            (
                fx.swap_v2_metas(dir),
                ::whirlpool::instruction::SwapV2 { amount, other_amount_threshold: thr, sqrt_price_limit: limit, amount_specified_is_input: ein, a_to_b: dir, remaining_accounts_info: None }.data(),
            )
        } else {
            (fx.swap_v1_metas(dir), ::whirlpool::instruction::Swap { amount, other_amount_threshold: thr, sqrt_price_limit: limit, amount_specified_is_input: ein, a_to_b: dir }.data())
        };
        let (res, out) = fx.bank.execute(&metas, &data);
        let bal = |fx: &Fx, k| token_amount(&fx.bank.data(k));
        let (tin, tout, vin, vout) = if dir { (fx.trader_a, fx.trader_b, fx.vault_a, fx.vault_b) } else { (fx.trader_b, fx.trader_a, fx.vault_b, fx.vault_a) };
        let line = match &res {
            Err(e) => {
                let name = err_name(e, &out.logs);
                // the handler must fail exactly when the reference fails or the threshold binds
                match (&expect, thr_mode) {
                    (Some((ui, uo, _, _)), 2) if (ein && thr > *uo) || (!ein && thr < *ui) => {
                        let want = if ein { "AmountOutBelowMinimum" } else { "AmountInAboveMaximum" };
                        if name != want {
                            viols.push(format!("C03/C16 the threshold is one unit tighter than the resulting amount: expected {}, the handler gives {}", want, name));
                        }
                        tags.push("x_threshold_rejected");
                    }
                    // the trader's own token account holds `funds`: paying more than that is refused by the token program
                    (Some((ui, _, _, pout)), _) if (*ui > funds || *pout > vault_out_balance) && name == "Code(1)" => tags.push("x_token_insufficient_funds"),
                    (Some(_), _) => viols.push(format!("C16/C03 swap handler v{} fails with {} but the swap computation succeeds ({:?})", ver, name, ref_res)),
                    (None, _) => tags.push("x_both_fail"),
                }
                if fx.bank.accts != fx0.bank.accts {
                    viols.push("a failed instruction changed account state".to_string());
                }
                format!("err {}", name)
            }
            Ok(()) => {
                let d_tin = bal(&fx0, &tin) - bal(&fx, &tin);
                let d_tout = bal(&fx, &tout) - bal(&fx0, &tout);
                let d_vin = bal(&fx, &vin) - bal(&fx0, &vin);
                let d_vout = bal(&fx0, &vout) - bal(&fx, &vout);
                let wh_in = withheld(&fx.bank.data(&vin)) - withheld(&fx0.bank.data(&vin));
                let wh_out = withheld(&fx.bank.data(&tout)) - withheld(&fx0.bank.data(&tout));
                match &expect {
                    None => viols.push(format!("C16/C03 swap handler v{} succeeds but the swap computation fails ({:?})", ver, ref_res.as_ref().err())),
                    Some((ui, uo, pin, pout)) => {
                        if thr_mode == 2 && ((ein && thr > *uo) || (!ein && thr < *ui)) {
                            viols.push(format!("C03 the threshold {} is one unit tighter than the resulting amount but the handler succeeded", thr));
                        }
                        if d_vin != *pin {
                            viols.push(format!("C16 the vault received {} of the input token but the curve needs {}", d_vin, pin));
                        }
                        if d_vout != *pout {
                            viols.push(format!("C16 the vault paid out {} of the output token but the curve amount is {}", d_vout, pout));
                        }
                        if d_tin != *ui || d_tout != *uo {
                            viols.push(format!("C16 the trader paid {} and received {}; expected {} (smallest amount whose fee-reduced value is the curve input) and {} (curve output minus its fee)", d_tin, d_tout, ui, uo));
                        }
                        if ein && d_tin > amount {
                            viols.push(format!("C16 exact-in: the trader paid {} > the specified {}", d_tin, amount));
                        }
                        if !ein && d_tout != amount && reference.last_swap_report != (0, 0, 0, 0) && pout >= &included_of(bo, mo, amount).unwrap_or(u64::MAX) {
                            viols.push(format!("C16 exact-out: the trader received {} but specified {}", d_tout, amount));
                        }
                        if ein && d_tout < thr || !ein && d_tin > thr {
                            viols.push(format!("C03/C16 threshold {} violated by what the trader actually paid/received ({}, {})", thr, d_tin, d_tout));
                        }
                        if d_tin - d_vin != wh_in || d_vout - d_tout != wh_out {
                            viols.push(format!("C16 amounts moved do not add up with the withheld fees: in {} -> {} (+{} withheld), out {} -> {} (+{} withheld)", d_tin, d_vin, wh_in, d_vout, d_tout, wh_out));
                        }
                        // pool state = the manager-level reference
                        let (w1, w2) = (fx.wp(), reference.wp());
                        let same = { w1.sqrt_price } == { w2.sqrt_price }
                            && w1.tick_current_index == w2.tick_current_index
                            && { w1.liquidity } == { w2.liquidity }
                            && { w1.fee_growth_global_a } == { w2.fee_growth_global_a }
                            && { w1.fee_growth_global_b } == { w2.fee_growth_global_b }
                            && w1.protocol_fee_owed_a == w2.protocol_fee_owed_a
                            && w1.protocol_fee_owed_b == w2.protocol_fee_owed_b
                            && w1.reward_last_updated_timestamp == w2.reward_last_updated_timestamp
                            && (0..3).all(|i| { w1.reward_infos[i].growth_global_x64 } == { w2.reward_infos[i].growth_global_x64 });
                        if !same {
                            viols.push("C16/C06 the pool account after the swap instruction differs from the manager-level swap on the same state".to_string());
                        }
                        // the Traded event reports the amounts moved
                        if let Some(ev) = out.events.iter().find(|e| e.len() == 8 + 32 + 1 + 16 + 16 + 8 * 6) {
                            let u = |o: usize| u64::from_le_bytes(ev[o..o + 8].try_into().unwrap());
                            let base = 8 + 32 + 1 + 32;
                            let (e_in, e_out, e_fin, e_fout, e_lp, e_pf) = (u(base), u(base + 8), u(base + 16), u(base + 24), u(base + 32), u(base + 40));
                            let (_, _, lp, pf) = reference.last_swap_report;
                            if e_in != d_tin || e_out != d_vout || e_fin != wh_in || e_fout != wh_out || e_lp != lp || e_pf != pf {
                                viols.push(format!(
                                    "C16/C06 Traded event (in {}, out {}, fees {}/{}, lp {}, protocol {}) differs from the amounts moved (in {}, out {}, withheld {}/{}, lp {}, protocol {})",
                                    e_in, e_out, e_fin, e_fout, e_lp, e_pf, d_tin, d_vout, wh_in, wh_out, lp, pf
                                ));
                            }
                            tags.push("x_event_checked");
                        } else {
                            viols.push("C06 no Traded event was emitted by a successful swap".to_string());
                        }
                        tags.push(if bi > 0 || bo > 0 { "x_ok_with_transfer_fee" } else { "x_ok" });
                    }
                }
                format!("ok {} {} {} {}", d_tin, d_tout, d_vin, d_vout)
            }
        };
        XSwapOut { line, viols, tags }
    }
}

use ::whirlpool::state::Tick;
