//! Implementation-side oracles evaluated on the real state after every history operation.
use crate::hist::{ArrayAcc, World};
use crate::Ctx;
use std::cell::RefCell;

pub fn clone_world(w: &World) -> World {
    World {
        wp: w.wp.clone(),
        positions: w.positions.clone(),
        arrays: w.arrays.iter().map(|(k, a)| (*k, ArrayAcc { data: RefCell::new(a.data.borrow().clone()), dynamic: a.dynamic })).collect(),
        arrmode: w.arrmode,
        vault_a: w.vault_a,
        vault_b: w.vault_b,
        reward_vaults: w.reward_vaults,
        now: w.now,
        af: w.af.clone(),
        key: w.key,
        trader_a: w.trader_a,
        trader_b: w.trader_b,
        shadow: BTreeMap::new(),
        last_trace: vec![],
        last_swap_report: (0, 0, 0, 0),
        acct_len: w.acct_len.clone(),
        array_rent: w.array_rent.clone(),
        pos_rent: w.pos_rent.clone(),
        c12_mismatch: None,
        snap: None,
    }
}

use crate::fam_math::{big, ceil_div, step_oracle, StepOut};
use num_bigint::BigUint;
use num_traits::Zero;
use std::collections::BTreeMap;
use ::whirlpool::math::{MAX_SQRT_PRICE_X64, MIN_SQRT_PRICE_X64};
use ::whirlpool::state::{Position, Tick, Whirlpool};

/// exact entitlements of one position, scaled by 2^128 (hi = rounded up per contribution, lo = down)
#[derive(Default, Clone)]
pub struct Shadow {
    pub fee_hi: [BigUint; 2],
    pub fee_lo: [BigUint; 2],
    pub fee_credited: [u128; 2],
    pub rew_hi: [BigUint; 3],
    pub rew_lo: [BigUint; 3],
    pub rew_credited: [u128; 3],
    pub events: u64,
    pub slack: u128,
    pub lossy: bool,
}

pub struct Snapshot {
    pub af: Option<::whirlpool::state::AdaptiveFeeInfo>,
    pub ticks: Vec<(i32, Tick)>,
    pub wp: Whirlpool,
    pub positions: BTreeMap<u32, Position>,
    pub now: u64,
}

pub fn snapshot(w: &World) -> Snapshot {
    Snapshot { af: w.af.clone(), ticks: w.all_ticks(), wp: w.wp(), positions: w.positions.keys().map(|k| (*k, w.pos(*k).unwrap())).collect(), now: w.now }
}

fn scale() -> BigUint {
    BigUint::from(1u32) << 128
}

/// reward accrual of the interval [pre.reward_last_updated_timestamp, now] at the pre-op state (C11)
fn accrue_rewards(w: &mut World, pre: &Snapshot, ctx: &mut Ctx) {
    let wp = &pre.wp;
    let post = w.wp();
    let t0 = wp.reward_last_updated_timestamp;
    let t1 = post.reward_last_updated_timestamp;
    if t1 < t0 {
        ctx.viol(format!("C11 reward_last_updated_timestamp went backwards: {} -> {}", t0, t1));
        return;
    }
    if t1 == t0 {
        return;
    }
    let dt = (t1 - t0) as u128;
    let l = wp.liquidity;
    for i in 0..3 {
        let r = &wp.reward_infos[i];
        let g0 = r.growth_global_x64;
        let g1 = post.reward_infos[i].growth_global_x64;
        let dg = g1.wrapping_sub(g0);
        if !r.initialized() || l == 0 {
            if dg != 0 {
                ctx.viol(format!("C11 reward {} accrued growth {} while {}", i, dg, if l == 0 { "in-range liquidity is zero" } else { "it is not initialized" }));
            }
            continue;
        }
        // growth += floor(dt * emissions / L), or 0 when the product overflows u128
        let e = r.emissions_per_second_x64;
        let want = match dt.checked_mul(e) {
            Some(p) => p / l,
            None => 0,
        };
        if dg != want {
            ctx.viol(format!("C11 reward {} growth advanced by {} but dt*emissions/liquidity = {} (dt {}, emissions {}, liquidity {})", i, dg, want, dt, e, l));
        }
        if dt.checked_mul(e).is_none() {
            for sh in w.shadow.values_mut() {
                sh.lossy = true;
            }
            continue;
        }
        let cur = wp.tick_current_index;
        for (id, p) in &pre.positions {
            if p.liquidity > 0 && p.tick_lower_index <= cur && cur < p.tick_upper_index {
                let sh = w.shadow.entry(*id).or_default();
                // tokens = dt * e * liq / (L * 2^64); scaled by 2^128
                let num = big(dt) * big(e) * big(p.liquidity) * scale();
                let den = big(l) << 64;
                sh.rew_hi[i] += ceil_div(&num, &den);
                sh.rew_lo[i] += &num / &den;
                sh.events += 1;
            }
        }
    }
}

fn check_position_credit(w: &mut World, pre: &Snapshot, ctx: &mut Ctx) {
    for (id, p0) in &pre.positions {
        let p1 = match w.pos(*id) {
            Some(p) => p,
            None => continue,
        };
        let sh = w.shadow.entry(*id).or_default();
        let d = [p1.fee_owed_a.wrapping_sub(p0.fee_owed_a) as u128, p1.fee_owed_b.wrapping_sub(p0.fee_owed_b) as u128];
        let collected = p1.fee_owed_a < p0.fee_owed_a || p1.fee_owed_b < p0.fee_owed_b;
        if !collected {
            for k in 0..2 {
                if d[k] > 0 {
                    sh.fee_credited[k] += d[k];
                    sh.events += 1;
                    let have = big(sh.fee_credited[k]) * scale();
                    if have > sh.fee_hi[k] {
                        ctx.viol(format!(
                            "C07 position {} credited {} fees of token {} in total but its exact pro-rata share of in-range LP fees is {} (x 2^-128: {})",
                            id,
                            sh.fee_credited[k],
                            if k == 0 { "A" } else { "B" },
                            &sh.fee_hi[k] >> 128,
                            sh.fee_hi[k]
                        ));
                    }
                }
            }
        }
        for i in 0..3 {
            let a0 = p0.reward_infos[i].amount_owed;
            let a1 = p1.reward_infos[i].amount_owed;
            if a1 > a0 {
                sh.rew_credited[i] += (a1 - a0) as u128;
                let have = big(sh.rew_credited[i]) * scale();
                if have > sh.rew_hi[i] {
                    ctx.viol(format!(
                        "C11 position {} credited {} of reward {} in total but its exact pro-rata share of emissions is {} (x 2^-128: {})",
                        id,
                        sh.rew_credited[i],
                        i,
                        &sh.rew_hi[i] >> 128,
                        sh.rew_hi[i]
                    ));
                }
            }
        }
        // lower bound (bounded rounding) after a settlement of this position, in the loss-free regime
        let settled = !collected && ({ p1.fee_growth_checkpoint_a } != { p0.fee_growth_checkpoint_a } || { p1.fee_growth_checkpoint_b } != { p0.fee_growth_checkpoint_b } || d[0] > 0 || d[1] > 0);
        if settled && !sh.lossy {
            for k in 0..2 {
                let floor_share = &sh.fee_lo[k] >> 128;
                let slack = BigUint::from(sh.slack + sh.events as u128 + 2);
                if big(sh.fee_credited[k]) + &slack < floor_share {
                    ctx.viol(format!(
                        "C07 position {} was credited only {} fees of token {} although its exact share is {} (more than bounded rounding short)",
                        id,
                        sh.fee_credited[k],
                        if k == 0 { "A" } else { "B" },
                        floor_share
                    ));
                }
            }
        }
    }
}

/// C03 + C06 + per-step C02 on the trace of a successful swap, and fee shares for the shadow ledger
/// C10: reference traversal over the abstract set of initialized ticks.  Hook-free part: from the
/// pool and tick snapshots before / after; order and multiplicity: from the step trace.
fn c10_traversal(w: &World, dir: bool, pre: &Snapshot, ctx: &mut Ctx) {
    let post = w.wp();
    let pre_ticks: BTreeMap<i32, Tick> = pre.ticks.iter().cloned().collect();
    let post_ticks: BTreeMap<i32, Tick> = w.all_ticks().into_iter().collect();
    let (t0, t1) = (pre.wp.tick_current_index, post.tick_current_index);
    let mut expected: Vec<i32> = pre_ticks.keys().cloned().filter(|t| if dir { t1 < *t && *t <= t0 } else { t0 < *t && *t <= t1 }).collect();
    if dir {
        expected.reverse();
    }
    // liquidity = initial liquidity with every crossed tick's net applied exactly once
    let mut liq = pre.wp.liquidity as i128;
    for t in &expected {
        let net = pre_ticks[t].liquidity_net;
        liq = if dir { liq.wrapping_sub(net) } else { liq.wrapping_add(net) };
    }
    if liq as u128 != post.liquidity {
        ctx.viol(format!(
            "C10 after the swap (tick {} -> {}) the pool liquidity is {} but applying the liquidity_net of the initialized ticks in the path {:?} once each to {} gives {}",
            t0, t1, { post.liquidity }, expected, { pre.wp.liquidity }, liq as u128
        ));
    }
    if pre_ticks.keys().ne(post_ticks.keys()) {
        ctx.viol("C10 a swap changed the SET of initialized ticks".to_string());
        return;
    }
    for (t, a) in &pre_ticks {
        let b = &post_ticks[t];
        let crossed = expected.contains(t);
        let (a_net, a_gross, b_net, b_gross) = (a.liquidity_net, a.liquidity_gross, b.liquidity_net, b.liquidity_gross);
        if a_net != b_net || a_gross != b_gross {
            ctx.viol(format!("C10 a swap changed liquidity_net / liquidity_gross of tick {}", t));
        }
        // the token that is NOT the input keeps its global growth during the swap
        let (a_other, b_other, g_other) = if dir { (a.fee_growth_outside_b, b.fee_growth_outside_b, pre.wp.fee_growth_global_b) } else { (a.fee_growth_outside_a, b.fee_growth_outside_a, pre.wp.fee_growth_global_a) };
        let (a_in, b_in) = if dir { (a.fee_growth_outside_a, b.fee_growth_outside_a) } else { (a.fee_growth_outside_b, b.fee_growth_outside_b) };
        let (a_r, b_r) = (a.reward_growths_outside, b.reward_growths_outside);
        if crossed {
            if b_other != g_other.wrapping_sub(a_other) {
                ctx.viol(format!("C10 tick {} lies in the swap path but its fee_growth_outside of the output token was not flipped (global - outside)", t));
            }
            for i in 0..3 {
                let want = if post.reward_infos[i].initialized() { post.reward_infos[i].growth_global_x64.wrapping_sub(a_r[i]) } else { a_r[i] };
                if b_r[i] != want {
                    ctx.viol(format!("C10 tick {} lies in the swap path but reward_growths_outside[{}] was not flipped", t, i));
                }
            }
        } else if a_other != b_other || a_in != b_in || a_r != b_r {
            ctx.viol(format!("C10 tick {} does not lie in the swap path (tick {} -> {}) but its outside accumulators changed", t, t0, t1));
        }
    }
    // order and multiplicity from the step trace
    let from_trace: Vec<i32> = w
        .last_trace
        .iter()
        .filter(|s| (MIN_TICK_I..=MAX_TICK_I).contains(&s.next_tick_index) && s.next_price == ::whirlpool::math::sqrt_price_from_tick_index(s.next_tick_index) && pre_ticks.contains_key(&s.next_tick_index))
        .map(|s| s.next_tick_index)
        .collect();
    if from_trace != expected {
        ctx.viol(format!("C10 the swap loop crossed the initialized ticks {:?} but the initialized ticks between start and end are {:?} (in price order)", from_trace, expected));
    }
    if !expected.is_empty() {
        ctx.tag(if expected.len() > 1 { "c10_crossed_many" } else { "c10_crossed_one" });
    }
}
const MIN_TICK_I: i32 = -443636;
const MAX_TICK_I: i32 = 443636;

/// C14: independent re-computation of the adaptive-fee schedule from the pre-swap oracle state.
fn c14_adaptive(w: &World, dir: bool, pre: &Snapshot, ctx: &mut Ctx) {
    let info = match &pre.af {
        Some(i) => i.clone(),
        None => {
            // static pool: every step charged the static rate
            let fr = pre.wp.fee_rate as u32;
            for s in &w.last_trace {
                if s.fee_rate != fr {
                    ctx.viol(format!("C14 a static-fee pool charged rate {} in a step, static rate {}", s.fee_rate, fr));
                }
            }
            return;
        }
    };
    let c = info.constants;
    let v0 = info.variables;
    let now = w.now;
    let gs = c.tick_group_size as i64;
    let maxacc = c.max_volatility_accumulator as u128;
    let static_rate = pre.wp.fee_rate as u128;
    // reference after `update_reference` at the start of the swap (filter / decay / reset-after-3600s)
    let g0 = (pre.wp.tick_current_index as i64).div_euclid(gs);
    let max_ts = v0.last_reference_update_timestamp.max(v0.last_major_swap_timestamp);
    let (mut gref, mut vref, mut last_ref) = (v0.tick_group_index_reference as i64, v0.volatility_reference as u128, v0.last_reference_update_timestamp);
    if now - v0.last_reference_update_timestamp > 3600 {
        gref = g0;
        vref = 0;
        last_ref = now;
    } else {
        let elapsed = now - max_ts;
        if elapsed < c.filter_period as u64 {
        } else if elapsed < c.decay_period as u64 {
            gref = g0;
            vref = (v0.volatility_accumulator as u128) * (c.reduction_factor as u128) / 10000;
            last_ref = now;
        } else {
            gref = g0;
            vref = 0;
            last_ref = now;
        }
    }
    let acc_of = |g: i64| -> u128 { (vref + (gref - g).unsigned_abs() as u128 * 10000).min(maxacc) };
    let rate_of = |g: i64| -> u128 {
        let x = acc_of(g) * gs as u128;
        let num = c.adaptive_fee_control_factor as u128 * x * x;
        let den = 100_000u128 * 10_000 * 10_000;
        let adaptive = ((num + den - 1) / den).min(100_000);
        (static_rate + adaptive).min(100_000)
    };
    let price_at = |tick: i64| -> u128 { ::whirlpool::math::sqrt_price_from_tick_index(tick.clamp(MIN_TICK_I as i64, MAX_TICK_I as i64) as i32) };
    let mut adaptive_steps = 0;
    for s in &w.last_trace {
        let rate = s.fee_rate as u128;
        if rate > 100_000 || rate < static_rate {
            ctx.viol(format!("C14 step charged rate {} outside [static rate {}, 100000]", rate, static_rate));
        }
        let (lo, hi) = (s.sqrt_price_before.min(s.next_price), s.sqrt_price_before.max(s.next_price));
        let t_lo = ::whirlpool::math::tick_index_from_sqrt_price(&lo) as i64;
        let t_hi = ::whirlpool::math::tick_index_from_sqrt_price(&hi) as i64;
        let (g_lo, g_hi) = (t_lo.div_euclid(gs), t_hi.div_euclid(gs));
        if !s.skipped {
            // the whole step lies within ONE tick group and is charged that group's rate
            let ok = (g_lo - 1..=g_hi + 1).any(|g| price_at(g * gs) <= lo && hi <= price_at(g * gs + gs) && rate_of(g) == rate);
            if !ok {
                ctx.viol(format!(
                    "C14 step over prices [{}, {}] (tick groups {}..{}, reference group {}, reference volatility {}) charged rate {}, schedule says {:?}",
                    lo, hi, g_lo, g_hi, gref, vref, rate, (g_lo..=g_hi).map(|g| rate_of(g)).collect::<Vec<_>>()
                ));
            }
            if rate != static_rate {
                adaptive_steps += 1;
            }
        } else {
            // skipped range: the rate cannot change inside it; it must be the rate of every group touched
            let ok = (g_lo - 1..=g_hi + 1).any(|g| rate_of(g) == rate) && (g_lo + 1..g_hi).all(|g| rate_of(g) == rate || s.liquidity == 0);
            if !ok {
                ctx.viol(format!("C14 skipped step over tick groups {}..{} charged rate {}, schedule says {:?}", g_lo, g_hi, rate, (g_lo..=g_hi).take(8).map(|g| rate_of(g)).collect::<Vec<_>>()));
            }
        }
    }
    if adaptive_steps > 0 {
        ctx.tag("c14_adaptive_rate_steps");
    }
    // stored variables after the swap
    let v1 = match &w.af {
        Some(i) => i.variables,
        None => {
            ctx.viol("C14 adaptive fee info disappeared".to_string());
            return;
        }
    };
    let (v1_acc, v1_ref, v1_gref, v1_last_ref, v1_major) = (v1.volatility_accumulator as u128, v1.volatility_reference as u128, v1.tick_group_index_reference as i64, v1.last_reference_update_timestamp, v1.last_major_swap_timestamp);
    if v1_acc > maxacc || v1_ref > maxacc {
        ctx.viol(format!("C14 stored volatility accumulator {} / reference {} exceed the maximum {}", v1_acc, v1_ref, maxacc));
    }
    if w.last_trace.is_empty() {
        return;
    }
    if v1_ref != vref || v1_gref != gref || v1_last_ref != last_ref {
        ctx.viol(format!("C14 stored reference (group {}, volatility {}, updated {}) differs from the filter/decay/reset rules ({}, {}, {})", v1_gref, v1_ref, v1_last_ref, gref, vref, last_ref));
    }
    let post = w.wp();
    let g_end = (::whirlpool::math::tick_index_from_sqrt_price(&{ post.sqrt_price }) as i64).div_euclid(gs);
    let adj = if dir { g_end - 1 } else { g_end + 1 };
    let g_end_cur = (post.tick_current_index as i64).div_euclid(gs);
    // a price exactly on a group boundary is the end of BOTH neighbouring groups' closed price ranges
    let mut cands = vec![g_end, adj, g_end_cur];
    if post.sqrt_price == price_at(g_end * gs) {
        cands.push(g_end - 1);
    }
    if !cands.iter().any(|g| acc_of(*g) == v1_acc) {
        ctx.viol(format!("C14 stored accumulator {} is not the accumulator of the tick group where the swap ended ({} -> {}) or of the adjacent group in trade direction ({})", v1_acc, g_end, acc_of(g_end), acc_of(adj)));
    }
    // major swap timestamp
    let (plo, phi) = ({ pre.wp.sqrt_price }.min(post.sqrt_price), { pre.wp.sqrt_price }.max(post.sqrt_price));
    let factor = ::whirlpool::math::sqrt_price_from_tick_index(c.major_swap_threshold_ticks as i32);
    let target = (BigUint::from(plo) * BigUint::from(factor)) >> 64usize;
    let is_major = BigUint::from(phi) >= target;
    let want_major = if is_major { now } else { v0.last_major_swap_timestamp };
    if v1_major != want_major {
        ctx.viol(format!("C14 last_major_swap_timestamp is {} but the price moved {} -> {} (threshold {} ticks, major = {}), expected {}", v1_major, { pre.wp.sqrt_price }, { post.sqrt_price }, { c.major_swap_threshold_ticks }, is_major, want_major));
    }
    ctx.tag(if is_major { "c14_major_swap" } else { "c14_minor_swap" });
}

fn swap_oracles(w: &mut World, t: &[&str], pre: &Snapshot, ctx: &mut Ctx) {
    c10_traversal(w, t[5] == "1", pre, ctx);
    c14_adaptive(w, t[5] == "1", pre, ctx);
    let amount: u64 = t[2].parse().unwrap();
    let limit: u128 = t[3].parse().unwrap();
    let ein = t[4] == "1";
    let dir = t[5] == "1";
    let post = w.wp();
    let wp = &pre.wp;
    let adj = if limit == 0 { if dir { MIN_SQRT_PRICE_X64 } else { MAX_SQRT_PRICE_X64 } } else { limit };
    let trace = w.last_trace.clone();
    let sum_in: u128 = trace.iter().map(|s| s.amount_in as u128).sum();
    let sum_out: u128 = trace.iter().map(|s| s.amount_out as u128).sum();
    let sum_fee: u128 = trace.iter().map(|s| s.fee_amount as u128).sum();
    // amounts moved: from the vault deltas
    let paid = if dir { w.vault_a - w_pre_vault(w, dir, true) } else { w.vault_b - w_pre_vault(w, dir, true) };
    let _ = paid;
    let (p0, p1) = ({ wp.sqrt_price }, { post.sqrt_price });
    // C03: direction, bounds, limit
    if (dir && p1 > p0) || (!dir && p1 < p0) {
        ctx.viol(format!("C03 price moved against the trade direction: {} -> {} (a_to_b={})", p0, p1, dir));
    }
    if p1 < MIN_SQRT_PRICE_X64 || p1 > MAX_SQRT_PRICE_X64 {
        ctx.viol(format!("C03 final price {} outside the protocol bounds", p1));
    }
    if (dir && p1 < adj) || (!dir && p1 > adj) {
        ctx.viol(format!("C03 final price {} beyond the price limit {}", p1, adj));
    }
    let (in_total, out_total) = (sum_in + sum_fee, sum_out);
    let specified_used = if ein { in_total } else { out_total };
    if specified_used > amount as u128 {
        ctx.viol(format!("C03 swap used {} of the specified token, more than the specified {}", specified_used, amount));
    }
    if specified_used < amount as u128 && p1 != adj {
        ctx.viol(format!("C03 swap used only {} of {} but stopped at price {} which is not the limit {}", specified_used, amount, p1, adj));
    }
    if !ein && limit == 0 && out_total != amount as u128 {
        ctx.viol(format!("C03 exact-out swap without limit succeeded delivering {} of {}", out_total, amount));
    }
    // C06: what the implementation reported vs the trace
    let rep = w.last_swap_report;
    let (rep_in, rep_out) = if dir { (rep.0, rep.1) } else { (rep.1, rep.0) };
    if rep_in as u128 != in_total || rep_out as u128 != out_total {
        ctx.viol(format!("C06 trader pays {} / receives {} but the steps sum to in+fee {} / out {}", rep_in, rep_out, in_total, out_total));
    }
    if rep.2 as u128 + rep.3 as u128 != sum_fee {
        ctx.viol(format!("C06 lp_fee {} + protocol_fee {} != total fee {} of the steps", rep.2, rep.3, sum_fee));
    }
    let pr = wp.protocol_fee_rate as u128;
    let mut cut_sum: u128 = 0;
    let mut growth: u128 = 0;
    let cur_tick_pre = wp.tick_current_index;
    let _ = cur_tick_pre;
    for s in &trace {
        let cut = if pr > 0 { s.fee_amount as u128 * pr / 10_000 } else { 0 };
        cut_sum += cut;
        let lp = s.fee_amount as u128 - cut;
        if s.liquidity > 0 {
            growth = growth.wrapping_add((lp << 64) / s.liquidity);
            // shares of the positions in range during this step
            for (id, p) in &pre.positions {
                if p.liquidity > 0 && p.tick_lower_index <= s.tick_index_before && s.tick_index_before < p.tick_upper_index {
                    let sh = w.shadow.entry(*id).or_default();
                    let k = if dir { 0 } else { 1 };
                    let num = big(lp) * big(p.liquidity) * scale();
                    sh.fee_hi[k] += ceil_div(&num, &big(s.liquidity));
                    sh.fee_lo[k] += &num / &big(s.liquidity);
                    sh.events += 1;
                    // flooring the growth increment loses < 1 growth unit = liq / 2^64 tokens for this position
                    sh.slack += (p.liquidity >> 64) + 1;
                }
            }
        } else if s.fee_amount != 0 && s.amount_in != 0 {
            ctx.viol(format!("C06 step with zero liquidity took amount_in {} fee {}", s.amount_in, s.fee_amount));
        }
        // per-step C02 / fee clauses on the real step
        let o = StepOut { amount_in: s.amount_in, amount_out: s.amount_out, next: s.next_price, fee: s.fee_amount };
        step_oracle(s.amount_remaining_before, s.fee_rate, s.liquidity, s.sqrt_price_before, s.sqrt_price_target, ein, dir, &o, ctx);
    }
    if rep.3 as u128 != cut_sum {
        ctx.viol(format!("C06 protocol fee of the swap {} != sum of floor(fee*rate/1e4) = {}", rep.3, cut_sum));
    }
    let (g0, g1, o0, o1) = if dir {
        ({ wp.fee_growth_global_a }, { post.fee_growth_global_a }, { wp.protocol_fee_owed_a }, { post.protocol_fee_owed_a })
    } else {
        ({ wp.fee_growth_global_b }, { post.fee_growth_global_b }, { wp.protocol_fee_owed_b }, { post.protocol_fee_owed_b })
    };
    if g1.wrapping_sub(g0) != growth {
        ctx.viol(format!("C06 input-token fee growth advanced by {} but the LP shares of the steps give {}", g1.wrapping_sub(g0), growth));
    }
    if o1 as u128 != o0 as u128 + cut_sum {
        ctx.viol(format!("C06 protocol_fee_owed {} -> {} but the swap's protocol share is {}", o0, o1, cut_sum));
    }
    let (g0o, g1o) = if dir { ({ wp.fee_growth_global_b }, { post.fee_growth_global_b }) } else { ({ wp.fee_growth_global_a }, { post.fee_growth_global_a }) };
    if g0o != g1o {
        ctx.viol("C06 the output token's fee growth changed during a swap".to_string());
    }
    if trace.len() > 1 {
        ctx.tag("swap_multi_step");
    }
    if trace.iter().any(|s| s.next_price != s.sqrt_price_before && s.liquidity > 0) {
        ctx.tag("swap_moved_price");
    }
}

fn w_pre_vault(_w: &World, _dir: bool, _input: bool) -> u128 {
    0
}

/// C05: pool liquidity and every tick's net / gross / initialized recomputed from the positions
fn c05(w: &World, ctx: &mut Ctx) {
    let wp = w.wp();
    let cur = wp.tick_current_index;
    let poss: Vec<_> = w.positions.keys().map(|id| w.pos(*id).unwrap()).collect();
    let expect: u128 = poss.iter().filter(|p| p.tick_lower_index <= cur && cur < p.tick_upper_index).map(|p| p.liquidity).sum();
    if { wp.liquidity } != expect {
        ctx.viol(format!(
            "C05 pool liquidity {} != sum {} of positions covering tick_current_index {} (sqrt_price {})",
            { wp.liquidity },
            expect,
            cur,
            { wp.sqrt_price }
        ));
    }
    let mut want: std::collections::BTreeMap<i32, (i128, u128)> = Default::default();
    for p in &poss {
        if p.liquidity == 0 {
            continue;
        }
        let e = want.entry(p.tick_lower_index).or_insert((0, 0));
        e.0 += p.liquidity as i128;
        e.1 += p.liquidity;
        let e = want.entry(p.tick_upper_index).or_insert((0, 0));
        e.0 -= p.liquidity as i128;
        e.1 += p.liquidity;
    }
    let ticks = w.all_ticks();
    for (ti, t) in &ticks {
        let (net, gross) = want.get(ti).cloned().unwrap_or((0, 0));
        if { t.liquidity_net } != net || { t.liquidity_gross } != gross || t.initialized != (gross > 0) {
            ctx.viol(format!(
                "C05 tick {}: stored (net {}, gross {}, initialized {}) but positions give (net {}, gross {})",
                ti,
                { t.liquidity_net },
                { t.liquidity_gross },
                t.initialized,
                net,
                gross
            ));
        }
    }
    for (ti, (_, gross)) in &want {
        if *gross > 0 && !ticks.iter().any(|x| x.0 == *ti) {
            ctx.viol(format!("C05 tick {} bounds positions with gross {} but is not initialized", ti, gross));
        }
    }
}

/// C01: every position can be fully withdrawn, fees and protocol fees collected, in some order
/// (the order is rotated by the operation count) without a transfer failing for lack of funds.
fn c01_drain(w: &World, rot: usize, ctx: &mut Ctx) {
    let mut c = clone_world(w);
    let mut ids: Vec<u32> = c.positions.keys().cloned().collect();
    if !ids.is_empty() {
        let k = rot % ids.len();
        ids.rotate_left(k);
    }
    let proto_first = rot % 2 == 0;
    let mut bad = |what: String, ctx: &mut Ctx| ctx.viol(what);
    if proto_first {
        if let Err(e) = run_op(&mut c, "cproto", 0) {
            if e == "InsufficientFunds" {
                bad(format!("C01 drain: collect_protocol_fees fails for lack of funds (vaults {} {})", w.vault_a, w.vault_b), ctx);
                return;
            }
        }
    }
    for id in ids {
        let p = c.pos(id).unwrap();
        if p.liquidity > 0 {
            if let Err(e) = run_modify(&mut c, id, p.liquidity) {
                if e == "InsufficientFunds" {
                    bad(format!("C01 drain: withdrawing all liquidity {} of position {} fails for lack of funds", { p.liquidity }, id), ctx);
                    return;
                } else {
                    ctx.tag(&format!("drain_other_err_{}", e));
                }
            }
        }
        if let Err(e) = run_op(&mut c, "cfees", id) {
            if e == "InsufficientFunds" {
                bad(format!("C01 drain: collecting fees of position {} fails for lack of funds", id), ctx);
                return;
            }
        }
    }
    if !proto_first {
        if let Err(e) = run_op(&mut c, "cproto", 0) {
            if e == "InsufficientFunds" {
                bad("C01 drain: collect_protocol_fees (last) fails for lack of funds".to_string(), ctx);
            }
        }
    }
}

fn run_modify(c: &mut World, id: u32, liq: u128) -> Result<String, String> {
    c.modify_pub(id, liq, false, false)
}
fn run_op(c: &mut World, op: &str, id: u32) -> Result<String, String> {
    match op {
        "cproto" => c.collect_protocol_pub(),
        _ => c.collect_fees_pub(id),
    }
}

/// C13: a dynamic array's account length, as driven by the size updates the managers return, is
/// 148 + 112 x (initialized ticks); the rent units it holds cover its initialized ticks; no position
/// gives away more than the two units collected at open
fn c13_sizes(w: &World, ctx: &mut Ctx) {
    for (start, acc) in &w.arrays {
        if !acc.dynamic {
            if w.acct_len.get(start).map_or(false, |l| *l != 148) {
                ctx.viol(format!("C13 a size update was requested for the FIXED tick array at {}", start));
            }
            continue;
        }
        let d = acc.data.borrow();
        let n = u128::from_le_bytes(d[44..60].try_into().unwrap()).count_ones() as i64;
        let len = *w.acct_len.get(start).unwrap_or(&148);
        if len != 148 + 112 * n {
            ctx.viol(format!("C13 dynamic tick array at {}: account length driven by the size updates is {} but it holds {} initialized ticks (148 + 112 x {} = {})", start, len, n, n, 148 + 112 * n));
        }
        let rent = *w.array_rent.get(start).unwrap_or(&0);
        if rent < n {
            ctx.viol(format!("C13 dynamic tick array at {}: holds {} tick-rent units for {} initialized ticks", start, rent, n));
        }
    }
    for (id, r) in &w.pos_rent {
        if *r < 0 || *r > 2 {
            ctx.viol(format!("C13 position {} holds {} of its 2 tick-rent units", id, r));
        }
    }
}

pub fn after_op(w: &mut World, t: &[&str], res: &Result<String, String>, pre: &Snapshot, ctx: &mut Ctx) {
    if let Some(m) = w.c12_mismatch.take() {
        ctx.viol(m);
    }
    if res.is_err() {
        return;
    }
    c05(w, ctx);
    c13_sizes(w, ctx);
    if t[1] == "swap" || t[1] == "pswap" {
        swap_oracles(w, t, pre, ctx);
    }
    accrue_rewards(w, pre, ctx);
    check_position_credit(w, pre, ctx);
    if t[1] == "crew" {
        // C11 collect = min(owed, vault)
        let id: u32 = t[2].parse().unwrap();
        let i: usize = t[3].parse().unwrap();
        if let (Some(p0), Some(p1)) = (pre.positions.get(&id), w.pos(id)) {
            let owed = p0.reward_infos[i].amount_owed as u128;
            let paid: u128 = res.as_ref().unwrap().parse().unwrap_or(0);
            let vault_before = w.reward_vaults[i] + paid;
            if paid != owed.min(vault_before) || p1.reward_infos[i].amount_owed as u128 != owed - paid {
                ctx.viol(format!("C11 collect_reward paid {} of owed {} with vault {} and left {} owed", paid, owed, vault_before, { p1.reward_infos[i].amount_owed }));
            }
        }
    }
    let rot = ctx.stats.values().sum::<u64>() as usize;
    c01_drain(w, rot, ctx);
    match t[1] {
        "inc" | "dec" => {
            w.trader_a = 0;
            w.trader_b = 0;
        }
        "swap" | "pswap" => {
            if w.trader_a >= 0 && w.trader_b >= 0 && (w.trader_a > 0 || w.trader_b > 0) {
                ctx.viol(format!(
                    "C01 no-free-lunch: after swapping back and forth (no liquidity change in between) the trader is up {} A and {} B",
                    w.trader_a, w.trader_b
                ));
            }
        }
        _ => {}
    }
}
