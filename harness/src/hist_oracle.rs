//! Implementation-side oracles evaluated on the real state after every history operation.
use crate::hist::{ArrayAcc, World};
use crate::Ctx;
use std::cell::RefCell;

pub fn clone_world(w: &World) -> World {
    World {
        wp: w.wp.clone(),
        positions: w.positions.clone(),
        arrays: w.arrays.iter().map(|(k, a)| (*k, ArrayAcc { data: RefCell::new(a.data.borrow().clone()), dynamic: a.dynamic })).collect(),
        arrmode: w.arrmode,
        vault_a: w.vault_a,
        vault_b: w.vault_b,
        reward_vaults: w.reward_vaults,
        now: w.now,
        af: w.af.clone(),
        key: w.key,
        trader_a: w.trader_a,
        trader_b: w.trader_b,
    }
}

/// C05: pool liquidity and every tick's net / gross / initialized recomputed from the positions
fn c05(w: &World, ctx: &mut Ctx) {
    let wp = w.wp();
    let cur = wp.tick_current_index;
    let poss: Vec<_> = w.positions.keys().map(|id| w.pos(*id).unwrap()).collect();
    let expect: u128 = poss.iter().filter(|p| p.tick_lower_index <= cur && cur < p.tick_upper_index).map(|p| p.liquidity).sum();
    if { wp.liquidity } != expect {
        ctx.viol(format!(
            "C05 pool liquidity {} != sum {} of positions covering tick_current_index {} (sqrt_price {})",
            { wp.liquidity },
            expect,
            cur,
            { wp.sqrt_price }
        ));
    }
    let mut want: std::collections::BTreeMap<i32, (i128, u128)> = Default::default();
    for p in &poss {
        if p.liquidity == 0 {
            continue;
        }
        let e = want.entry(p.tick_lower_index).or_insert((0, 0));
        e.0 += p.liquidity as i128;
        e.1 += p.liquidity;
        let e = want.entry(p.tick_upper_index).or_insert((0, 0));
        e.0 -= p.liquidity as i128;
        e.1 += p.liquidity;
    }
    let ticks = w.all_ticks();
    for (ti, t) in &ticks {
        let (net, gross) = want.get(ti).cloned().unwrap_or((0, 0));
        if { t.liquidity_net } != net || { t.liquidity_gross } != gross || t.initialized != (gross > 0) {
            ctx.viol(format!(
                "C05 tick {}: stored (net {}, gross {}, initialized {}) but positions give (net {}, gross {})",
                ti,
                { t.liquidity_net },
                { t.liquidity_gross },
                t.initialized,
                net,
                gross
            ));
        }
    }
    for (ti, (_, gross)) in &want {
        if *gross > 0 && !ticks.iter().any(|x| x.0 == *ti) {
            ctx.viol(format!("C05 tick {} bounds positions with gross {} but is not initialized", ti, gross));
        }
    }
}

/// C01: every position can be fully withdrawn, fees and protocol fees collected, in some order
/// (the order is rotated by the operation count) without a transfer failing for lack of funds.
fn c01_drain(w: &World, rot: usize, ctx: &mut Ctx) {
    let mut c = clone_world(w);
    let mut ids: Vec<u32> = c.positions.keys().cloned().collect();
    if !ids.is_empty() {
        let k = rot % ids.len();
        ids.rotate_left(k);
    }
    let proto_first = rot % 2 == 0;
    let mut bad = |what: String, ctx: &mut Ctx| ctx.viol(what);
    if proto_first {
        if let Err(e) = run_op(&mut c, "cproto", 0) {
            if e == "InsufficientFunds" {
                bad(format!("C01 drain: collect_protocol_fees fails for lack of funds (vaults {} {})", w.vault_a, w.vault_b), ctx);
                return;
            }
        }
    }
    for id in ids {
        let p = c.pos(id).unwrap();
        if p.liquidity > 0 {
            if let Err(e) = run_modify(&mut c, id, p.liquidity) {
                if e == "InsufficientFunds" {
                    bad(format!("C01 drain: withdrawing all liquidity {} of position {} fails for lack of funds", { p.liquidity }, id), ctx);
                    return;
                } else {
                    ctx.tag(&format!("drain_other_err_{}", e));
                }
            }
        }
        if let Err(e) = run_op(&mut c, "cfees", id) {
            if e == "InsufficientFunds" {
                bad(format!("C01 drain: collecting fees of position {} fails for lack of funds", id), ctx);
                return;
            }
        }
    }
    if !proto_first {
        if let Err(e) = run_op(&mut c, "cproto", 0) {
            if e == "InsufficientFunds" {
                bad("C01 drain: collect_protocol_fees (last) fails for lack of funds".to_string(), ctx);
            }
        }
    }
}

fn run_modify(c: &mut World, id: u32, liq: u128) -> Result<String, String> {
    c.modify_pub(id, liq, false, false)
}
fn run_op(c: &mut World, op: &str, id: u32) -> Result<String, String> {
    match op {
        "cproto" => c.collect_protocol_pub(),
        _ => c.collect_fees_pub(id),
    }
}

pub fn after_op(w: &mut World, t: &[&str], res: &Result<String, String>, ctx: &mut Ctx) {
    if res.is_err() {
        return;
    }
    c05(w, ctx);
    let rot = ctx.stats.values().sum::<u64>() as usize;
    c01_drain(w, rot, ctx);
    match t[1] {
        "inc" | "dec" => {
            w.trader_a = 0;
            w.trader_b = 0;
        }
        "swap" => {
            if w.trader_a >= 0 && w.trader_b >= 0 && (w.trader_a > 0 || w.trader_b > 0) {
                ctx.viol(format!(
                    "C01 no-free-lunch: after swapping back and forth (no liquidity change in between) the trader is up {} A and {} B",
                    w.trader_a, w.trader_b
                ));
            }
        }
        _ => {}
    }
}
