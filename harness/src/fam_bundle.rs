//! C18 (last sentence), C04, C15 at instruction level: position bundles through the REAL entrypoint.
//!
//!   B xnew <ts>                          fresh world: a pool (price 1.0, spacing <ts>) and initialize_position_bundle
//!   B xopen <i> <lo> <hi> <auth> <ts>    open_bundled_position(i, lo, hi)   (ts repeats the pool's spacing for the model)
//!   B xclose <i> <auth> <dirty>          close_bundled_position(i); dirty: 0 as is · 1 liquidity 1 · 2 owed fee · 3 owed reward
//!   B xdel <auth>                        delete_position_bundle
//!
//! auth: 0 the bundle's owner signs · 1 a stranger signs · 2 the owner's key is passed but does not sign ·
//!       3 a one-token delegate signs (the token program's Approve ran before) — delete needs the owner itself ·
//!       4 the owner signs but passes the token account of ANOTHER bundle (another mint) it also holds.
//! The bundle account, its mint and the owner's associated token account are created by Anchor's `init` through
//! the system program, the REAL SPL Token processor and the associated-token stand-in; bundled positions are
//! created / closed by Anchor's `init` / `close`.  The world persists from op to op (it IS the history).
//! Model: the bitmap state machine `bundleUpdate` (theorems C18.bundle_*) + range resolution / validation.
//! Oracles: after every op the bundle's bitmap marks EXACTLY the bundled-position accounts that exist (all 256
//! addresses are probed), a bundled position belongs to the pool and the bundle's mint over the resolved range,
//! a non-empty position is not closed, the bundle is deleted only with an empty bitmap and then its token is burnt.
use crate::fam_math::toks;
use crate::fixture::k;
use crate::rng::*;
use crate::svm::{Bank, Meta};
use crate::{Ctx, Family};
use ::whirlpool::state::*;
use anchor_lang::prelude::Pubkey;
use anchor_lang::{AccountDeserialize, AccountSerialize, InstructionData, ToAccountMetas};
use std::cell::RefCell;

pub fn register(v: &mut Vec<Box<dyn Family>>) {
    v.push(Box::new(XBundle { w: RefCell::new(None), left: RefCell::new(0), gen_ts: RefCell::new(64) }));
}

struct BunWorld {
    bank: Bank,
    pool: Pubkey,
    ts: u16,
    bundle: Pubkey,
    mint: Pubkey,
    token: Pubkey,
    other_token: Pubkey,
    owner: Pubkey,
    funder: Pubkey,
    stranger: Pubkey,
    delegate: Pubkey,
    rent_id: Pubkey,
    deleted: bool,
    emptied: bool,
}

struct XBundle {
    w: RefCell<Option<BunWorld>>,
    left: RefCell<u32>,
    gen_ts: RefCell<u16>,
}

fn position_pda(mint: &Pubkey, i: u16) -> Pubkey {
    // every world uses the same bundle mint: the 256 in-range addresses are derived once
    static CACHE: std::sync::OnceLock<(Pubkey, Vec<Pubkey>)> = std::sync::OnceLock::new();
    let derive = |i: u16| Pubkey::find_program_address(&[b"bundled_position", mint.as_ref(), i.to_string().as_bytes()], &::whirlpool::ID).0;
    let c = CACHE.get_or_init(|| (*mint, (0..256u16).map(derive).collect()));
    if c.0 == *mint && i < 256 {
        c.1[i as usize]
    } else {
        derive(i)
    }
}

fn hexbits(b: &[u8]) -> String {
    b.iter().map(|x| format!("{:02x}", x)).collect()
}

impl BunWorld {
    fn new(ts: u16, with_metadata: bool) -> Result<BunWorld, String> {
        let pid = ::whirlpool::ID;
        let sysid = crate::svm::system_id();
        let mut bank = Bank::new(1_000_000);
        // a pool created at manager level (the instruction-level creation is family xinit)
        let cfg = k(0xE0, 1);
        let c = WhirlpoolsConfig { fee_authority: k(0xE8, 1), collect_protocol_fees_authority: k(0xE8, 2), reward_emissions_super_authority: k(0xE8, 3), default_protocol_fee_rate: 300, feature_flags: 0 };
        let mut d = vec![];
        c.try_serialize(&mut d).unwrap();
        d.resize(WhirlpoolsConfig::LEN, 0);
        bank.set(cfg, pid, 10_000_000, d);
        let pool = k(0xE1, 1);
        let mut wp = Whirlpool::default();
        wp.whirlpools_config = cfg;
        wp.tick_spacing = ts;
        wp.fee_tier_index_seed = ts.to_le_bytes();
        wp.fee_rate = 3000;
        wp.protocol_fee_rate = 300;
        wp.sqrt_price = 1u128 << 64;
        wp.tick_current_index = 0;
        wp.token_mint_a = k(0xE2, 1);
        wp.token_mint_b = k(0xE2, 2);
        wp.token_vault_a = k(0xE3, 1);
        wp.token_vault_b = k(0xE3, 2);
        let mut d = vec![];
        wp.try_serialize(&mut d).unwrap();
        d.resize(Whirlpool::LEN, 0);
        bank.set(pool, pid, 10_000_000, d);
        let (owner, funder, stranger, delegate) = (k(0xE4, 1), k(0xE4, 2), k(0xE4, 3), k(0xE4, 4));
        for kk in [owner, funder, stranger, delegate] {
            bank.set(kk, sysid, 100_000_000_000, vec![]);
        }
        bank.set_program(sysid);
        bank.set_program(anchor_spl::token::ID);
        bank.set_program(anchor_spl::associated_token::ID);
        let rent_id = anchor_lang::solana_program::sysvar::rent::ID;
        {
            let r = anchor_lang::solana_program::rent::Rent::default();
            let mut d = vec![];
            d.extend_from_slice(&r.lamports_per_byte_year.to_le_bytes());
            d.extend_from_slice(&r.exemption_threshold.to_le_bytes());
            d.push(r.burn_percent);
            bank.set(rent_id, anchor_lang::solana_program::sysvar::ID, 1_009_200, d);
        }
        let mint = k(0xE5, 1);
        let bundle = Pubkey::find_program_address(&[b"position_bundle", mint.as_ref()], &pid).0;
        let token = Pubkey::find_program_address(&[owner.as_ref(), anchor_spl::token::ID.as_ref(), mint.as_ref()], &anchor_spl::associated_token::ID).0;
        let meta_pid = anchor_spl::metadata::ID;
        let metadata_pda = Pubkey::find_program_address(&[b"metadata", meta_pid.as_ref(), mint.as_ref()], &meta_pid).0;
        let upd_auth = ::whirlpool::constants::nft::whirlpool_nft_update_auth::ID;
        let (metas, data): (Vec<Meta>, Vec<u8>) = if with_metadata {
            // initialize_position_bundle_with_metadata: the Metaplex program is the stand-in of svm.rs
            bank.set_program(meta_pid);
            bank.set(upd_auth, sysid, 1_000_000, vec![]);
            let acc = ::whirlpool::accounts::InitializePositionBundleWithMetadata {
                position_bundle: bundle,
                position_bundle_mint: mint,
                position_bundle_metadata: metadata_pda,
                position_bundle_token_account: token,
                position_bundle_owner: owner,
                funder,
                metadata_update_auth: upd_auth,
                token_program: anchor_spl::token::ID,
                system_program: sysid,
                rent: rent_id,
                associated_token_program: anchor_spl::associated_token::ID,
                metadata_program: meta_pid,
            };
            (acc.to_account_metas(None).iter().map(Meta::from).collect(), ::whirlpool::instruction::InitializePositionBundleWithMetadata {}.data())
        } else {
            let acc = ::whirlpool::accounts::InitializePositionBundle {
                position_bundle: bundle,
                position_bundle_mint: mint,
                position_bundle_token_account: token,
                position_bundle_owner: owner,
                funder,
                token_program: anchor_spl::token::ID,
                system_program: sysid,
                rent: rent_id,
                associated_token_program: anchor_spl::associated_token::ID,
            };
            (acc.to_account_metas(None).iter().map(Meta::from).collect(), ::whirlpool::instruction::InitializePositionBundle {}.data())
        };
        let (res, out) = bank.execute(&metas, &data);
        if with_metadata && res.is_ok() {
            let m = bank.get(&metadata_pda);
            if m.owner != meta_pid || m.data.len() < 65 || m.data[1..33] != upd_auth.to_bytes() || m.data[33..65] != mint.to_bytes() {
                return Err("C18/C15 the bundle's metadata account is missing, for another mint, or without the program's update authority".to_string());
            }
        }
        if let Err(e) = res {
            return Err(format!("{} / {}", crate::ix::err_name(&e, &out.logs), out.logs.join(" / ")));
        }
        // the created bundle records ITS mint (every later instruction finds the bundle through it) and is empty
        match PositionBundle::try_deserialize(&mut &bank.data(&bundle)[..]) {
            Ok(pb) if pb.position_bundle_mint == mint && pb.position_bitmap.iter().all(|b| *b == 0) => {}
            _ => return Err("C18/C15 the created position bundle does not record its mint with an empty bitmap".to_string()),
        }
        // the owner also holds the token of ANOTHER bundle (another mint): auth mode 4 passes that account instead
        let (omint, otoken) = (k(0xE5, 2), k(0xE6, 2));
        let m = bank.data(&mint);
        bank.set(omint, anchor_spl::token::ID, 1_500_000, m);
        let mut td = bank.data(&token);
        td[0..32].copy_from_slice(omint.as_ref());
        bank.set(otoken, anchor_spl::token::ID, 2_100_000, td);
        Ok(BunWorld { bank, pool, ts, bundle, mint, token, other_token: otoken, owner, funder, stranger, delegate, rent_id, deleted: false, emptied: false })
    }

    fn bitmap(&self) -> Option<[u8; 32]> {
        let a = self.bank.get(&self.bundle);
        if a.owner != ::whirlpool::ID {
            return None;
        }
        PositionBundle::try_deserialize(&mut &a.data[..]).ok().map(|b| b.position_bitmap)
    }

    /// the bitmap marks exactly the bundled-position accounts that exist
    fn check_exactness(&self, ctx: &mut Ctx) {
        let bm = match self.bitmap() {
            Some(b) => b,
            None => {
                // a deleted bundle: no bundled position may be left behind
                for i in 0..256u16 {
                    let a = self.bank.get(&position_pda(&self.mint, i));
                    if a.owner == ::whirlpool::ID && !a.data.is_empty() {
                        ctx.viol(format!("C18 bundled position {} outlives its deleted bundle", i));
                    }
                }
                return;
            }
        };
        for i in 0..256u16 {
            let a = self.bank.get(&position_pda(&self.mint, i));
            let exists = a.owner == ::whirlpool::ID && !a.data.is_empty();
            let bit = bm[(i / 8) as usize] & (1 << (i % 8)) != 0;
            if exists != bit {
                ctx.viol(format!("C18 bundle bitmap bit {} is {} but the bundled position account {}", i, bit as u8, if exists { "exists" } else { "does not exist" }));
            }
            if exists {
                match Position::try_deserialize(&mut &a.data[..]) {
                    Ok(p) => {
                        if p.whirlpool != self.pool || p.position_mint != self.mint {
                            ctx.viol(format!("C18/C15 bundled position {} does not name its pool and the bundle's mint", i));
                        }
                    }
                    Err(_) => ctx.viol(format!("C18 bundled position {} does not deserialize", i)),
                }
            }
        }
    }

    fn state_suffix(&self) -> String {
        match self.bitmap() {
            Some(b) => format!("{} {}", hexbits(&b), if b.iter().all(|x| *x == 0) { 1 } else { 0 }),
            None => "gone".to_string(),
        }
    }

    /// the signer slot for an auth mode; mode 3 first lets the real token program approve a one-token delegate
    fn signer(&mut self, auth: u8) -> (Pubkey, bool) {
        match auth {
            1 => (self.stranger, true),
            2 => (self.owner, false),
            3 => {
                let a = self.bank.get(&self.token);
                if a.owner == anchor_spl::token::ID && a.data.len() == 165 {
                    // delegate = Some(delegate), delegated_amount = 1 (what spl-token's Approve(1) by the owner records)
                    let mut d = a.data.clone();
                    d[72..76].copy_from_slice(&1u32.to_le_bytes());
                    d[76..108].copy_from_slice(self.delegate.as_ref());
                    d[121..129].copy_from_slice(&1u64.to_le_bytes());
                    self.bank.set(self.token, a.owner, a.lamports, d);
                }
                (self.delegate, true)
            }
            6 => {
                // the owner signs, but the account of the bundle mint he passes holds NO token (amount 0)
                let a = self.bank.get(&self.token);
                if a.owner == anchor_spl::token::ID && a.data.len() == 165 {
                    let mut d = a.data.clone();
                    d[64..72].copy_from_slice(&0u64.to_le_bytes());
                    self.bank.set(self.token, a.owner, a.lamports, d);
                    self.emptied = true;
                }
                (self.owner, true)
            }
            _ => (self.owner, true),
        }
    }
    /// auth mode 4 (C15): the token account of ANOTHER bundle, held by the same owner, sits in the token slot
    fn token_slot(&self, auth: u8) -> Pubkey {
        if auth == 4 {
            self.other_token
        } else {
            self.token
        }
    }
    fn clear_delegate(&mut self) {
        let a = self.bank.get(&self.token);
        if a.owner == anchor_spl::token::ID && a.data.len() == 165 {
            let mut d = a.data.clone();
            if self.emptied {
                d[64..72].copy_from_slice(&1u64.to_le_bytes());
                self.emptied = false;
            }
            d[72..76].copy_from_slice(&0u32.to_le_bytes());
            d[76..108].copy_from_slice(&[0u8; 32]);
            d[121..129].copy_from_slice(&0u64.to_le_bytes());
            self.bank.set(self.token, a.owner, a.lamports, d);
        }
    }
}

impl Family for XBundle {
    fn name(&self) -> &'static str {
        "xbun"
    }
    fn gen(&self, r: &mut Rng, _idx: u64) -> String {
        let mut left = self.left.borrow_mut();
        // the generator looks at the world the previous ops left behind
        let (gone, open): (bool, Vec<u64>) = match &*self.w.borrow() {
            Some(w) if !w.deleted => match w.bitmap() {
                Some(bm) => (false, (0..256u64).filter(|i| bm[(*i / 8) as usize] & (1 << (*i % 8)) != 0).collect()),
                None => (true, vec![]),
            },
            _ => (true, vec![]),
        };
        if *left == 0 || gone {
            *left = 15 + r.below(50) as u32;
            let ts = r.pick(&[1u16, 8, 64, 64, 64, 128, 32896]);
            *self.gen_ts.borrow_mut() = ts;
            return format!("B {} {}", if r.chance(1, 3) { "xnewm" } else { "xnew" }, ts);
        }
        *left -= 1;
        let ts = *self.gen_ts.borrow() as i64;
        let auth = r.pick(&[0u8, 0, 0, 0, 0, 0, 0, 0, 1, 2, 3, 3, 4, 6]);
        let pick_index = |r: &mut Rng, want_open: bool| -> u64 {
            match r.below(8) {
                0 => r.pick(&[0u64, 1, 7, 8, 9, 63, 64, 254, 255, 256, 257, 65535]),
                1..=5 if want_open && !open.is_empty() => r.pick(&open),
                _ => r.below(24),
            }
        };
        match r.below(20) {
            0..=10 => {
                let wo = r.chance(1, 8);
                let i = pick_index(r, wo);
                let auth = if auth == 0 && r.chance(1, 12) { 5 } else { auth };
                let (lo, hi) = if ts >= 32768 {
                    if r.chance(3, 4) {
                        (-427648i64, 427648i64)
                    } else {
                        (-(ts), ts)
                    }
                } else {
                    match r.below(10) {
                        0 => (i32::MIN as i64, r.pick(&[ts, 10 * ts, -ts])),
                        1 => (r.pick(&[-ts, -10 * ts, ts]), i32::MAX as i64),
                        2 => (ts, ts),
                        3 => (2 * ts, -2 * ts),
                        4 => (-ts + if ts > 1 { 1 } else { 0 }, ts),
                        _ => (-ts * (1 + r.below(20) as i64), ts * (1 + r.below(20) as i64)),
                    }
                };
format!("B xopen {} {} {} {} {} {}", i, lo, hi, auth, ts, if r.chance(1, 10) { 1 } else { 0 })
            }
            11..=17 => {
                let i = pick_index(r, true);
                let dirty = r.pick(&[0u8, 0, 0, 0, 0, 0, 1, 2, 3]);
                format!("B xclose {} {} {}", i, auth, dirty)
            }
            _ => format!("B xdel {}", auth),
        }
    }
    fn run(&self, line: &str, ctx: &mut Ctx) -> String {
        match std::panic::catch_unwind(std::panic::AssertUnwindSafe(|| self.run_inner(line, ctx))) {
            Ok(s) => s,
            Err(_) => "err HarnessPanic".to_string(),
        }
    }
}

impl XBundle {
    fn run_inner(&self, line: &str, ctx: &mut Ctx) -> String {
        let t = toks(line);
        let mut slot = self.w.borrow_mut();
        if t[1] == "xnew" || t[1] == "xnewm" {
            let ts: u16 = t[2].parse().unwrap();
            return match BunWorld::new(ts, t[1] == "xnewm") {
                Ok(w) => {
                    // the bundle token: supply 1, no mint authority, one token with the owner
                    let m = w.bank.data(&w.mint);
                    let tk = w.bank.data(&w.token);
                    if m.len() != 82 || m[0..4] != [0, 0, 0, 0] || m[36..44] != 1u64.to_le_bytes() || m[44] != 0 {
                        ctx.viol("C18 the bundle mint does not have supply 1, decimals 0 and no mint authority".to_string());
                    }
                    if tk.len() != 165 || tk[0..32] != w.mint.to_bytes() || tk[32..64] != w.owner.to_bytes() || tk[64..72] != 1u64.to_le_bytes() {
                        ctx.viol("C18 the bundle owner's token account does not hold the one bundle token".to_string());
                    }
                    w.check_exactness(ctx);
                    let s = format!("ok {}", w.state_suffix());
                    *slot = Some(w);
                    ctx.tag("new");
                    s
                }
                Err(e) => {
                    ctx.viol(format!("initialize_position_bundle failed on a fresh world: {}", e));
                    *slot = None;
                    "err".to_string()
                }
            };
        }
        let w = match slot.as_mut() {
            Some(w) => w,
            None => return "err NoWorld".to_string(),
        };
        if w.deleted {
            return "err Deleted".to_string();
        }
        let sysid = crate::svm::system_id();
        let out_line;
        match t[1] {
            "xopen" => {
                let i: u16 = t[2].parse().unwrap();
                let (lo, hi): (i64, i64) = (t[3].parse().unwrap(), t[4].parse().unwrap());
                let auth: u8 = t[5].parse().unwrap();
                let (signer_key, signs) = w.signer(auth);
                // auth mode 5 (C15): the account offered is the bundled-position address of ANOTHER index
                let acc = ::whirlpool::accounts::OpenBundledPosition {
                    bundled_position: position_pda(&w.mint, if auth == 5 { (i % 256 + 1) % 256 } else { i }),
                    position_bundle: w.bundle,
                    position_bundle_token_account: w.token_slot(auth),
                    position_bundle_authority: signer_key,
                    whirlpool: w.pool,
                    funder: w.funder,
                    system_program: sysid,
                    rent: w.rent_id,
                };
                let mut metas: Vec<Meta> = acc.to_account_metas(None).iter().map(Meta::from).collect();
                if !signs {
                    for m in metas.iter_mut() {
                        if m.key == signer_key {
                            m.signer = false;
                        }
                    }
                }
                let data = ::whirlpool::instruction::OpenBundledPosition { bundle_index: i, tick_lower_index: lo as i32, tick_upper_index: hi as i32 }.data();
                // 7th token (optional): for this instruction the pool REQUIRES non-transferable positions (control flag): a bundled
                // position, which has no token of its own, must be refused
                let nt = t.get(7).map_or(false, |x| *x == "1");
                let pool_before = w.bank.get(&w.pool);
                if nt {
                    let mut wp = Whirlpool::try_deserialize(&mut &pool_before.data[..]).unwrap();
                    wp.reward_infos[1].extension = WhirlpoolExtensionSegmentPrimary::new(WhirlpoolControlFlags::REQUIRE_NON_TRANSFERABLE_POSITION).to_bytes();
                    wp.reward_infos[2].extension = [0u8; 32];
                    let mut d = vec![];
                    wp.try_serialize(&mut d).unwrap();
                    d.resize(Whirlpool::LEN, 0);
                    w.bank.set(w.pool, pool_before.owner, pool_before.lamports, d);
                }
                let before = w.bank.clone();
                let bm0 = w.bitmap().unwrap();
                let (res, out) = w.bank.execute(&metas, &data);
                match res {
                    Ok(()) => {
                        ctx.nontrivial(&format!("{}{}", line, w.state_suffix()));
                        ctx.tag("open_ok");
                        if auth == 1 || auth == 2 {
                            ctx.viol(format!("C04 open_bundled_position succeeded without the bundle owner's (or a delegate's) signature (mode {})", auth));
                        }
                        if nt {
                            ctx.viol("C18 open_bundled_position succeeded on a pool that requires non-transferable positions".to_string());
                        }
                        if auth == 4 {
                            ctx.viol("C15/C04 open_bundled_position accepted the token of ANOTHER bundle as this bundle's token".to_string());
                        }
                        if auth == 6 {
                            ctx.viol("C04 open_bundled_position accepted a signer whose account of the bundle mint holds NO token".to_string());
                        }
                        if auth == 5 {
                            ctx.viol("C15/C18 open_bundled_position created the position at the address of another bundle index".to_string());
                        }
                        let bm1 = w.bitmap().unwrap();
                        let mut want = bm0;
                        if i < 256 {
                            want[(i / 8) as usize] |= 1 << (i % 8);
                        }
                        if i >= 256 || bm0[(i / 8) as usize] & (1 << (i % 8)) != 0 || bm1 != want {
                            ctx.viol(format!("C18 open_bundled_position({}) did not set exactly the unset bit {}", i, i));
                        }
                        let p = Position::try_deserialize(&mut &w.bank.data(&position_pda(&w.mint, i))[..]).unwrap();
                        let ts = w.ts as i32;
                        let usable = |x: i32| x % ts == 0 && (-443636..=443636).contains(&x);
                        if !(p.tick_lower_index < p.tick_upper_index && usable(p.tick_lower_index) && usable(p.tick_upper_index)) || p.liquidity != 0 {
                            ctx.viol(format!("C18 the bundled position was opened over [{}, {}) with liquidity {}", p.tick_lower_index, p.tick_upper_index, p.liquidity));
                        }
                        if w.ts >= 32768 && !(p.tick_lower_index == -427648 && p.tick_upper_index == 427648) {
                            ctx.viol("C18 a bundled position of a full-range-only pool is not full range".to_string());
                        }
                        // the opener pre-pays the rent of the two ticks the position may initialise in dynamic tick arrays
                        let want_l = solana_program::rent::Rent::default().minimum_balance(216) + 2 * crate::ix::TICK_RENT;
                        let got_l = w.bank.get(&position_pda(&w.mint, i)).lamports;
                        if got_l < want_l {
                            ctx.viol(format!("C13 the opened bundled position holds {} lamports, less than rent exemption + the rent of two ticks ({}): with dynamic tick arrays its first deposit cannot pay for its ticks, with fixed arrays it can", got_l, want_l));
                        }
                        out_line = format!("ok {} {} {}", p.tick_lower_index, p.tick_upper_index, w.state_suffix());
                    }
                    Err(e) => {
                        // (the delegate approval of mode 3 is part of the experiment's set-up, not of the instruction)
                        let mut cmp = before.clone();
                        cmp.accts.insert(w.token, w.bank.get(&w.token));
                        if w.bank.accts != cmp.accts {
                            ctx.viol("a failed open_bundled_position changed account state".to_string());
                        }
                        ctx.tag("open_err");
                        out_line = format!("err {} {}", crate::ix::err_name(&e, &out.logs), w.state_suffix());
                    }
                }
                if nt {
                    w.bank.set(w.pool, pool_before.owner, pool_before.lamports, pool_before.data.clone());
                }
                w.clear_delegate();
            }
            "xclose" => {
                let i: u16 = t[2].parse().unwrap();
                let auth: u8 = t[3].parse().unwrap();
                let dirty: u8 = t[4].parse().unwrap();
                let pda = position_pda(&w.mint, i);
                let pa = w.bank.get(&pda);
                let exists = pa.owner == ::whirlpool::ID && !pa.data.is_empty();
                let mut made_dirty = false;
                if exists && dirty != 0 {
                    let mut p = Position::try_deserialize(&mut &pa.data[..]).unwrap();
                    match dirty {
                        1 => p.liquidity = 1,
                        2 => p.fee_owed_a = 1,
                        _ => p.reward_infos[1].amount_owed = 1,
                    }
                    let mut d = vec![];
                    p.try_serialize(&mut d).unwrap();
                    d.resize(pa.data.len(), 0);
                    w.bank.set(pda, pa.owner, pa.lamports, d);
                    made_dirty = true;
                }
                let (signer_key, signs) = w.signer(auth);
                let acc = ::whirlpool::accounts::CloseBundledPosition {
                    bundled_position: pda,
                    position_bundle: w.bundle,
                    position_bundle_token_account: w.token_slot(auth),
                    position_bundle_authority: signer_key,
                    receiver: w.funder,
                };
                let mut metas: Vec<Meta> = acc.to_account_metas(None).iter().map(Meta::from).collect();
                if !signs {
                    for m in metas.iter_mut() {
                        if m.key == signer_key {
                            m.signer = false;
                        }
                    }
                }
                let data = ::whirlpool::instruction::CloseBundledPosition { bundle_index: i }.data();
                let before = w.bank.clone();
                let bm0 = w.bitmap().unwrap();
                let (res, out) = w.bank.execute(&metas, &data);
                match res {
                    Ok(()) => {
                        ctx.nontrivial(&format!("{}{}", line, w.state_suffix()));
                        ctx.tag("close_ok");
                        if auth == 1 || auth == 2 {
                            ctx.viol(format!("C04 close_bundled_position succeeded without the bundle owner's (or a delegate's) signature (mode {})", auth));
                        }
                        if auth == 4 {
                            ctx.viol("C15/C04 close_bundled_position accepted the token of ANOTHER bundle as this bundle's token".to_string());
                        }
                        if auth == 6 {
                            ctx.viol("C04 close_bundled_position accepted a signer whose account of the bundle mint holds NO token".to_string());
                        }
                        if made_dirty {
                            ctx.viol(format!("C18 a bundled position that is not empty (case {}) was closed", dirty));
                        }
                        let bm1 = w.bitmap().unwrap();
                        let mut want = bm0;
                        if i < 256 {
                            want[(i / 8) as usize] &= !(1 << (i % 8));
                        }
                        if i >= 256 || bm0[(i / 8) as usize] & (1 << (i % 8)) == 0 || bm1 != want {
                            ctx.viol(format!("C18 close_bundled_position({}) did not clear exactly the set bit {}", i, i));
                        }
                        out_line = format!("ok {}", w.state_suffix());
                    }
                    Err(e) => {
                        let mut cmp = before.clone();
                        cmp.accts.insert(w.token, w.bank.get(&w.token));
                        if w.bank.accts != cmp.accts {
                            ctx.viol("a failed close_bundled_position changed account state".to_string());
                        }
                        ctx.tag("close_err");
                        // the experiment's own modification is undone
                        if made_dirty {
                            w.bank.set(pda, pa.owner, pa.lamports, pa.data.clone());
                        }
                        out_line = format!("err {} {}", crate::ix::err_name(&e, &out.logs), w.state_suffix());
                    }
                }
                w.clear_delegate();
            }
            "xdel" => {
                let auth: u8 = t[2].parse().unwrap();
                let (signer_key, signs) = w.signer(auth);
                let acc = ::whirlpool::accounts::DeletePositionBundle {
                    position_bundle: w.bundle,
                    position_bundle_mint: w.mint,
                    position_bundle_token_account: w.token_slot(auth),
                    position_bundle_owner: signer_key,
                    receiver: w.funder,
                    token_program: anchor_spl::token::ID,
                };
                let mut metas: Vec<Meta> = acc.to_account_metas(None).iter().map(Meta::from).collect();
                if !signs {
                    for m in metas.iter_mut() {
                        if m.key == signer_key {
                            m.signer = false;
                        }
                    }
                }
                let data = ::whirlpool::instruction::DeletePositionBundle {}.data();
                let before = w.bank.clone();
                let bm0 = w.bitmap().unwrap();
                let (res, out) = w.bank.execute(&metas, &data);
                match res {
                    Ok(()) => {
                        ctx.nontrivial(&format!("{}{}", line, hexbits(&bm0)));
                        ctx.tag("del_ok");
                        if auth != 0 {
                            ctx.viol(format!("C04 delete_position_bundle succeeded without the bundle owner's signature (mode {})", auth));
                        }
                        if bm0.iter().any(|x| *x != 0) {
                            ctx.viol("C18 a position bundle with open bundled positions was deleted".to_string());
                        }
                        if w.bitmap().is_some() {
                            ctx.viol("delete_position_bundle succeeded but the bundle account is still there".to_string());
                        }
                        let m = w.bank.data(&w.mint);
                        if m.len() == 82 && m[36..44] != 0u64.to_le_bytes() {
                            ctx.viol("C18 the bundle was deleted but its token was not burnt".to_string());
                        }
                        w.deleted = true;
                        out_line = "ok gone".to_string();
                    }
                    Err(e) => {
                        let mut cmp = before.clone();
                        cmp.accts.insert(w.token, w.bank.get(&w.token));
                        if w.bank.accts != cmp.accts {
                            ctx.viol("a failed delete_position_bundle changed account state".to_string());
                        }
                        ctx.tag("del_err");
                        out_line = format!("err {} {}", crate::ix::err_name(&e, &out.logs), w.state_suffix());
                    }
                }
                w.clear_delegate();
            }
            _ => return "bad-op".to_string(),
        }
        w.check_exactness(ctx);
        out_line
    }
}
