//! C20: the Rust core SDK (rust-sdk/core, also the TypeScript SDK's WASM core) against the program.
//! The SDK crate is linked as is; only `ethnum` is replaced by the vendored stand-in (see DESIGN.md).
//!
//!   sda p1 p2 liq up     try_get_amount_delta_a           vs program get_amount_delta_a
//!   sdb p1 p2 liq up     try_get_amount_delta_b           vs program get_amount_delta_b
//!   sna p liq amt in     try_get_next_sqrt_price_from_a   vs program get_next_sqrt_price(.., a_to_b = in)
//!   snb p liq amt in     try_get_next_sqrt_price_from_b   vs program get_next_sqrt_price(.., a_to_b = !in)
//!   stp tick             tick_index_to_sqrt_price         vs program sqrt_price_from_tick_index
//!   spt price            sqrt_price_to_tick_index         vs program tick_index_from_sqrt_price
//!   slp amt bps max      try_get_max/min_amount_with_slippage_tolerance (safe side)
//! The output line is the SDK's answer (compared with the Lean model of the SDK function); the
//! comparison with the program is the property oracle.
use crate::fam_math::{b, p128, p64, pb, toks};
use crate::rng::*;
use crate::{Ctx, Family};
use ::whirlpool::math::*;
use orca_whirlpools_core as sdk;

pub fn register(v: &mut Vec<Box<dyn Family>>) {
    v.push(Box::new(SdkMath));
    v.push(Box::new(SdkTicks));
    v.push(Box::new(SdkAf));
}

fn guard<T, F: FnOnce() -> Result<T, String> + std::panic::UnwindSafe>(f: F) -> Result<T, String> {
    match std::panic::catch_unwind(f) {
        Ok(r) => r,
        Err(_) => Err("Panic".to_string()),
    }
}

struct SdkMath;
impl Family for SdkMath {
    fn name(&self) -> &'static str {
        "sdkmath"
    }
    fn gen(&self, r: &mut Rng, _idx: u64) -> String {
        match r.below(6) {
            0 | 1 => {
                let (p1, p2) = (r.sqrt_price(), r.sqrt_price());
                let p2 = if r.chance(1, 8) { p1 } else { p2 };
                format!("{} {} {} {} {}", if r.chance(1, 2) { "sda" } else { "sdb" }, p1, p2, r.liquidity(), b(r.chance(1, 2)))
            }
            2 | 3 => {
                let p = r.sqrt_price();
                let liq = r.liquidity();
                let amt = match r.below(4) {
                    0 => r.u64_amount(),
                    _ => {
                        // an amount that moves the price a few ticks
                        let t = tick_index_from_sqrt_price(&p);
                        let p1 = sqrt_price_from_tick_index((t + r.range_i(-300, 300) as i32).clamp(MIN_TICK, MAX_TICK));
                        match try_get_amount_delta_a(p, p1, liq, true) {
                            Ok(AmountDeltaU64::Valid(v)) => v,
                            _ => r.u64_amount(),
                        }
                    }
                };
                format!("{} {} {} {} {}", if r.chance(1, 2) { "sna" } else { "snb" }, p, liq, amt, b(r.chance(1, 2)))
            }
            4 if r.chance(1, 2) => {
                // token estimates for a liquidity amount over a tick range
                let (mut tl, mut tu) = (r.tick(), r.tick());
                if r.chance(1, 4) {
                    // both bounds at the same end of the tick range (large or tiny prices)
                    let base = if r.chance(1, 2) { MAX_TICK - 5000 } else { MIN_TICK };
                    tl = base + r.below(5000) as i32;
                    tu = base + r.below(5001) as i32;
                }
                if tl > tu {
                    std::mem::swap(&mut tl, &mut tu);
                }
                if tl == tu {
                    tu = (tl + 1).min(MAX_TICK);
                    tl = tu - 1;
                }
                let price = match r.below(4) {
                    0 => sqrt_price_from_tick_index(tl),
                    1 => sqrt_price_from_tick_index(tu),
                    2 => sqrt_price_from_tick_index(((tl as i64 + tu as i64) / 2) as i32) + r.below(1000) as u128,
                    _ => r.sqrt_price(),
                };
                format!("sle {} {} {} {} {}", r.liquidity(), price, tl, tu, b(r.chance(1, 2)))
            }
            4 if r.chance(1, 2) => {
                // the quote functions' transfer-fee arithmetic
                let bps = match r.below(5) {
                    0 => r.pick(&[0u64, 1, 2, 9998, 9999, 10000, 10001, 65535]),
                    1 => r.pick(&[50u64, 100, 300, 999, 1000, 2500, 5000, 7500]),
                    _ => r.below(10001),
                };
                let max = match r.below(5) {
                    0 => r.pick(&[0u64, 1, 2, u64::MAX, u64::MAX - 1, u64::MAX / 2]),
                    1 => r.pick(&[5000u64, 1_000_000, 1_000_000_000]),
                    _ => r.u64_amount(),
                };
                let amt = match r.below(5) {
                    0 => r.pick(&[0u64, 1, 2, 9999, 10000, 10001, u64::MAX, u64::MAX - 1]),
                    1 if bps > 0 => ((max as u128 * 10000 / bps as u128).min(u64::MAX as u128) as u64).saturating_add(r.pick(&[0u64, 1, 2])).saturating_sub(1),
                    _ => r.u64_amount(),
                };
                format!("{} {} {} {}", if r.chance(1, 2) { "stf" } else { "srf" }, amt, bps, max)
            }
            4 => format!("spt {}", r.sqrt_price()),
            _ => format!("slp {} {} {}", r.u64_amount(), r.pick(&[0u64, 1, 50, 100, 9999, 10000, 10001, 65535]), b(r.chance(1, 2))),
        }
    }
    fn run(&self, line: &str, ctx: &mut Ctx) -> String {
        let t = toks(line);
        match t[0] {
            "sda" | "sdb" => {
                let (p1, p2, liq, up) = (p128(t[1]), p128(t[2]), p128(t[3]), pb(t[4]));
                let is_a = t[0] == "sda";
                let s = guard(move || if is_a { sdk::try_get_amount_delta_a(p1, p2, liq, up) } else { sdk::try_get_amount_delta_b(p1, p2, liq, up) }.map_err(|e| e.to_string()));
                let p = guard(move || if is_a { get_amount_delta_a(p1, p2, liq, up) } else { get_amount_delta_b(p1, p2, liq, up) }.map_err(|e| format!("{:?}", e)));
                match (&p, &s) {
                    (Ok(pv), Ok(sv)) => {
                        if pv != sv {
                            ctx.viol(format!("C20 {}: program {} but SDK {}", t[0], pv, sv));
                        }
                        ctx.tag("both-ok");
                        ctx.nontrivial(line);
                    }
                    (Ok(pv), Err(e)) => ctx.viol(format!("C20 {}: program returns {} but the SDK fails ({})", t[0], pv, e)),
                    (Err(pe), Ok(sv)) => {
                        ctx.viol(format!("C20 {}: program rejects the input ({}) but the SDK returns {}", t[0], pe, sv));
                        ctx.tag("program-err-sdk-ok");
                    }
                    (Err(_), Err(_)) => ctx.tag("both-err"),
                }
                match s {
                    Ok(v) => format!("ok {}", v),
                    Err(e) => format!("err {}", if e == "Panic" { "Panic" } else { "sdk" }),
                }
            }
            "sna" | "snb" => {
                let (p, liq, amt, inp) = (p128(t[1]), p128(t[2]), p64(t[3]), pb(t[4]));
                let is_a = t[0] == "sna";
                let s = guard(move || if is_a { sdk::try_get_next_sqrt_price_from_a(p, liq, amt, inp) } else { sdk::try_get_next_sqrt_price_from_b(p, liq, amt, inp) }.map_err(|e| e.to_string()));
                // program: token A is the specified token: input when a_to_b, output when b_to_a
                let a_to_b = if is_a { inp } else { !inp };
                let pr = guard(move || get_next_sqrt_price(p, liq, amt, inp, a_to_b).map_err(|e| format!("{:?}", e)));
                match (&pr, &s) {
                    (Ok(pv), Ok(sv)) => {
                        if pv != sv {
                            ctx.viol(format!("C20 {}: program next price {} but SDK {}", t[0], pv, sv));
                        }
                        ctx.tag("both-ok");
                        ctx.nontrivial(line);
                    }
                    (Ok(pv), Err(e)) => {
                        // the SDK additionally refuses prices outside the protocol bounds, which the
                        // program's swap step can only produce transiently (it clamps to the target)
                        if (MIN_SQRT_PRICE_X64..=MAX_SQRT_PRICE_X64).contains(pv) {
                            ctx.viol(format!("C20 {}: program returns {} but the SDK fails ({})", t[0], pv, e));
                        }
                        ctx.tag("program-ok-sdk-err");
                    }
                    (Err(pe), Ok(sv)) => {
                        // only inputs the program rejects AS OVERFLOWING must be rejected by the SDK
                        // (zero liquidity with a zero amount is a DivideByZero in the program only)
                        if pe.contains("Overflow") {
                            ctx.viol(format!("C20 {}: program rejects the input ({}) but the SDK returns {}", t[0], pe, sv));
                        }
                        ctx.tag("program-err-sdk-ok");
                    }
                    (Err(_), Err(_)) => ctx.tag("both-err"),
                }
                match s {
                    Ok(v) => format!("ok {}", v),
                    Err(e) => format!("err {}", if e == "Panic" { "Panic" } else { "sdk" }),
                }
            }
            "sle" => {
                let (liq, price, tl, tu, up) = (p128(t[1]), p128(t[2]), t[3].parse::<i32>().unwrap(), t[4].parse::<i32>().unwrap(), pb(t[5]));
                let s = guard(move || sdk::try_get_token_estimates_from_liquidity(liq, price, tl, tu, up).map_err(|e| e.to_string()));
                // the program's calculate_liquidity_token_deltas at the tick of that price
                let pr: Result<(u64, u64), String> = guard(move || {
                    if liq == 0 {
                        return Ok((0, 0));
                    }
                    let cur = tick_index_from_sqrt_price(&price);
                    let (lp, upp) = (sqrt_price_from_tick_index(tl), sqrt_price_from_tick_index(tu));
                    let e = |x: ::whirlpool::errors::ErrorCode| format!("{:?}", x);
                    if cur < tl {
                        Ok((get_amount_delta_a(lp, upp, liq, up).map_err(e)?, 0))
                    } else if cur < tu {
                        Ok((get_amount_delta_a(price, upp, liq, up).map_err(e)?, get_amount_delta_b(lp, price, liq, up).map_err(e)?))
                    } else {
                        Ok((0, get_amount_delta_b(lp, upp, liq, up).map_err(e)?))
                    }
                });
                match (&pr, &s) {
                    (Ok(pv), Ok(sv)) => {
                        if pv != sv {
                            ctx.viol(format!("C20 token estimates for liquidity {} over [{}, {}] at price {}: program {:?}, SDK {:?}", liq, tl, tu, price, pv, sv));
                        }
                        ctx.tag("both-ok");
                        ctx.nontrivial(line);
                    }
                    (Ok(pv), Err(e)) => ctx.viol(format!("C20 token estimates: program returns {:?} but the SDK fails ({})", pv, e)),
                    (Err(pe), Ok(sv)) => {
                        ctx.viol(format!("C20 token estimates for liquidity {} over [{}, {}]: program rejects the input ({}) but the SDK returns {:?}", liq, tl, tu, pe, sv));
                        ctx.tag("program-err-sdk-ok");
                    }
                    (Err(_), Err(_)) => ctx.tag("both-err"),
                }
                match s {
                    Ok(v) => format!("ok {} {}", v.0, v.1),
                    Err(e) => format!("err {}", if e == "Panic" { "Panic" } else { "sdk" }),
                }
            }
            "stf" | "srf" => {
                let (amt, bps, max) = (p64(t[1]), t[2].parse::<u16>().unwrap(), p64(t[3]));
                let rev = t[0] == "srf";
                let tf = sdk::TransferFee { fee_bps: bps, max_fee: max };
                let s = guard(move || if rev { sdk::try_reverse_apply_transfer_fee(amt, tf) } else { sdk::try_apply_transfer_fee(amt, tf) }.map_err(|e| e.to_string()));
                // exact oracle: fee(y) = min(ceil(y * bps / 10^4), max); apply = y - fee(y); reverse = the least y whose
                // fee-reduced value reaches the amount
                let fee = |y: u128| -> u128 { if bps == 0 || y == 0 { 0 } else { ((y * bps as u128 + 9999) / 10000).min(max as u128) } };
                if bps <= 10000 {
                    match &s {
                        Ok(v) => {
                            let v = *v as u128;
                            if !rev && v != amt as u128 - fee(amt as u128) {
                                ctx.viol(format!("C20/C16 SDK apply_transfer_fee({}, {} bps, max {}) = {}; amount - fee = {}", amt, bps, max, v, amt as u128 - fee(amt as u128)));
                            }
                            if rev && (v - fee(v) < amt as u128 || (v > 0 && amt > 0 && (v - 1) - fee(v - 1) >= amt as u128)) {
                                ctx.viol(format!("C20/C16 SDK reverse_apply_transfer_fee({}, {} bps, max {}) = {} is not the least amount whose fee-reduced value reaches it", amt, bps, max, v));
                            }
                            ctx.nontrivial(line);
                        }
                        Err(e) => {
                            if !rev {
                                ctx.viol(format!("C20/C16 SDK apply_transfer_fee fails ({}) on a valid fee", e));
                            }
                        }
                    }
                } else if s.is_ok() {
                    ctx.viol("C20/C16 the SDK accepts a transfer fee above 100 %".to_string());
                }
                ctx.tag(t[0]);
                match s {
                    Ok(v) => format!("ok {}", v),
                    Err(e) => format!("err {}", if e == "Panic" { "Panic" } else { "sdk" }),
                }
            }
            "spt" => {
                let p = p128(t[1]);
                let s = guard(move || Ok(sdk::sqrt_price_to_tick_index(p)));
                let pr = tick_index_from_sqrt_price(&p);
                if s != Ok(pr) {
                    ctx.viol(format!("C20 sqrt_price_to_tick_index({}) = {:?}, program {}", p, s, pr));
                }
                ctx.tag("spt");
                ctx.nontrivial(line);
                match s {
                    Ok(v) => format!("ok {}", v),
                    Err(_) => "err Panic".to_string(),
                }
            }
            "slp" => {
                let (amt, bps, max) = (p64(t[1]), t[2].parse::<u16>().unwrap(), pb(t[3]));
                let s = guard(move || if max { sdk::try_get_max_amount_with_slippage_tolerance(amt, bps) } else { sdk::try_get_min_amount_with_slippage_tolerance(amt, bps) }.map_err(|e| e.to_string()));
                if let Ok(v) = &s {
                    // safe side: max >= estimate, min <= estimate, and within the tolerance (exact arithmetic)
                    let exact_num = amt as u128 * if max { 10000 + bps as u128 } else { 10000u128.saturating_sub(bps as u128) };
                    if max && ((*v as u128) < amt as u128 || (*v as u128) * 10000 < exact_num.min(u64::MAX as u128 * 10000)) {
                        ctx.viol(format!("C20 max amount with {} bps slippage of {} is {}: below estimate x (1 + tolerance)", bps, amt, v));
                    }
                    if !max && ((*v as u128) > amt as u128 || (*v as u128) * 10000 > exact_num) {
                        ctx.viol(format!("C20 min amount with {} bps slippage of {} is {}: above estimate x (1 - tolerance)", bps, amt, v));
                    }
                    ctx.nontrivial(line);
                }
                ctx.tag("slp");
                match s {
                    Ok(v) => format!("ok {}", v),
                    Err(e) => format!("err {}", if e == "Panic" { "Panic" } else { "sdk" }),
                }
            }
            _ => "bad-op".to_string(),
        }
    }
}

/// every tick: tick_index_to_sqrt_price and sqrt_price_to_tick_index at and just below each tick price
struct SdkTicks;
impl Family for SdkTicks {
    fn name(&self) -> &'static str {
        "sdkticks"
    }
    fn exhaustive(&self) -> Option<u64> {
        Some((MAX_TICK - MIN_TICK + 1) as u64)
    }
    fn gen(&self, _r: &mut Rng, idx: u64) -> String {
        format!("stp {}", MIN_TICK + idx as i32)
    }
    fn run(&self, line: &str, ctx: &mut Ctx) -> String {
        let t = toks(line);
        let tick: i32 = t[1].parse().unwrap();
        let s: u128 = sdk::tick_index_to_sqrt_price(tick);
        let p = sqrt_price_from_tick_index(tick);
        if s != p {
            ctx.viol(format!("C20 tick_index_to_sqrt_price({}) = {}, program {}", tick, s, p));
        }
        let back = sdk::sqrt_price_to_tick_index(p);
        let below = if tick > MIN_TICK { sdk::sqrt_price_to_tick_index(p - 1) } else { tick - 1 };
        if back != tick || below != tick - 1 {
            ctx.viol(format!("C20 sqrt_price_to_tick_index around tick {}: at the tick price {}, one below {}", tick, back, below));
        }
        format!("ok {}", s)
    }
}


// ------------------------------------------------------------------------------------------------
// C20 / C14: the adaptive-fee variable rules of the SDK (AdaptiveFeeVariablesFacade) against the program's
// (state::AdaptiveFeeVariables), function by function, over all elapsed-time classes:
//   sdkaf cur now fp dp rf cf mx gs mj lr lm vr gr va g2 pre post
// update_reference(group(cur), now) ; update_volatility_accumulator(g2) ; update_major_swap_timestamp(pre, post, now)
// The output line is the PROGRAM's result (compared with the Lean model); SDK != program is the oracle.
// ------------------------------------------------------------------------------------------------
struct SdkAf;
impl Family for SdkAf {
    fn name(&self) -> &'static str {
        "sdkaf"
    }
    fn gen(&self, r: &mut Rng, _idx: u64) -> String {
        let ts = r.pick(&[1u64, 2, 8, 64, 128, 256, 32896]);
        let divisors: Vec<u64> = (1..=ts).filter(|d| ts % d == 0).collect();
        let gs = r.pick(&divisors);
        let fp = r.pick(&[1u64, 10, 30, 60, 300, 65534]);
        let dp = (fp + r.pick(&[1u64, 30, 600, 3000, 7200])).min(65535);
        let rf = r.pick(&[0u64, 1, 500, 5000, 9000, 9999]);
        let cf = r.pick(&[0u64, 1, 1000, 4000, 40000, 99999]);
        let mx = match r.below(4) {
            0 => (u32::MAX as u64) / gs,
            1 => r.pick(&[0u64, 1, 9999, 10000, 10001]),
            _ => r.pick(&[50_000u64, 350_000, 1_000_000]).min((u32::MAX as u64) / gs),
        };
        let mj = 1 + r.below((ts * 88).min(65535));
        let cur = r.tick() as i64;
        let now = 10_000 + r.below(1 << 32);
        let g0 = cur.div_euclid(gs as i64);
        let va = if mx == 0 { 0 } else { r.below(mx + 1) };
        let vr = if va == 0 { 0 } else { r.below(va + 1) };
        let ages = [0u64, 1, 9, 10, 29, 30, 59, 60, 299, 300, 301, 3599, 3600, 3601, 7000, 100000];
        let lr = now.saturating_sub(r.pick(&ages));
        let lm = if r.chance(1, 30) { now + r.below(100) } else { now.saturating_sub(r.pick(&ages)) };
        let glo = (MIN_TICK as i64).div_euclid(gs as i64);
        let ghi = (MAX_TICK as i64).div_euclid(gs as i64);
        let gr = (g0 + r.pick(&[0i64, 0, 1, -1, 2, -2, 5, -5, 40, -40, 1000, -1000])).clamp(glo, ghi);
        let g2 = (g0 + r.pick(&[0i64, 1, -1, 3, -3, 50, -50, 5000, -5000])).clamp(glo, ghi);
        let pre = sqrt_price_from_tick_index(cur as i32);
        let post = if r.chance(1, 3) { r.sqrt_price() } else { sqrt_price_from_tick_index((cur + r.range_i(-(mj as i64) - 2, mj as i64 + 2)).clamp(MIN_TICK as i64, MAX_TICK as i64) as i32) };
        format!("sdkaf {} {} {} {} {} {} {} {} {} {} {} {} {} {} {} {} {}", cur, now, fp, dp, rf, cf, mx, gs, mj, lr, lm, vr, gr, va, g2, pre, post)
    }
    fn run(&self, line: &str, ctx: &mut Ctx) -> String {
        use ::whirlpool::state::{AdaptiveFeeConstants, AdaptiveFeeVariables};
        let t = toks(line);
        let cur: i64 = t[1].parse().unwrap();
        let now = p64(t[2]);
        let c = AdaptiveFeeConstants {
            filter_period: t[3].parse().unwrap(),
            decay_period: t[4].parse().unwrap(),
            reduction_factor: t[5].parse().unwrap(),
            adaptive_fee_control_factor: t[6].parse().unwrap(),
            max_volatility_accumulator: t[7].parse().unwrap(),
            tick_group_size: t[8].parse().unwrap(),
            major_swap_threshold_ticks: t[9].parse().unwrap(),
            ..Default::default()
        };
        let mut v = AdaptiveFeeVariables {
            last_reference_update_timestamp: p64(t[10]),
            last_major_swap_timestamp: p64(t[11]),
            volatility_reference: t[12].parse().unwrap(),
            tick_group_index_reference: t[13].parse().unwrap(),
            volatility_accumulator: t[14].parse().unwrap(),
            ..Default::default()
        };
        let sc = sdk::AdaptiveFeeConstantsFacade {
            filter_period: c.filter_period,
            decay_period: c.decay_period,
            reduction_factor: c.reduction_factor,
            adaptive_fee_control_factor: c.adaptive_fee_control_factor,
            max_volatility_accumulator: c.max_volatility_accumulator,
            tick_group_size: c.tick_group_size,
            major_swap_threshold_ticks: c.major_swap_threshold_ticks,
        };
        let mut sv = sdk::AdaptiveFeeVariablesFacade {
            last_reference_update_timestamp: v.last_reference_update_timestamp,
            last_major_swap_timestamp: v.last_major_swap_timestamp,
            volatility_reference: v.volatility_reference,
            tick_group_index_reference: v.tick_group_index_reference,
            volatility_accumulator: v.volatility_accumulator,
        };
        let g1 = cur.div_euclid(c.tick_group_size as i64) as i32;
        let g2: i32 = t[15].parse().unwrap();
        let (pre, post) = (p128(t[16]), p128(t[17]));
        let name = |e: anchor_lang::error::Error| match e {
            anchor_lang::error::Error::AnchorError(a) => a.error_name.clone(),
            anchor_lang::error::Error::ProgramError(p) => format!("ProgramError({:?})", p.program_error),
        };
        // program
        let prog: Result<(), String> = (|| {
            v.update_reference(g1, now, &c).map_err(name)?;
            v.update_volatility_accumulator(g2, &c).map_err(name)?;
            v.update_major_swap_timestamp(pre, post, now, &c).map_err(name)?;
            Ok(())
        })();
        // SDK
        let sdk_res: Result<(), String> = guard(std::panic::AssertUnwindSafe(|| {
            sv.update_reference(g1, now, &sc).map_err(|e| e.to_string())?;
            sv.update_volatility_accumulator(g2, &sc);
            sv.update_major_swap_timestamp(pre, post, now, &sc);
            Ok(())
        }));
        match (&prog, &sdk_res) {
            (Ok(()), Ok(())) => {
                let same = { v.last_reference_update_timestamp } == sv.last_reference_update_timestamp
                    && { v.last_major_swap_timestamp } == sv.last_major_swap_timestamp
                    && { v.volatility_reference } == sv.volatility_reference
                    && { v.tick_group_index_reference } == sv.tick_group_index_reference
                    && { v.volatility_accumulator } == sv.volatility_accumulator;
                if !same {
                    ctx.viol(format!(
                        "C20 adaptive-fee variables after update_reference / accumulator / major-swap: program ({}, {}, {}, {}, {}) but SDK ({}, {}, {}, {}, {})",
                        { v.last_reference_update_timestamp }, { v.last_major_swap_timestamp }, { v.volatility_reference }, { v.tick_group_index_reference }, { v.volatility_accumulator },
                        sv.last_reference_update_timestamp, sv.last_major_swap_timestamp, sv.volatility_reference, sv.tick_group_index_reference, sv.volatility_accumulator
                    ));
                }
                ctx.tag("both_ok");
                let age = now.saturating_sub(p64(t[10]));
                ctx.tag(if age > 3600 { "age_reset" } else { "age_young" });
                if p64(t[11]) > p64(t[10]) {
                    ctx.tag("major_newer_than_reference");
                }
                ctx.nontrivial(line);
            }
            (Ok(()), Err(e)) => ctx.viol(format!("C20 the program updates the adaptive-fee variables but the SDK fails with {}", e)),
            (Err(e), Ok(())) if e == "InvalidTimestamp" => ctx.viol("C20 the program rejects the timestamp but the SDK accepts it".to_string()),
            (Err(_), _) => ctx.tag("program_err"),
        }
        match prog {
            Ok(()) => format!("ok {} {} {} {} {}", { v.last_reference_update_timestamp }, { v.last_major_swap_timestamp }, { v.volatility_reference }, { v.tick_group_index_reference }, { v.volatility_accumulator }),
            Err(e) => format!("err {}", e),
        }
    }
}
