//! Builds a runnable account set (svm::Bank) for a pool state of the history harness: whirlpool PDA,
//! tick arrays at their PDAs, oracle PDA, mints (SPL Token or Token-2022 with an optional transfer
//! fee), vaults and a trader with token accounts.
use crate::hist::World;
use crate::svm::{system_id, Bank, Meta};
use ::whirlpool::state::*;
use anchor_lang::prelude::Pubkey;
use anchor_lang::{AccountDeserialize, AccountSerialize, Discriminator};
use solana_program::program_option::COption;
use solana_program::program_pack::Pack;

#[derive(Clone, Copy, Debug, PartialEq)]
pub struct FeeCfg {
    pub bps: u16,
    pub max_fee: u64,
    /// the (bps, max) that applies only from a later epoch on (must NOT be used)
    pub newer_from_future: Option<(u16, u64)>,
}

#[derive(Clone)]
pub struct Fx {
    pub bank: Bank,
    pub pool: Pubkey,
    pub mint_a: Pubkey,
    pub mint_b: Pubkey,
    pub vault_a: Pubkey,
    pub vault_b: Pubkey,
    pub trader: Pubkey,
    pub trader_a: Pubkey,
    pub trader_b: Pubkey,
    pub prog_a: Pubkey,
    pub prog_b: Pubkey,
    pub oracle: Pubkey,
    pub ts: u16,
}

pub fn k(tag: u8, n: u8) -> Pubkey {
    let mut b = [tag; 32];
    b[0] = n;
    Pubkey::new_from_array(b)
}

pub fn tick_array_pda(pool: &Pubkey, start: i32) -> Pubkey {
    Pubkey::find_program_address(&[b"tick_array", pool.as_ref(), start.to_string().as_bytes()], &::whirlpool::ID).0
}

/// SPL-Token / Token-2022 mint account data
pub fn mint_data(token2022: bool, decimals: u8, fee: Option<FeeCfg>, epoch: u64) -> Vec<u8> {
    let base = anchor_spl::token::spl_token::state::Mint { mint_authority: COption::None, supply: u64::MAX / 2, decimals, is_initialized: true, freeze_authority: COption::None };
    let mut d = vec![0u8; 82];
    anchor_spl::token::spl_token::state::Mint::pack(base, &mut d).unwrap();
    if !token2022 {
        return d;
    }
    // Token-2022: base padded to 165, account type 1 (Mint), then TLV
    d.resize(165, 0);
    d.push(1);
    if let Some(f) = fee {
        // TransferFeeConfig (type 1, length 108): authority 32, withdraw authority 32, withheld u64,
        // older {epoch u64, max u64, bps u16}, newer {epoch u64, max u64, bps u16}
        d.extend_from_slice(&1u16.to_le_bytes());
        d.extend_from_slice(&108u16.to_le_bytes());
        d.extend_from_slice(&[0u8; 32]);
        d.extend_from_slice(&[0u8; 32]);
        d.extend_from_slice(&0u64.to_le_bytes());
        let (older, newer) = match f.newer_from_future {
            // the fee in force is the OLDER one; the newer one starts in a future epoch
            Some((nb, nm)) => ((0u64, f.max_fee, f.bps), (epoch + 1, nm, nb)),
            // the fee in force is the NEWER one (epoch already reached); the older one is stale
            None => ((0u64, f.max_fee / 2, f.bps / 2), (epoch, f.max_fee, f.bps)),
        };
        for (e, m, b) in [older, newer] {
            d.extend_from_slice(&e.to_le_bytes());
            d.extend_from_slice(&m.to_le_bytes());
            d.extend_from_slice(&b.to_le_bytes());
        }
    }
    d
}

pub fn token_account_data(token2022: bool, mint: &Pubkey, owner: &Pubkey, amount: u64, with_fee_ext: bool) -> Vec<u8> {
    let base = anchor_spl::token::spl_token::state::Account {
        mint: *mint,
        owner: *owner,
        amount,
        delegate: COption::None,
        state: anchor_spl::token::spl_token::state::AccountState::Initialized,
        is_native: COption::None,
        delegated_amount: 0,
        close_authority: COption::None,
    };
    let mut d = vec![0u8; 165];
    anchor_spl::token::spl_token::state::Account::pack(base, &mut d).unwrap();
    if token2022 {
        d.push(2); // account type: Account
        if with_fee_ext {
            // TransferFeeAmount (type 2, length 8): withheld amount
            d.extend_from_slice(&2u16.to_le_bytes());
            d.extend_from_slice(&8u16.to_le_bytes());
            d.extend_from_slice(&0u64.to_le_bytes());
        }
    }
    d
}

pub fn token_amount(data: &[u8]) -> u64 {
    u64::from_le_bytes(data[64..72].try_into().unwrap())
}
/// fees withheld in a Token-2022 account (TransferFeeAmount extension directly after the type byte)
pub fn withheld(data: &[u8]) -> u64 {
    if data.len() >= 166 + 4 + 8 && data[166..168] == 2u16.to_le_bytes() {
        u64::from_le_bytes(data[170..178].try_into().unwrap())
    } else {
        0
    }
}

/// description of one mint of a fixture
#[derive(Clone, Copy, Debug)]
pub struct MintCfg {
    pub key: Pubkey,
    pub token2022: bool,
    pub fee: Option<FeeCfg>,
    pub decimals: u8,
}
impl MintCfg {
    pub fn program(&self) -> Pubkey {
        if self.token2022 || self.fee.is_some() {
            anchor_spl::token_2022::ID
        } else {
            anchor_spl::token::ID
        }
    }
    pub fn is22(&self) -> bool {
        self.token2022 || self.fee.is_some()
    }
}

pub fn trader_key() -> Pubkey {
    k(0x51, 1)
}
/// the trader's token account for a mint
pub fn trader_account(mint: &Pubkey) -> Pubkey {
    let mut b = mint.to_bytes();
    b[31] ^= 0x5a;
    b[30] = 0x52;
    Pubkey::new_from_array(b)
}

/// mints, the trader and the trader's token accounts
pub fn add_token_side(bank: &mut Bank, mints: &[MintCfg], trader_funds: u64) {
    let trader = trader_key();
    bank.set(trader, system_id(), 1_000_000_000, vec![]);
    for m in mints {
        bank.set(m.key, m.program(), 1_000_000, mint_data(m.is22(), m.decimals, m.fee, bank.epoch));
        bank.set(trader_account(&m.key), m.program(), 2_000_000, token_account_data(m.is22(), &m.key, &trader, trader_funds, m.fee.is_some()));
    }
    bank.set_program(anchor_spl::token::ID);
    bank.set_program(anchor_spl::token_2022::ID);
    bank.set_program(anchor_spl::memo::ID);
}

impl Fx {
    /// `fee_a` / `fee_b`: Some => that mint is a Token-2022 mint with a transfer fee
    pub fn from_world(w: &World, fee_a: Option<FeeCfg>, fee_b: Option<FeeCfg>, t22_a: bool, t22_b: bool, trader_funds: u64) -> Fx {
        let ma = MintCfg { key: k(0x31, 1), token2022: t22_a, fee: fee_a, decimals: 6 };
        let mb = MintCfg { key: k(0x32, 2), token2022: t22_b, fee: fee_b, decimals: 9 };
        let mut fx = Fx::pool_only(w, &ma, &mb, 0, Bank::new(w.now as i64));
        add_token_side(&mut fx.bank, &[ma, mb], trader_funds);
        fx
    }

    /// the pool-side accounts (whirlpool PDA, tick arrays, oracle, vaults) added to `bank`
    pub fn pool_only(w: &World, ma: &MintCfg, mb: &MintCfg, tag: u8, mut bank: Bank) -> Fx {
        let wp0 = w.wp();
        let ts = wp0.tick_spacing;
        let config = k(0x21, 1 + tag);
        let (mint_a, mint_b) = (ma.key, mb.key);
        let seed = if w.af.is_some() { ts.wrapping_add(1024).to_le_bytes() } else { ts.to_le_bytes() };
        let (pool, bump) = Pubkey::find_program_address(&[b"whirlpool", config.as_ref(), mint_a.as_ref(), mint_b.as_ref(), &seed], &::whirlpool::ID);
        let (vault_a, vault_b) = (k(0x41 + 4 * tag, 1), k(0x42 + 4 * tag, 2));
        let trader = trader_key();
        let (trader_a, trader_b) = (trader_account(&mint_a), trader_account(&mint_b));
        let (prog_a, prog_b) = (ma.program(), mb.program());
        // whirlpool
        let mut wp = wp0;
        wp.whirlpools_config = config;
        wp.whirlpool_bump = [bump];
        wp.fee_tier_index_seed = seed;
        wp.token_mint_a = mint_a;
        wp.token_mint_b = mint_b;
        wp.token_vault_a = vault_a;
        wp.token_vault_b = vault_b;
        let mut d = vec![];
        wp.try_serialize(&mut d).unwrap();
        bank.set(pool, ::whirlpool::ID, 10_000_000, d);
        // tick arrays (re-keyed to the PDA pool)
        for (start, acc) in &w.arrays {
            let mut data = acc.data.borrow().clone();
            if acc.dynamic {
                data[12..44].copy_from_slice(pool.as_ref());
                let n = u128::from_le_bytes(data[44..60].try_into().unwrap()).count_ones() as usize;
                data.truncate(148 + 112 * n);
            } else {
                let n = data.len();
                data[n - 32..].copy_from_slice(pool.as_ref());
            }
            bank.set(tick_array_pda(&pool, *start), ::whirlpool::ID, 100_000_000, data);
        }
        // oracle
        let oracle = Pubkey::find_program_address(&[b"oracle", pool.as_ref()], &::whirlpool::ID).0;
        if let Some(info) = &w.af {
            let mut o: Oracle = unsafe { std::mem::zeroed() };
            o.whirlpool = pool;
            o.trade_enable_timestamp = 0;
            o.adaptive_fee_constants = info.constants;
            o.adaptive_fee_variables = info.variables;
            let mut data = Oracle::DISCRIMINATOR.to_vec();
            data.extend_from_slice(bytemuck::bytes_of(&o));
            bank.set(oracle, ::whirlpool::ID, 10_000_000, data);
        }
        let cap = |x: u128| x.min(u64::MAX as u128 / 4) as u64;
        bank.set(vault_a, prog_a, 2_000_000, token_account_data(ma.is22(), &mint_a, &pool, cap(w.vault_a), ma.fee.is_some()));
        bank.set(vault_b, prog_b, 2_000_000, token_account_data(mb.is22(), &mint_b, &pool, cap(w.vault_b), mb.fee.is_some()));
        Fx { bank, pool, mint_a, mint_b, vault_a, vault_b, trader, trader_a, trader_b, prog_a, prog_b, oracle, ts }
    }

    pub fn wp(&self) -> Whirlpool {
        Whirlpool::try_deserialize(&mut &self.bank.data(&self.pool)[..]).unwrap()
    }

    /// the three tick arrays `swap` / `swap_v2` name, for the current price and direction
    pub fn swap_arrays(&self, a_to_b: bool) -> [Pubkey; 3] {
        let wp = self.wp();
        let tia = 88 * wp.tick_spacing as i32;
        let cur = wp.tick_current_index;
        let base = cur.div_euclid(tia) * tia;
        let first = if a_to_b || cur + (wp.tick_spacing as i32) < base + tia { base } else { base + tia };
        let mut v = vec![];
        for kk in 0..3 {
            let s = first + if a_to_b { -kk * tia } else { kk * tia };
            v.push(tick_array_pda(&self.pool, s));
        }
        [v[0], v[1], v[2]]
    }

    pub fn swap_v2_metas(&self, a_to_b: bool) -> Vec<Meta> {
        use anchor_lang::ToAccountMetas;
        let ta = self.swap_arrays(a_to_b);
        let acc = ::whirlpool::accounts::SwapV2 {
            token_program_a: self.prog_a,
            token_program_b: self.prog_b,
            memo_program: anchor_spl::memo::ID,
            token_authority: self.trader,
            whirlpool: self.pool,
            token_mint_a: self.mint_a,
            token_mint_b: self.mint_b,
            token_owner_account_a: self.trader_a,
            token_vault_a: self.vault_a,
            token_owner_account_b: self.trader_b,
            token_vault_b: self.vault_b,
            tick_array_0: ta[0],
            tick_array_1: ta[1],
            tick_array_2: ta[2],
            oracle: self.oracle,
        };
        acc.to_account_metas(None).iter().map(Meta::from).collect()
    }

    pub fn swap_v1_metas(&self, a_to_b: bool) -> Vec<Meta> {
        use anchor_lang::ToAccountMetas;
        let ta = self.swap_arrays(a_to_b);
        let acc = ::whirlpool::accounts::Swap {
            token_program: anchor_spl::token::ID,
            token_authority: self.trader,
            whirlpool: self.pool,
            token_owner_account_a: self.trader_a,
            token_vault_a: self.vault_a,
            token_owner_account_b: self.trader_b,
            token_vault_b: self.vault_b,
            tick_array_0: ta[0],
            tick_array_1: ta[1],
            tick_array_2: ta[2],
            oracle: self.oracle,
        };
        // v1 declares the oracle read-only; clients of adaptive-fee pools pass it writable
        let oracle_initialized = !self.bank.data(&self.oracle).is_empty();
        acc.to_account_metas(None).iter().map(Meta::from).map(|mut m| {
            if m.key == self.oracle && oracle_initialized {
                m.writable = true;
            }
            m
        }).collect()
    }
}
