//! wph - correspondence harness for orca-so/whirlpools (see /verif/DESIGN.md section 2.3).
//!
//!   wph gen <family> <seed> <count> <dir>     write <dir>/<family>.ops / .impl / .viol / .stats
//!   wph replay <family> <op line...>           run one op on the real code and its oracle
//!   wph families                               list family names
//!
//! Every family generates an *op line*, then executes the real code by parsing that line, so
//! a replay goes through exactly the same path as the original run.
mod fam_access;
mod fam_admin;
mod fam_dyn;
mod fam_bundle;
mod fam_fee;
mod fam_init;
mod fam_pmod;
mod fam_admission;
mod fam_liq;
mod fam_math;
mod fam_position;
mod fam_sdk;
mod fam_setup;
mod hist;
mod hist_oracle;
mod rng;
mod svm;
mod fixture;
mod ix;

use std::collections::BTreeMap;
use std::io::Write;

extern "C" {
    fn dup2(oldfd: i32, newfd: i32) -> i32;
}
/// Anchor logs the two keys of a failed `address` / `has_one` constraint with `Pubkey::log`, which prints
/// to stdout on the host; a generation run writes its results to files, so stdout is dropped
fn silence_stdout() {
    use std::os::unix::io::AsRawFd;
    if let Ok(f) = std::fs::OpenOptions::new().write(true).open("/dev/null") {
        unsafe {
            dup2(f.as_raw_fd(), 1);
        }
        std::mem::forget(f);
    }
}

pub struct Ctx {
    pub stats: BTreeMap<String, u64>,
    pub viols: Vec<String>,
    pub nontrivial: std::collections::HashSet<u64>,
}

impl Ctx {
    pub fn new() -> Self {
        Ctx { stats: BTreeMap::new(), viols: Vec::new(), nontrivial: Default::default() }
    }
    pub fn tag(&mut self, t: &str) {
        *self.stats.entry(t.to_string()).or_insert(0) += 1;
    }
    pub fn viol(&mut self, s: String) {
        self.viols.push(s);
    }
    /// record a case as non-trivial (by the family's rule); counted distinct by hash of the line
    pub fn nontrivial(&mut self, line: &str) {
        use std::hash::{Hash, Hasher};
        let mut h = std::collections::hash_map::DefaultHasher::new();
        line.hash(&mut h);
        self.nontrivial.insert(h.finish());
    }
}

pub trait Family {
    fn name(&self) -> &'static str;
    /// generate the idx-th op line
    fn gen(&self, rng: &mut rng::Rng, idx: u64) -> String;
    /// run the real implementation on the op line; returns the canonical output line.
    /// Pushes property-oracle violations (implementation vs exact arithmetic) into ctx.
    fn run(&self, line: &str, ctx: &mut Ctx) -> String;
    /// exhaustive families ignore count and enumerate
    fn exhaustive(&self) -> Option<u64> {
        None
    }
}

pub fn families() -> Vec<Box<dyn Family>> {
    let mut v: Vec<Box<dyn Family>> = Vec::new();
    fam_math::register(&mut v);
    hist::register(&mut v);
    fam_liq::register(&mut v);
    fam_access::register(&mut v);
    fam_position::register(&mut v);
    fam_admission::register(&mut v);
    fam_dyn::register(&mut v);
    fam_pmod::register(&mut v);
    fam_fee::register(&mut v);
    fam_sdk::register(&mut v);
    fam_admin::register(&mut v);
    fam_init::register(&mut v);
    fam_bundle::register(&mut v);
    fam_setup::register(&mut v);
    v
}

pub fn catch<F: FnOnce() -> String + std::panic::UnwindSafe>(f: F) -> String {
    match std::panic::catch_unwind(f) {
        Ok(s) => s,
        Err(_) => "err Panic".to_string(),
    }
}

thread_local! {
    /// "<file>:<line> <message>" of every panic raised while the current op ran
    static PANICS: std::cell::RefCell<Vec<String>> = const { std::cell::RefCell::new(Vec::new()) };
}

/// The one abort of the program's arithmetic that the Lean model does not reproduce: `U256Muldiv::div`
/// (Knuth D, modelled as division of naturals) indexes past its 4-word array in the add-back step of
/// `div_loop` — a bounds-check panic at math/u256_math.rs — for rare operand patterns, e.g. inside
/// compute_swap(2, 96922, 2^64, 2^64 + 1, MIN_SQRT_PRICE, exact-in, a→b).  No property constrains a
/// computation that aborts, so an op during which exactly this panic occurred is classified
/// `abort-u256div` (counted in the evidence, not compared with the model); every other panic is compared.
fn take_u256div_abort() -> bool {
    PANICS.with(|p| {
        let v: Vec<String> = p.borrow_mut().drain(..).collect();
        v.iter().any(|m| m.contains("math/u256_math.rs") && m.contains("index out of bounds"))
    })
}

fn classify(out: String, ctx: &mut Ctx) -> String {
    if take_u256div_abort() {
        ctx.tag("abort-u256div");
        ctx.viols.clear();
        return "abort-u256div".to_string();
    }
    out
}

fn main() {
    let trace = std::env::var("WPH_PANIC_TRACE").is_ok();
    let default_hook = std::panic::take_hook();
    std::panic::set_hook(Box::new(move |info| {
        let loc = info.location().map(|l| format!("{}:{}", l.file(), l.line())).unwrap_or_default();
        let msg = if let Some(s) = info.payload().downcast_ref::<&str>() {
            s.to_string()
        } else if let Some(s) = info.payload().downcast_ref::<String>() {
            s.clone()
        } else {
            String::new()
        };
        PANICS.with(|p| p.borrow_mut().push(format!("{} {}", loc, msg)));
        if trace {
            default_hook(info);
        }
    }));
    let args: Vec<String> = std::env::args().collect();
    if args.len() < 2 {
        eprintln!("usage: wph gen|replay|families ...");
        std::process::exit(2);
    }
    let fams = families();
    match args[1].as_str() {
        "families" => {
            for f in &fams {
                println!("{}", f.name());
            }
        }
        "gen" => {
            silence_stdout();
            let fam = fams.iter().find(|f| f.name() == args[2]).unwrap_or_else(|| {
                eprintln!("unknown family {}", args[2]);
                std::process::exit(2)
            });
            let seed: u64 = args[3].parse().unwrap();
            let count: u64 = fam.exhaustive().unwrap_or_else(|| args[4].parse().unwrap());
            let dir = &args[5];
            std::fs::create_dir_all(dir).unwrap();
            let mk = |ext: &str| std::io::BufWriter::new(std::fs::File::create(format!("{}/{}.{}", dir, fam.name(), ext)).unwrap());
            let (mut ops, mut imp, mut viol) = (mk("ops"), mk("impl"), mk("viol"));
            let mut ctx = Ctx::new();
            let mut root = rng::Rng::new(seed);
            let mut hasher_tag: u64 = 0;
            for b in fam.name().bytes() {
                hasher_tag = hasher_tag.wrapping_mul(131).wrapping_add(b as u64);
            }
            let mut base = root.fork(hasher_tag);
            for idx in 0..count {
                let mut r = base.fork(idx);
                let line = fam.gen(&mut r, idx);
                writeln!(ops, "{}", line).unwrap();
                ops.flush().unwrap();
                PANICS.with(|p| p.borrow_mut().clear());
                let out = fam.run(&line, &mut ctx);
                let out = classify(out, &mut ctx);
                writeln!(imp, "{}", out).unwrap();
                for v in ctx.viols.drain(..) {
                    writeln!(viol, "{}\t{}\t{}", idx, line, v).unwrap();
                }
            }
            let mut st = mk("stats");
            writeln!(st, "count {}", count).unwrap();
            writeln!(st, "distinct_nontrivial {}", ctx.nontrivial.len()).unwrap();
            for (k, v) in &ctx.stats {
                writeln!(st, "tag {} {}", k, v).unwrap();
            }
        }
        "runfile" => {
            // wph runfile <family> <ops file> <outdir>: run recorded op lines (corpus)
            let fam = fams.iter().find(|f| f.name() == args[2]).expect("unknown family");
            let dir = &args[4];
            std::fs::create_dir_all(dir).unwrap();
            let mk = |ext: &str| std::io::BufWriter::new(std::fs::File::create(format!("{}/{}.{}", dir, fam.name(), ext)).unwrap());
            let (mut ops, mut imp, mut viol) = (mk("ops"), mk("impl"), mk("viol"));
            let mut ctx = Ctx::new();
            let text = std::fs::read_to_string(&args[3]).unwrap();
            let mut count = 0u64;
            for (idx, line) in text.lines().filter(|l| !l.trim().is_empty() && !l.starts_with('#')).enumerate() {
                writeln!(ops, "{}", line).unwrap();
                ops.flush().unwrap();
                PANICS.with(|p| p.borrow_mut().clear());
                let out = fam.run(line, &mut ctx);
                let out = classify(out, &mut ctx);
                writeln!(imp, "{}", out).unwrap();
                for v in ctx.viols.drain(..) {
                    writeln!(viol, "{}\t{}\t{}", idx, line, v).unwrap();
                }
                count += 1;
            }
            let mut st = mk("stats");
            writeln!(st, "count {}", count).unwrap();
            writeln!(st, "distinct_nontrivial {}", ctx.nontrivial.len()).unwrap();
            for (k, v) in &ctx.stats {
                writeln!(st, "tag {} {}", k, v).unwrap();
            }
        }
        "replay" => {
            let fam = fams.iter().find(|f| f.name() == args[2]).expect("unknown family");
            let line = args[3..].join(" ");
            let mut ctx = Ctx::new();
            let out = fam.run(&line, &mut ctx);
            let out = classify(out, &mut ctx);
            println!("impl: {}", out);
            for v in &ctx.viols {
                println!("ORACLE-VIOLATION: {}", v);
            }
            if !ctx.viols.is_empty() {
                std::process::exit(1);
            }
        }
        _ => {
            eprintln!("unknown command");
            std::process::exit(2);
        }
    }
}
