//! One splitmix64 PRNG; every random choice of the harness derives from it, so a case replays
//! from (seed, family, index).
use whirlpool::math::{sqrt_price_from_tick_index, MAX_SQRT_PRICE_X64, MIN_SQRT_PRICE_X64};

pub const MAX_TICK: i32 = 443636;
pub const MIN_TICK: i32 = -443636;

#[derive(Clone)]
pub struct Rng(pub u64);

impl Rng {
    pub fn new(seed: u64) -> Self {
        Rng(seed ^ 0x9E37_79B9_7F4A_7C15)
    }
    pub fn fork(&mut self, tag: u64) -> Rng {
        let s = self.next() ^ tag.wrapping_mul(0xD1B5_4A32_D192_ED03);
        Rng(s)
    }
    pub fn next(&mut self) -> u64 {
        self.0 = self.0.wrapping_add(0x9E37_79B9_7F4A_7C15);
        let mut z = self.0;
        z = (z ^ (z >> 30)).wrapping_mul(0xBF58_476D_1CE4_E5B9);
        z = (z ^ (z >> 27)).wrapping_mul(0x94D0_49BB_1331_11EB);
        z ^ (z >> 31)
    }
    pub fn next128(&mut self) -> u128 {
        ((self.next() as u128) << 64) | self.next() as u128
    }
    pub fn below(&mut self, n: u64) -> u64 {
        if n == 0 {
            0
        } else {
            self.next() % n
        }
    }
    pub fn range_i(&mut self, lo: i64, hi: i64) -> i64 {
        lo + (self.below((hi - lo + 1) as u64) as i64)
    }
    pub fn chance(&mut self, num: u64, den: u64) -> bool {
        self.below(den) < num
    }
    pub fn pick<T: Copy>(&mut self, xs: &[T]) -> T {
        xs[self.below(xs.len() as u64) as usize]
    }
    /// log-uniform: uniform bit length in 0..=bits, then uniform below that
    pub fn log_u128(&mut self, bits: u32) -> u128 {
        let b = self.below(bits as u64 + 1) as u32;
        if b == 0 {
            return 0;
        }
        let top = 1u128 << (b - 1);
        let low = if b == 1 { 0 } else { self.next128() & (top - 1) };
        top | low
    }
    pub fn u64_amount(&mut self) -> u64 {
        match self.below(10) {
            0 => self.pick(&[0u64, 1, 2, 3, u64::MAX, u64::MAX - 1, 1 << 32, (1 << 32) - 1, 1 << 63, (1u64 << 63) - 1, 1000, 1_000_000]),
            1 => {
                let k = self.below(64) as u32;
                let base = 1u64 << k;
                match self.below(3) {
                    0 => base,
                    1 => base.wrapping_sub(1),
                    _ => base.wrapping_add(1),
                }
            }
            _ => self.log_u128(64) as u64,
        }
    }
    pub fn liquidity(&mut self) -> u128 {
        match self.below(12) {
            0 => self.pick(&[0u128, 1, 2, u128::MAX, u128::MAX - 1, 1 << 64, (1 << 64) - 1, 1 << 127, (1u128 << 127) - 1, i128::MAX as u128]),
            1 => {
                let k = self.below(128) as u32;
                let base = 1u128 << k;
                match self.below(3) {
                    0 => base,
                    1 => base.wrapping_sub(1),
                    _ => base.wrapping_add(1),
                }
            }
            2..=8 => self.log_u128(100),
            _ => self.log_u128(128),
        }
    }
    pub fn tick(&mut self) -> i32 {
        match self.below(10) {
            0 => self.pick(&[MIN_TICK, MIN_TICK + 1, MAX_TICK, MAX_TICK - 1, 0, -1, 1, 2, -2]),
            1 => {
                let k = self.below(19) as u32;
                let b = 1i32 << k;
                let t = self.pick(&[b, b - 1, b + 1, -b, -b + 1, -b - 1]);
                t.clamp(MIN_TICK, MAX_TICK)
            }
            2..=4 => self.range_i(-30000, 30000) as i32,
            _ => self.range_i(MIN_TICK as i64, MAX_TICK as i64) as i32,
        }
    }
    pub fn sqrt_price(&mut self) -> u128 {
        match self.below(10) {
            0 => self.pick(&[MIN_SQRT_PRICE_X64, MIN_SQRT_PRICE_X64 + 1, MAX_SQRT_PRICE_X64, MAX_SQRT_PRICE_X64 - 1, 1u128 << 64, (1u128 << 64) - 1, (1u128 << 64) + 1]),
            1..=5 => {
                let t = self.tick();
                let p = sqrt_price_from_tick_index(t);
                let d = self.pick(&[0i128, 0, 1, -1, 2, -2]);
                ((p as i128 + d) as u128).clamp(MIN_SQRT_PRICE_X64, MAX_SQRT_PRICE_X64)
            }
            _ => {
                // interior: between two adjacent tick prices
                let t = self.range_i(MIN_TICK as i64, MAX_TICK as i64 - 1) as i32;
                let lo = sqrt_price_from_tick_index(t);
                let hi = sqrt_price_from_tick_index(t + 1);
                lo + (self.next128() % (hi - lo))
            }
        }
    }
    pub fn fee_rate(&mut self) -> u32 {
        match self.below(4) {
            0 => self.pick(&[0u32, 1, 100, 300, 3000, 10000, 60000, 65535, 99999, 100000]),
            1 => self.below(60001) as u32,
            _ => self.below(100001) as u32,
        }
    }
    pub fn tick_spacing(&mut self) -> u16 {
        self.pick(&[1u16, 2, 3, 8, 64, 96, 128, 256, 32767, 32768, 32896, 65535])
    }
}
