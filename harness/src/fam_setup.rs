//! C19 / C13 / C04 at instruction level: the initialisers, through the REAL entrypoint, each on a fresh world.
//!
//!   xtarr <ts> <start> <pre> <kind> <idem>
//!       initialize_tick_array (kind 0) / initialize_dynamic_tick_array (kind 1, idempotent flag) for start index
//!       <start> on a pool of spacing <ts>; pre: what is at the array's address beforehand — 0 nothing · 1 a fixed
//!       array (created by the real instruction) · 2 a dynamic array (likewise) · 3 an account of another program
//!   xini cfg <admin> <proto>
//!       initialize_config funded by an admin key (1) or by a stranger (0)
//!   xini tier <auth> <pre> <ts> <fee>
//!       initialize_fee_tier; auth 0 the config's fee authority signs · 1 a stranger · 2 nobody; pre 1: the address
//!       already holds a tier
//!   xini atier <auth> <pre> <idx> <ts> <fee> <fp dp rf cf mv gs th>
//!       initialize_adaptive_fee_tier
//!   xini rew <ver> <auth> <idx> <ninit> <prog22 native freeze tlv badge>
//!       initialize_reward (ver 1) / initialize_reward_v2 (ver 2) for reward index <idx> on a pool whose first
//!       <ninit> rewards are initialized; the reward mint as in family xinit
//!   xini cext <auth> <pre>
//!       initialize_config_extension (the config's fee authority signs / a stranger / nobody; address free or taken)
//!   xini badge <auth> <feature> <pre> <ext>
//!       initialize_token_badge; feature: the config's TOKEN_BADGE flag; ext 0 this config's extension · 1 the
//!       extension of ANOTHER config (whose badge authority then signs)
//!   xini dbadge <auth> <feature> <exists>
//!       delete_token_badge
//!   xini pool1 <ts> <tierTs> <price> <order> <fee> <proto> <p22a> <p22b>
//!       initialize_pool (v1: SPL Token mints only, vaults created by Anchor's init)
//! Oracles (independent of the model): whatever gets created carries in-bound rates / valid constants / a valid
//! start index / an admissible mint, was authorised by the right signer, records what it was created with, and a
//! refused instruction changes nothing.
use crate::fam_init::{admissible, build_tlv, hex, mint_account, unhex, EXT_SETS};
use crate::fam_math::{b, pb, toks};
use crate::fixture::k;
use crate::rng::*;
use crate::svm::{Bank, Meta};
use crate::{Ctx, Family};
use ::whirlpool::state::*;
use anchor_lang::prelude::Pubkey;
use anchor_lang::{AccountDeserialize, AccountSerialize, Discriminator, InstructionData, ToAccountMetas};

pub fn register(v: &mut Vec<Box<dyn Family>>) {
    v.push(Box::new(XTarr));
    v.push(Box::new(XIni));
}

fn tokp(p22: bool) -> Pubkey {
    if p22 {
        anchor_spl::token_2022::ID
    } else {
        anchor_spl::token::ID
    }
}

struct World {
    bank: Bank,
    cfg: Pubkey,
    pool: Pubkey,
    funder: Pubkey,
    fee_auth: Pubkey,
    reward_auth: Pubkey,
    stranger: Pubkey,
    rent_id: Pubkey,
}

fn world(ts: u16, ninit: usize) -> World {
    let pid = ::whirlpool::ID;
    let sysid = crate::svm::system_id();
    let mut bank = Bank::new(1_000_000);
    let cfg = k(0xF0, 1);
    let (fee_auth, reward_auth, stranger, funder) = (k(0xF8, 1), k(0xF8, 2), k(0xF8, 3), k(0xF8, 4));
    let c = WhirlpoolsConfig { fee_authority: fee_auth, collect_protocol_fees_authority: k(0xF8, 5), reward_emissions_super_authority: k(0xF8, 6), default_protocol_fee_rate: 300, feature_flags: 0 };
    let mut d = vec![];
    c.try_serialize(&mut d).unwrap();
    d.resize(WhirlpoolsConfig::LEN, 0);
    bank.set(cfg, pid, 10_000_000, d);
    let pool = k(0xF1, 1);
    let mut wp = Whirlpool::default();
    wp.whirlpools_config = cfg;
    wp.tick_spacing = ts;
    wp.fee_tier_index_seed = ts.to_le_bytes();
    wp.fee_rate = 3000;
    wp.protocol_fee_rate = 300;
    wp.sqrt_price = 1u128 << 64;
    wp.token_mint_a = k(0xF2, 1);
    wp.token_mint_b = k(0xF2, 2);
    wp.token_vault_a = k(0xF3, 1);
    wp.token_vault_b = k(0xF3, 2);
    wp.reward_infos[0] = WhirlpoolRewardInfo::new(reward_auth.to_bytes());
    for i in 0..ninit.min(3) {
        wp.reward_infos[i].mint = k(0xF5, i as u8 + 1);
        wp.reward_infos[i].vault = k(0xF6, i as u8 + 1);
    }
    let mut d = vec![];
    wp.try_serialize(&mut d).unwrap();
    d.resize(Whirlpool::LEN, 0);
    bank.set(pool, pid, 10_000_000, d);
    for kk in [fee_auth, reward_auth, stranger, funder] {
        bank.set(kk, sysid, 100_000_000_000, vec![]);
    }
    bank.set_program(sysid);
    bank.set_program(anchor_spl::token::ID);
    bank.set_program(anchor_spl::token_2022::ID);
    let rent_id = anchor_lang::solana_program::sysvar::rent::ID;
    {
        let r = anchor_lang::solana_program::rent::Rent::default();
        let mut d = vec![];
        d.extend_from_slice(&r.lamports_per_byte_year.to_le_bytes());
        d.extend_from_slice(&r.exemption_threshold.to_le_bytes());
        d.push(r.burn_percent);
        bank.set(rent_id, anchor_lang::solana_program::sysvar::ID, 1_009_200, d);
    }
    World { bank, cfg, pool, funder, fee_auth, reward_auth, stranger, rent_id }
}

fn unsign(metas: &mut [Meta], key: &Pubkey) {
    for m in metas.iter_mut() {
        if m.key == *key {
            m.signer = false;
        }
    }
}

// ------------------------------------------------------------------------------------------------
struct XTarr;

fn tarr_ix(w: &World, start: i32, kind: u8, idem: bool) -> (Vec<Meta>, Vec<u8>, Pubkey) {
    let pda = Pubkey::find_program_address(&[b"tick_array", w.pool.as_ref(), start.to_string().as_bytes()], &::whirlpool::ID).0;
    let sysid = crate::svm::system_id();
    if kind == 0 {
        let acc = ::whirlpool::accounts::InitializeTickArray { whirlpool: w.pool, funder: w.funder, tick_array: pda, system_program: sysid };
        (acc.to_account_metas(None).iter().map(Meta::from).collect(), ::whirlpool::instruction::InitializeTickArray { start_tick_index: start }.data(), pda)
    } else {
        let acc = ::whirlpool::accounts::InitializeDynamicTickArray { whirlpool: w.pool, funder: w.funder, tick_array: pda, system_program: sysid };
        (acc.to_account_metas(None).iter().map(Meta::from).collect(), ::whirlpool::instruction::InitializeDynamicTickArray { start_tick_index: start, idempotent: idem }.data(), pda)
    }
}

impl Family for XTarr {
    fn name(&self) -> &'static str {
        "xtarr"
    }
    fn gen(&self, r: &mut Rng, _idx: u64) -> String {
        let ts = r.pick(&[1i64, 2, 8, 64, 128, 256, 32896]);
        let tia = ts * 88;
        let start = match r.below(10) {
            0..=4 => tia * (r.below(2 * (443636 / tia as u64) + 3) as i64 - (443636 / tia) - 1),
            5 => tia * (r.below(7) as i64 - 3) + r.pick(&[1i64, -1, ts, -ts]),
            6 => {
                // the left-edge array and its neighbours
                let m = -443636i64 - ((-443636i64) % tia + tia);
                m + r.pick(&[0i64, 0, tia, -tia, 1])
            }
            7 => r.pick(&[443636i64, 443637, -443636, -443637, i32::MAX as i64, i32::MIN as i64, 0]),
            _ => (443636 / tia) * tia + r.pick(&[0i64, tia, -tia]),
        };
        let pre = r.pick(&[0u8, 0, 0, 0, 0, 0, 1, 2, 3, 4]);
        format!("xtarr {} {} {} {} {}", ts, start.clamp(i32::MIN as i64, i32::MAX as i64), pre, r.below(2), r.below(2))
    }
    fn run(&self, line: &str, ctx: &mut Ctx) -> String {
        match std::panic::catch_unwind(std::panic::AssertUnwindSafe(|| self.run_inner(line, ctx))) {
            Ok(s) => s,
            Err(_) => "err HarnessPanic".to_string(),
        }
    }
}

impl XTarr {
    fn run_inner(&self, line: &str, ctx: &mut Ctx) -> String {
        let t = toks(line);
        let ts: u16 = t[1].parse().unwrap();
        let start: i32 = t[2].parse().unwrap();
        let pre: u8 = t[3].parse().unwrap();
        let kind: u8 = t[4].parse().unwrap();
        let idem = pb(t[5]);
        let mut w = world(ts, 0);
        let (metas, data, pda) = tarr_ix(&w, start, kind, idem);
        // the state before: created by the real instructions (only possible for a valid start index)
        let mut pre_eff = pre;
        match pre {
            1 | 2 => {
                let (m0, d0, _) = tarr_ix(&w, start, pre - 1, false);
                if w.bank.execute(&m0, &d0).0.is_err() {
                    pre_eff = 0;
                }
            }
            3 => w.bank.set(pda, k(0xF7, 7), 5_000_000, vec![7u8; 64]),
            _ => {}
        }
        // pre 4: the account offered is NOT at the array's address for this pool and start index
        let (metas, pda) = if pre == 4 {
            let wrong = k(0x99, 3);
            let mut m = metas;
            for x in m.iter_mut() {
                if x.key == pda {
                    x.key = wrong;
                }
            }
            (m, wrong)
        } else {
            (metas, pda)
        };
        let before = w.bank.clone();
        let (res, out) = w.bank.execute(&metas, &data);
        let tia = ts as i64 * 88;
        let s = start as i64;
        let valid = if (-443636..=443636).contains(&s) { s % tia == 0 } else { s <= -443636 && s == -443636 - ((-443636i64) % tia + tia) };
        match res {
            Ok(()) => {
                ctx.nontrivial(line);
                let a = w.bank.get(&pda);
                let untouched = pre_eff != 0 && a == before.get(&pda);
                if untouched {
                    // an idempotent call on an existing array
                    ctx.tag("ok_existing");
                    if !(kind == 1 && idem && (pre_eff == 1 || pre_eff == 2)) {
                        ctx.viol("C13 a tick-array initialiser succeeded on an existing account without being the idempotent dynamic call".to_string());
                    }
                    return format!("ok existing {}", pre_eff);
                }
                ctx.tag("ok_created");
                if pre_eff != 0 {
                    ctx.viol(format!("C13 a tick-array initialiser overwrote what was at the address (pre {})", pre_eff));
                }
                if !valid {
                    ctx.viol(format!("C13 a tick array was created for start index {} which is not a valid start for spacing {}", start, ts));
                }
                if pre == 4 {
                    ctx.viol("C15/C13 a tick array was created at an address that is not the array's address for its pool and start index".to_string());
                }
                if a.owner != ::whirlpool::ID {
                    ctx.viol("C13 the created tick array is not owned by the program".to_string());
                }
                let d = &a.data;
                if kind == 0 {
                    let ok = d.len() == FixedTickArray::LEN && d[0..8] == *FixedTickArray::DISCRIMINATOR && d[8..12] == start.to_le_bytes() && d[12..d.len() - 32].iter().all(|x| *x == 0) && d[d.len() - 32..] == w.pool.to_bytes();
                    if !ok {
                        ctx.viol("C13 the created fixed tick array is not an empty array of this pool and start index".to_string());
                    }
                    format!("ok fixed {}", d.len())
                } else {
                    let ok = d.len() == DynamicTickArray::MIN_LEN && d[0..8] == *DynamicTickArray::DISCRIMINATOR && d[8..12] == start.to_le_bytes() && d[12..44] == w.pool.to_bytes() && d[44..].iter().all(|x| *x == 0);
                    if !ok {
                        ctx.viol("C13 the created dynamic tick array is not an empty array (zero bitmap, 88 one-byte slots) of this pool and start index".to_string());
                    }
                    format!("ok dynamic {}", d.len())
                }
            }
            Err(e) => {
                if w.bank.accts != before.accts {
                    ctx.viol("a failed tick-array initialiser changed account state".to_string());
                }
                let name = crate::ix::err_name(&e, &out.logs);
                ctx.tag(&format!("err_{}", name.chars().take(28).collect::<String>()));
                if valid && pre_eff == 0 && pre != 4 {
                    ctx.viol(format!("C13 a tick array for the valid start index {} of spacing {} could not be created: {}", start, ts, name));
                }
                format!("err {}", name)
            }
        }
    }
}

// ------------------------------------------------------------------------------------------------
struct XIni;

fn gen_consts(r: &mut Rng, ts: u64) -> [u64; 7] {
    let divisors: Vec<u64> = (1..=ts.clamp(1, 64)).filter(|d| ts % d == 0).collect();
    let gs = if ts == 0 { 1 } else if ts == 32896 { r.pick(&[1u64, 2, 64, 257, 32896]) } else { r.pick(&divisors) };
    let mut c = [r.pick(&[1u64, 30, 60]), 0, r.pick(&[0u64, 500, 9999]), r.pick(&[0u64, 4000, 99999]), r.pick(&[0u64, 350_000, (u32::MAX as u64) / gs]), gs, 1 + r.below((ts * 88).clamp(1, 65535))];
    c[1] = c[0] + r.pick(&[1u64, 600]);
    if r.chance(1, 4) {
        match r.below(8) {
            0 => c[0] = 0,
            1 => c[1] = c[0],
            2 => c[2] = 10_000,
            3 => c[3] = 100_000,
            4 => c[4] = if gs >= 2 { r.pick(&[(u32::MAX as u64) / gs + 1, u32::MAX as u64]) } else { c[4] },
            5 => c[5] = if r.chance(1, 2) { 0 } else { (ts + 1).min(65535) },
            6 => c[6] = if r.chance(1, 2) { 0 } else { (ts * 88 + 1).min(65535) },
            _ => c[5] = if ts >= 3 { ts - 1 } else { 0 },
        }
    }
    c
}

pub fn constants_valid(ts: u64, c: &[u64; 7]) -> bool {
    let (fp, dp, rf, cf, mv, gs, th) = (c[0], c[1], c[2], c[3], c[4], c[5], c[6]);
    fp >= 1 && dp > fp && cf < 100_000 && mv.checked_mul(gs).map_or(false, |x| x <= u32::MAX as u64) && rf < 10_000 && gs >= 1 && gs <= ts && ts % gs == 0 && th >= 1 && th <= ts * 88
}

impl Family for XIni {
    fn name(&self) -> &'static str {
        "xini"
    }
    fn gen(&self, r: &mut Rng, _idx: u64) -> String {
        let auth = r.pick(&[0u8, 0, 0, 0, 0, 0, 0, 1, 2]);
        if r.chance(1, 40) {
            // (pre 0 = already migrated: the handler panics, which aborts a host process - on chain the instruction fails; not executed)
            return format!("xini migr {} {}", r.pick(&[1u8, 1, 2]), b(r.chance(1, 2)));
        }
        match r.below(14) {
            10 => return format!("xini cext {} {}", auth, r.pick(&[0u8, 0, 0, 0, 0, 1, 2])),
            11 => return format!("xini badge {} {} {} {}", auth, b(r.chance(4, 5)), b(r.chance(1, 10)), b(r.chance(1, 8))),
            12 => return format!("xini dbadge {} {} {}", auth, b(r.chance(4, 5)), b(r.chance(5, 6))),
            13 => {
                let ts = r.pick(&[1u64, 8, 64, 128, 32896]);
                let price = match r.below(6) {
                    0 => r.pick(&[4295048015u128, 4295048016, 79226673515401279992447579055, 79226673515401279992447579056]),
                    _ => r.sqrt_price(),
                };
                return format!("xini pool1 {} {} {} {} {} {} {} {}", ts, if r.chance(1, 10) { 65 } else { ts }, price, r.pick(&[0u8, 0, 0, 0, 0, 0, 1, 2]), r.pick(&[0u64, 3000, 60000, 60000, 60001]), r.pick(&[0u64, 300, 2500, 2501]), b(r.chance(1, 8)), b(r.chance(1, 8)));
            }
            _ => {}
        }
        match r.below(10) {
            0 => format!("xini cfg {} {}", b(r.chance(3, 4)), r.pick(&[0u64, 300, 2499, 2500, 2500, 2501, 65535])),
            1 | 2 => format!("xini tier {} {} {} {}", auth, r.pick(&[0u8, 0, 0, 0, 0, 0, 1, 2]), r.pick(&[0u64, 1, 8, 64, 128, 32896, 65535]), r.pick(&[0u64, 100, 3000, 59999, 60000, 60000, 60001, 65535])),
            3..=5 => {
                let ts = r.pick(&[0u64, 1, 2, 8, 64, 128, 256, 32896]);
                let idx = if r.chance(1, 8) { ts } else { 1024 + r.below(100) };
                let c = gen_consts(r, ts);
                format!("xini atier {} {} {} {} {} {} {} {} {} {} {} {}", auth, r.pick(&[0u8, 0, 0, 0, 0, 0, 0, 1, 2]), idx, ts, r.pick(&[0u64, 3000, 60000, 60000, 60001]), c[0], c[1], c[2], c[3], c[4], c[5], c[6])
            }
            _ => {
                let ver = r.pick(&[1u8, 2, 2]);
                let ninit = r.below(4);
                let idx = if r.chance(3, 4) { ninit } else { r.pick(&[0u64, 1, 2, 3, 4, 255]) };
                let prog22 = r.chance(1, 2);
                let native = prog22 && r.chance(1, 14);
                let freeze = !native && r.chance(1, 4);
                let set = if prog22 && !native { r.pick(EXT_SETS) } else { &[][..] };
                let tlv = build_tlv(set, r.chance(1, 2));
                let badge = r.pick(&[0u64, 0, 0, 1, 1, 1, 1, 1, 2, 3, 4, 5]);
                format!("xini rew {} {} {} {} {} {} {} {} {}", ver, auth, idx, ninit, b(prog22), b(native), b(freeze), hex(&tlv), badge)
            }
        }
    }
    fn run(&self, line: &str, ctx: &mut Ctx) -> String {
        match std::panic::catch_unwind(std::panic::AssertUnwindSafe(|| self.run_inner(line, ctx))) {
            Ok(s) => s,
            Err(_) => "err HarnessPanic".to_string(),
        }
    }
}

impl XIni {
    fn run_inner(&self, line: &str, ctx: &mut Ctx) -> String {
        let t = toks(line);
        let pid = ::whirlpool::ID;
        let sysid = crate::svm::system_id();
        let finish = |w: &World, before: &Bank, res: &Result<(), crate::svm::ExecError>, out: &crate::svm::ExecOut, ctx: &mut Ctx, what: &str| -> Option<String> {
            match res {
                Ok(()) => {
                    ctx.tag(&format!("{}_ok", what));
                    None
                }
                Err(e) => {
                    if w.bank.accts != before.accts {
                        ctx.viol(format!("a failed {} initialiser changed account state", what));
                    }
                    let name = crate::ix::err_name(e, &out.logs);
                    ctx.tag(&format!("{}_err_{}", what, name.chars().take(24).collect::<String>()));
                    Some(format!("err {}", name))
                }
            }
        };
        match t[1] {
            "cfg" => {
                let admin = pb(t[2]);
                let proto: u16 = t[3].parse().unwrap();
                let mut w = world(64, 0);
                // one of the admin keys this build of the program is configured with (auth/admin.rs)
                let admin_key: Pubkey = ::whirlpool::auth::admin::ADMINS[(proto % 2) as usize];
                let funder = if admin { admin_key } else { w.stranger };
                w.bank.set(funder, sysid, 100_000_000_000, vec![]);
                let new_cfg = k(0xF9, 1);
                let acc = ::whirlpool::accounts::InitializeConfig { config: new_cfg, funder, system_program: sysid };
                let mut metas: Vec<Meta> = acc.to_account_metas(None).iter().map(Meta::from).collect();
                for m in metas.iter_mut() {
                    if m.key == new_cfg {
                        m.signer = true;
                    }
                }
                let data = ::whirlpool::instruction::InitializeConfig { fee_authority: k(0xFA, 1), collect_protocol_fees_authority: k(0xFA, 2), reward_emissions_super_authority: k(0xFA, 3), default_protocol_fee_rate: proto }.data();
                let before = w.bank.clone();
                let (res, out) = w.bank.execute(&metas, &data);
                if let Some(s) = finish(&w, &before, &res, &out, ctx, "cfg") {
                    return s;
                }
                ctx.nontrivial(line);
                if !::whirlpool::auth::admin::ADMINS.contains(&funder) {
                    ctx.viol("C04 initialize_config succeeded for a funder that is not an admin key".to_string());
                }
                let c = WhirlpoolsConfig::try_deserialize(&mut &w.bank.data(&new_cfg)[..]).unwrap();
                if c.default_protocol_fee_rate > 2500 {
                    ctx.viol(format!("C19 a config was created with default protocol fee rate {}", c.default_protocol_fee_rate));
                }
                if c.default_protocol_fee_rate != proto || c.fee_authority != k(0xFA, 1) || c.collect_protocol_fees_authority != k(0xFA, 2) || c.reward_emissions_super_authority != k(0xFA, 3) || c.feature_flags != 0 {
                    ctx.viol("the created config does not record what it was created with".to_string());
                }
                format!("ok {}", c.default_protocol_fee_rate)
            }
            "tier" | "atier" => {
                let adaptive = t[1] == "atier";
                let auth: u8 = t[2].parse().unwrap();
                // 0 the tier address is free · 1 taken by a tier of the other kind · 2 the account to create is NOT at the tier's address
                let pre_mode: u8 = t[3].parse().unwrap();
                let pre = pre_mode == 1;
                let (idx, ts, fee): (u16, u16, u16) = if adaptive { (t[4].parse().unwrap(), t[5].parse().unwrap(), t[6].parse().unwrap()) } else { (t[4].parse().unwrap(), t[4].parse().unwrap(), t[5].parse().unwrap()) };
                let mut c = [0u64; 7];
                if adaptive {
                    for i in 0..7 {
                        c[i] = t[7 + i].parse().unwrap();
                    }
                }
                let mut w = world(64, 0);
                let pda = Pubkey::find_program_address(&[b"fee_tier", w.cfg.as_ref(), &idx.to_le_bytes()], &pid).0;
                if pre {
                    // the address is taken (by a tier of the other kind: both kinds share the seeds on purpose)
                    let mut d = vec![];
                    if adaptive {
                        FeeTier { whirlpools_config: w.cfg, tick_spacing: idx, default_fee_rate: 1 }.try_serialize(&mut d).unwrap();
                        d.resize(FeeTier::LEN, 0);
                    } else {
                        d = AdaptiveFeeTier::DISCRIMINATOR.to_vec();
                        d.resize(AdaptiveFeeTier::LEN, 0);
                    }
                    w.bank.set(pda, pid, 5_000_000, d);
                }
                let pda = if pre_mode == 2 { k(0x99, 1) } else { pda };
                let signer_key = if auth == 1 { w.stranger } else { w.fee_auth };
                let (mut metas, data): (Vec<Meta>, Vec<u8>) = if adaptive {
                    let acc = ::whirlpool::accounts::InitializeAdaptiveFeeTier { whirlpools_config: w.cfg, adaptive_fee_tier: pda, funder: w.funder, fee_authority: signer_key, system_program: sysid };
                    (
                        acc.to_account_metas(None).iter().map(Meta::from).collect(),
                        ::whirlpool::instruction::InitializeAdaptiveFeeTier {
                            fee_tier_index: idx,
                            tick_spacing: ts,
                            initialize_pool_authority: k(0xFB, 1),
                            delegated_fee_authority: k(0xFB, 2),
                            default_base_fee_rate: fee,
                            filter_period: c[0] as u16,
                            decay_period: c[1] as u16,
                            reduction_factor: c[2] as u16,
                            adaptive_fee_control_factor: c[3] as u32,
                            max_volatility_accumulator: c[4] as u32,
                            tick_group_size: c[5] as u16,
                            major_swap_threshold_ticks: c[6] as u16,
                        }
                        .data(),
                    )
                } else {
                    let acc = ::whirlpool::accounts::InitializeFeeTier { config: w.cfg, fee_tier: pda, funder: w.funder, fee_authority: signer_key, system_program: sysid };
                    (acc.to_account_metas(None).iter().map(Meta::from).collect(), ::whirlpool::instruction::InitializeFeeTier { tick_spacing: ts, default_fee_rate: fee }.data())
                };
                if auth == 2 {
                    unsign(&mut metas, &signer_key);
                }
                let before = w.bank.clone();
                let (res, out) = w.bank.execute(&metas, &data);
                if let Some(s) = finish(&w, &before, &res, &out, ctx, t[1]) {
                    return s;
                }
                ctx.nontrivial(line);
                if auth != 0 {
                    ctx.viol(format!("C04 a fee tier was created without the config's fee authority signing (mode {})", auth));
                }
                if pre {
                    ctx.viol("C19 a fee tier was created over an existing tier of the other kind".to_string());
                }
                if pre_mode == 2 {
                    ctx.viol("C15 a fee tier was created at an address that is not the tier's address for its config and index".to_string());
                }
                if fee > 60000 || ts == 0 {
                    ctx.viol(format!("C19 a fee tier was created with fee rate {} / spacing {}", fee, ts));
                }
                let d = w.bank.data(&pda);
                if adaptive {
                    if !constants_valid(ts as u64, &c) {
                        ctx.viol(format!("C19 an adaptive fee tier was created with constants {:?} that break the validity rules for spacing {}", c, ts));
                    }
                    if idx == ts {
                        ctx.viol("C19 an adaptive fee tier took the index reserved for the plain fee tier of its spacing".to_string());
                    }
                    let a = AdaptiveFeeTier::try_deserialize(&mut &d[..]).unwrap();
                    let same = a.whirlpools_config == w.cfg && a.fee_tier_index == idx && a.tick_spacing == ts && a.default_base_fee_rate == fee && a.initialize_pool_authority == k(0xFB, 1) && a.delegated_fee_authority == k(0xFB, 2) && a.filter_period as u64 == c[0] && a.decay_period as u64 == c[1] && a.reduction_factor as u64 == c[2] && a.adaptive_fee_control_factor as u64 == c[3] && a.max_volatility_accumulator as u64 == c[4] && a.tick_group_size as u64 == c[5] && a.major_swap_threshold_ticks as u64 == c[6];
                    if !same {
                        ctx.viol("the created adaptive fee tier does not record what it was created with".to_string());
                    }
                    format!("ok {} {}", a.tick_spacing, a.default_base_fee_rate)
                } else {
                    let f = FeeTier::try_deserialize(&mut &d[..]).unwrap();
                    if f.whirlpools_config != w.cfg || f.tick_spacing != ts || f.default_fee_rate != fee {
                        ctx.viol("the created fee tier does not record what it was created with".to_string());
                    }
                    format!("ok {} {}", f.tick_spacing, f.default_fee_rate)
                }
            }
            "rew" => {
                let ver: u8 = t[2].parse().unwrap();
                let auth: u8 = t[3].parse().unwrap();
                let idx: u8 = t[4].parse::<u64>().unwrap().min(255) as u8;
                let ninit: usize = t[5].parse().unwrap();
                let (p22, native, freeze, tlv, badge): (bool, bool, bool, Vec<u8>, u8) = (pb(t[6]), pb(t[7]), pb(t[8]), unhex(t[9]), t[10].parse().unwrap());
                let mut w = world(64, ninit);
                let mint = if native { anchor_spl::token_2022::spl_token_2022::native_mint::ID } else { k(0xFC, 1) };
                w.bank.set(mint, tokp(p22), 5_000_000, mint_account(p22, freeze, &tlv));
                let cfg2 = k(0xF0, 2);
                let badge_pda = |c: &Pubkey| Pubkey::find_program_address(&[b"token_badge", c.as_ref(), mint.as_ref()], &pid).0;
                let badge_data = |c: Pubkey, attr: bool| {
                    let tb = TokenBadge { whirlpools_config: c, token_mint: mint, attribute_require_non_transferable_position: attr };
                    let mut d = vec![];
                    tb.try_serialize(&mut d).unwrap();
                    d.resize(TokenBadge::LEN, 0);
                    d
                };
                let at = badge_pda(&w.cfg);
                let mut badge_slot = at;
                match badge {
                    1 => w.bank.set(at, pid, 5_000_000, badge_data(w.cfg, false)),
                    5 => w.bank.set(at, pid, 5_000_000, badge_data(w.cfg, true)),
                    2 => {
                        badge_slot = badge_pda(&cfg2);
                        w.bank.set(badge_slot, pid, 5_000_000, badge_data(cfg2, false));
                    }
                    3 => w.bank.set(at, pid, 5_000_000, badge_data(cfg2, false)),
                    4 => w.bank.set(at, k(0xF7, 7), 5_000_000, badge_data(w.cfg, false)),
                    _ => {}
                }
                let vault = k(0xFD, 1);
                let signer_key = if auth == 1 { w.stranger } else { w.reward_auth };
                let (mut metas, data): (Vec<Meta>, Vec<u8>) = if ver == 2 {
                    let acc = ::whirlpool::accounts::InitializeRewardV2 {
                        reward_authority: signer_key,
                        funder: w.funder,
                        whirlpool: w.pool,
                        reward_mint: mint,
                        reward_token_badge: badge_slot,
                        reward_vault: vault,
                        reward_token_program: tokp(p22),
                        system_program: sysid,
                        rent: w.rent_id,
                    };
                    (acc.to_account_metas(None).iter().map(Meta::from).collect(), ::whirlpool::instruction::InitializeRewardV2 { reward_index: idx }.data())
                } else {
                    let acc = ::whirlpool::accounts::InitializeReward { reward_authority: signer_key, funder: w.funder, whirlpool: w.pool, reward_mint: mint, reward_vault: vault, token_program: anchor_spl::token::ID, system_program: sysid, rent: w.rent_id };
                    let mut m: Vec<Meta> = acc.to_account_metas(None).iter().map(Meta::from).collect();
                    for x in m.iter_mut() {
                        if x.key == vault {
                            x.signer = true;
                        }
                    }
                    (m, ::whirlpool::instruction::InitializeReward { reward_index: idx }.data())
                };
                if auth == 2 {
                    unsign(&mut metas, &signer_key);
                }
                let before = w.bank.clone();
                let (res, out) = w.bank.execute(&metas, &data);
                if let Some(s) = finish(&w, &before, &res, &out, ctx, if ver == 2 { "rew2" } else { "rew1" }) {
                    return s;
                }
                ctx.nontrivial(line);
                if auth != 0 {
                    ctx.viol(format!("C04 a reward was initialized without the pool's reward authority signing (mode {})", auth));
                }
                if idx as usize != ninit || ninit >= 3 {
                    ctx.viol(format!("C11/C19 reward index {} was initialized on a pool whose first {} rewards are initialized", idx, ninit));
                }
                if ver == 1 && p22 {
                    ctx.viol("initialize_reward (v1) accepted a Token-2022 mint".to_string());
                }
                if ver == 2 {
                    if badge == 2 {
                        ctx.viol("C15 initialize_reward_v2 accepted a token badge account that is not the badge of this config and mint".to_string());
                    }
                    if let Err(e) = admissible(p22, native, freeze, badge == 1 || badge == 5, &tlv) {
                        ctx.viol(format!("C19 a reward was initialized over a mint although: {}", e));
                    }
                }
                let wp = Whirlpool::try_deserialize(&mut &w.bank.data(&w.pool)[..]).unwrap();
                let i = idx as usize;
                if i < 3 && (wp.reward_infos[i].mint != mint || wp.reward_infos[i].vault != vault) {
                    ctx.viol("the pool does not record the initialized reward's mint and vault".to_string());
                }
                let va = w.bank.get(&vault);
                if va.owner != tokp(p22) || va.data.len() < 165 || va.data[0..32] != mint.to_bytes() || va.data[32..64] != w.pool.to_bytes() {
                    ctx.viol("C15 the reward vault is not a token account of the reward mint owned by the pool".to_string());
                }
                format!("ok {}", idx)
            }
            "cext" => {
                let auth: u8 = t[2].parse().unwrap();
                let pre_mode: u8 = t[3].parse().unwrap();
                let pre = pre_mode == 1;
                let mut w = world(64, 0);
                let pda = Pubkey::find_program_address(&[b"config_extension", w.cfg.as_ref()], &pid).0;
                if pre {
                    let mut d = vec![];
                    WhirlpoolsConfigExtension { whirlpools_config: w.cfg, config_extension_authority: k(0xFB, 7), token_badge_authority: k(0xFB, 8) }.try_serialize(&mut d).unwrap();
                    d.resize(WhirlpoolsConfigExtension::LEN, 0);
                    w.bank.set(pda, pid, 5_000_000, d);
                }
                let pda = if pre_mode == 2 { k(0x99, 2) } else { pda };
                let signer_key = if auth == 1 { w.stranger } else { w.fee_auth };
                let acc = ::whirlpool::accounts::InitializeConfigExtension { config: w.cfg, config_extension: pda, funder: w.funder, fee_authority: signer_key, system_program: sysid };
                let mut metas: Vec<Meta> = acc.to_account_metas(None).iter().map(Meta::from).collect();
                if auth == 2 {
                    unsign(&mut metas, &signer_key);
                }
                let data = ::whirlpool::instruction::InitializeConfigExtension {}.data();
                let before = w.bank.clone();
                let (res, out) = w.bank.execute(&metas, &data);
                if let Some(s) = finish(&w, &before, &res, &out, ctx, "cext") {
                    return s;
                }
                ctx.nontrivial(line);
                if auth != 0 || pre {
                    ctx.viol(format!("C04 a config extension was created without the fee authority signing or over an existing one (mode {}, taken {})", auth, pre));
                }
                if pre_mode == 2 {
                    ctx.viol("C15 a config extension was created at an address that is not its config's extension address".to_string());
                }
                let e = WhirlpoolsConfigExtension::try_deserialize(&mut &w.bank.data(&pda)[..]).unwrap();
                if e.whirlpools_config != w.cfg || e.config_extension_authority != w.fee_auth || e.token_badge_authority != w.fee_auth {
                    ctx.viol("the created config extension does not name its config and the fee authority as both authorities".to_string());
                }
                "ok".to_string()
            }
            "migr" => {
                // migrate_repurpose_reward_authority_space: permissionless, once per pool; clears the former authority
                // slots of rewards 1 and 2 and must leave reward_infos[0].extension (THE reward authority) and all else alone
                let pre: u8 = t[2].parse().unwrap();
                let signed = pb(t[3]);
                if pre == 0 {
                    return "err Panic".to_string();
                }
                let mut w = world(64, 3);
                let mut wp = Whirlpool::try_deserialize(&mut &w.bank.data(&w.pool)[..]).unwrap();
                if pre >= 1 {
                    wp.reward_infos[2].extension = k(0xF7, 2).to_bytes();
                }
                if pre == 1 {
                    wp.reward_infos[1].extension = k(0xF7, 1).to_bytes();
                }
                let mut d = vec![];
                wp.try_serialize(&mut d).unwrap();
                d.resize(Whirlpool::LEN, 0);
                w.bank.set(w.pool, pid, 10_000_000, d.clone());
                let acc = ::whirlpool::accounts::MigrateRepurposeRewardAuthoritySpace { whirlpool: w.pool };
                let mut metas: Vec<Meta> = acc.to_account_metas(None).iter().map(Meta::from).collect();
                if signed {
                    metas.push(Meta { key: w.stranger, signer: true, writable: false });
                }
                let data = ::whirlpool::instruction::MigrateRepurposeRewardAuthoritySpace {}.data();
                let before = w.bank.clone();
                let (res, out) = w.bank.execute(&metas, &data);
                if let Some(s) = finish(&w, &before, &res, &out, ctx, "migr") {
                    if pre != 0 {
                        ctx.viol(format!("migrate_repurpose_reward_authority_space fails on a pool that was not migrated yet: {}", s));
                    }
                    return s;
                }
                ctx.nontrivial(line);
                if pre == 0 {
                    ctx.viol("migrate_repurpose_reward_authority_space ran a second time on a migrated pool".to_string());
                }
                let after = Whirlpool::try_deserialize(&mut &w.bank.data(&w.pool)[..]).unwrap();
                let mut want = wp.clone();
                want.reward_infos[1].extension = [0u8; 32];
                want.reward_infos[2].extension = [0u8; 32];
                let mut wd = vec![];
                want.try_serialize(&mut wd).unwrap();
                wd.resize(Whirlpool::LEN, 0);
                if w.bank.data(&w.pool) != wd {
                    ctx.viol("C04/C19 migrate_repurpose_reward_authority_space changed something else than the former authority slots of rewards 1 and 2".to_string());
                }
                if after.reward_infos[0].extension != wp.reward_infos[0].extension {
                    ctx.viol("C04 migrate_repurpose_reward_authority_space changed the reward authority".to_string());
                }
                "ok".to_string()
            }
            "badge" | "dbadge" => {
                let delete = t[1] == "dbadge";
                let auth: u8 = t[2].parse().unwrap();
                let feature = pb(t[3]);
                let third = pb(t[4]);
                let other_ext = !delete && pb(t[5]);
                let mut w = world(64, 0);
                // this config with / without the TOKEN_BADGE feature; extensions of this and of another config
                {
                    let mut c = WhirlpoolsConfig::try_deserialize(&mut &w.bank.data(&w.cfg)[..]).unwrap();
                    c.feature_flags = if feature { 1 } else { 0 };
                    let mut d = vec![];
                    c.try_serialize(&mut d).unwrap();
                    d.resize(WhirlpoolsConfig::LEN, 0);
                    w.bank.set(w.cfg, pid, 10_000_000, d);
                }
                let (badge_auth, other_auth) = (k(0xFB, 8), k(0xFB, 9));
                for kk in [badge_auth, other_auth] {
                    w.bank.set(kk, sysid, 1_000_000, vec![]);
                }
                let cfg2 = k(0xF0, 2);
                let ext_of = |c: &Pubkey| Pubkey::find_program_address(&[b"config_extension", c.as_ref()], &pid).0;
                for (c, a) in [(w.cfg, badge_auth), (cfg2, other_auth)] {
                    let mut d = vec![];
                    WhirlpoolsConfigExtension { whirlpools_config: c, config_extension_authority: k(0xFB, 7), token_badge_authority: a }.try_serialize(&mut d).unwrap();
                    d.resize(WhirlpoolsConfigExtension::LEN, 0);
                    w.bank.set(ext_of(&c), pid, 5_000_000, d);
                }
                let mint = k(0xFC, 1);
                w.bank.set(mint, anchor_spl::token::ID, 5_000_000, mint_account(false, false, &[]));
                let badge = Pubkey::find_program_address(&[b"token_badge", w.cfg.as_ref(), mint.as_ref()], &pid).0;
                if third {
                    // badge: the address is taken; dbadge: the badge exists
                    let mut d = vec![];
                    TokenBadge { whirlpools_config: w.cfg, token_mint: mint, attribute_require_non_transferable_position: false }.try_serialize(&mut d).unwrap();
                    d.resize(TokenBadge::LEN, 0);
                    w.bank.set(badge, pid, 5_000_000, d);
                }
                let right = if other_ext { other_auth } else { badge_auth };
                let signer_key = if auth == 1 { w.stranger } else { right };
                let ext = if other_ext { ext_of(&cfg2) } else { ext_of(&w.cfg) };
                let (mut metas, data): (Vec<Meta>, Vec<u8>) = if delete {
                    let acc = ::whirlpool::accounts::DeleteTokenBadge { whirlpools_config: w.cfg, whirlpools_config_extension: ext, token_badge_authority: signer_key, token_mint: mint, token_badge: badge, receiver: w.funder };
                    (acc.to_account_metas(None).iter().map(Meta::from).collect(), ::whirlpool::instruction::DeleteTokenBadge {}.data())
                } else {
                    let acc = ::whirlpool::accounts::InitializeTokenBadge { whirlpools_config: w.cfg, whirlpools_config_extension: ext, token_badge_authority: signer_key, token_mint: mint, token_badge: badge, funder: w.funder, system_program: sysid };
                    (acc.to_account_metas(None).iter().map(Meta::from).collect(), ::whirlpool::instruction::InitializeTokenBadge {}.data())
                };
                if auth == 2 {
                    unsign(&mut metas, &signer_key);
                }
                let before = w.bank.clone();
                let (res, out) = w.bank.execute(&metas, &data);
                if let Some(s) = finish(&w, &before, &res, &out, ctx, t[1]) {
                    return s;
                }
                ctx.nontrivial(line);
                if auth != 0 {
                    ctx.viol(format!("C04/C19 a token badge was {} without the config's token-badge authority signing (mode {})", if delete { "deleted" } else { "issued" }, auth));
                }
                if other_ext {
                    ctx.viol("C19/C15 a token badge of this config was issued under the authority of ANOTHER config's extension".to_string());
                }
                if !feature {
                    ctx.viol("C19 a token badge instruction succeeded although the config's TOKEN_BADGE feature is off".to_string());
                }
                let a = w.bank.get(&badge);
                if delete {
                    if !third || (a.owner == pid && !a.data.is_empty()) {
                        ctx.viol("delete_token_badge succeeded but there was no badge / the badge is still there".to_string());
                    }
                } else {
                    if third {
                        ctx.viol("initialize_token_badge succeeded over an existing badge".to_string());
                    }
                    match TokenBadge::try_deserialize(&mut &a.data[..]) {
                        Ok(tb) if a.owner == pid && tb.whirlpools_config == w.cfg && tb.token_mint == mint && !tb.attribute_require_non_transferable_position => {}
                        _ => ctx.viol("the issued token badge does not name its config and mint".to_string()),
                    }
                }
                "ok".to_string()
            }
            "pool1" => {
                let ts: u16 = t[2].parse().unwrap();
                let tier_ts: u16 = t[3].parse().unwrap();
                let price: u128 = t[4].parse().unwrap();
                let order: u8 = t[5].parse().unwrap();
                let fee: u16 = t[6].parse().unwrap();
                let proto: u16 = t[7].parse().unwrap();
                let (p22a, p22b) = (pb(t[8]), pb(t[9]));
                let mut w = world(64, 0);
                {
                    let mut c = WhirlpoolsConfig::try_deserialize(&mut &w.bank.data(&w.cfg)[..]).unwrap();
                    c.default_protocol_fee_rate = proto;
                    let mut d = vec![];
                    c.try_serialize(&mut d).unwrap();
                    d.resize(WhirlpoolsConfig::LEN, 0);
                    w.bank.set(w.cfg, pid, 10_000_000, d);
                }
                let tier = k(0xF9, 2);
                let mut d = vec![];
                FeeTier { whirlpools_config: w.cfg, tick_spacing: tier_ts, default_fee_rate: fee }.try_serialize(&mut d).unwrap();
                d.resize(FeeTier::LEN, 0);
                w.bank.set(tier, pid, 10_000_000, d);
                let (lo, hi) = (k(0x81, 0x01), k(0x81, 0xFE));
                let (mint_a, mint_b) = match order {
                    0 => (lo, hi),
                    1 => (hi, lo),
                    _ => (lo, lo),
                };
                w.bank.set(mint_a, tokp(p22a), 5_000_000, mint_account(p22a, false, &[]));
                if order != 2 {
                    w.bank.set(mint_b, tokp(p22b), 5_000_000, mint_account(p22b, false, &[]));
                }
                let p22b = if order == 2 { p22a } else { p22b };
                let pool = Pubkey::find_program_address(&[b"whirlpool", w.cfg.as_ref(), mint_a.as_ref(), mint_b.as_ref(), &ts.to_le_bytes()], &pid).0;
                let (va, vb) = (k(0xFD, 1), k(0xFD, 2));
                let acc = ::whirlpool::accounts::InitializePool {
                    whirlpools_config: w.cfg,
                    token_mint_a: mint_a,
                    token_mint_b: mint_b,
                    funder: w.funder,
                    whirlpool: pool,
                    token_vault_a: va,
                    token_vault_b: vb,
                    fee_tier: tier,
                    token_program: anchor_spl::token::ID,
                    system_program: sysid,
                    rent: w.rent_id,
                };
                let mut metas: Vec<Meta> = acc.to_account_metas(None).iter().map(Meta::from).collect();
                for m in metas.iter_mut() {
                    if m.key == va || m.key == vb {
                        m.signer = true;
                    }
                }
                let data = ::whirlpool::instruction::InitializePool { bumps: WhirlpoolBumps { whirlpool_bump: 0 }, tick_spacing: ts, initial_sqrt_price: price }.data();
                let before = w.bank.clone();
                let (res, out) = w.bank.execute(&metas, &data);
                if let Some(s) = finish(&w, &before, &res, &out, ctx, "pool1") {
                    return s;
                }
                ctx.nontrivial(line);
                let ok = order == 0 && price >= 4295048016 && price <= 79226673515401279992447579055 && ts == tier_ts && fee <= 60000 && proto <= 2500 && !p22a && !p22b;
                if !ok {
                    ctx.viol(format!("C19 initialize_pool created a pool with out-of-bound / inconsistent parameters (order {}, price {}, spacing {} vs tier {}, fee {}, protocol fee {}, Token-2022 mints {} {})", order, price, ts, tier_ts, fee, proto, p22a, p22b));
                }
                let wp = Whirlpool::try_deserialize(&mut &w.bank.data(&pool)[..]).unwrap();
                if wp.whirlpools_config != w.cfg || wp.token_mint_a != mint_a || wp.token_mint_b != mint_b || wp.token_vault_a != va || wp.token_vault_b != vb || wp.tick_spacing != ts || wp.fee_rate != fee || wp.protocol_fee_rate != proto || { wp.sqrt_price } != price || wp.liquidity != 0 || wp.tick_current_index != ::whirlpool::math::tick_index_from_sqrt_price(&price) {
                    ctx.viol("C19/C15 the created pool does not record the accounts and parameters it was created with".to_string());
                }
                for (v, m) in [(va, mint_a), (vb, mint_b)] {
                    let a = w.bank.get(&v);
                    if a.owner != anchor_spl::token::ID || a.data.len() != 165 || a.data[0..32] != m.to_bytes() || a.data[32..64] != pool.to_bytes() {
                        ctx.viol("C15 a vault of the created pool is not a token account of the pool's mint owned by the pool".to_string());
                    }
                }
                format!("ok {} {} {} {}", wp.fee_rate, wp.protocol_fee_rate, { wp.sqrt_price }, wp.tick_current_index)
            }
            _ => "bad-op".to_string(),
        }
    }
}
