//! Families for C19: `mint` (is_supported_token_mint on synthesized Token / Token-2022 mint accounts
//! with arbitrary TLV data), `badge` (is_token_badge_initialized), `setfee`, `afc` (validate_constants),
//! `initpool` (Whirlpool::initialize argument checks).
use crate::fam_math::*;
use crate::rng::*;
use crate::{Ctx, Family};
use ::whirlpool::state::*;
use anchor_lang::prelude::*;
use anchor_lang::AccountSerialize;
use anchor_spl::token_2022::spl_token_2022;
use solana_program::program_option::COption;
use solana_program::program_pack::Pack;

pub fn register(v: &mut Vec<Box<dyn Family>>) {
    v.push(Box::new(MintFam));
    v.push(Box::new(BadgeFam));
    v.push(Box::new(SetFee));
    v.push(Box::new(Afc));
    v.push(Box::new(InitPool));
}

fn anchor_err_name(e: anchor_lang::error::Error) -> String {
    match e {
        anchor_lang::error::Error::AnchorError(a) => a.error_name.clone(),
        anchor_lang::error::Error::ProgramError(p) => format!("{:?}", p.program_error),
    }
}

fn hex(b: &[u8]) -> String {
    if b.is_empty() {
        "-".into()
    } else {
        b.iter().map(|x| format!("{:02x}", x)).collect()
    }
}
fn unhex(s: &str) -> Vec<u8> {
    if s == "-" {
        return vec![];
    }
    (0..s.len() / 2).map(|i| u8::from_str_radix(&s[2 * i..2 * i + 2], 16).unwrap()).collect()
}

struct MintFam;
impl Family for MintFam {
    fn name(&self) -> &'static str {
        "mint"
    }
    fn gen(&self, r: &mut Rng, _idx: u64) -> String {
        let prog = r.chance(5, 6);
        let native = r.chance(1, 12);
        let freeze = r.chance(1, 3);
        let badge = r.chance(1, 2);
        let mut tlv: Vec<u8> = vec![];
        if r.chance(5, 6) {
            let n = r.below(5);
            for _ in 0..n {
                let ty: u16 = match r.below(10) {
                    0 => r.pick(&[28u16, 29, 40, 255, 256, 1000, 65535]),
                    1 => 0,
                    2 | 3 => 6,
                    4 => r.pick(&[9u16, 2, 5, 7, 8, 11, 13, 15, 17, 20, 21, 22, 23, 24, 27]),
                    5 | 6 => r.pick(&[12u16, 14, 3, 26]),
                    _ => r.pick(&[1u16, 10, 19, 18, 25, 4, 16]),
                };
                let len: u16 = if ty == 6 && r.chance(5, 6) { 1 } else { r.below(12) as u16 };
                tlv.extend_from_slice(&ty.to_le_bytes());
                tlv.extend_from_slice(&len.to_le_bytes());
                for _ in 0..len {
                    tlv.push(if ty == 6 { r.pick(&[0u8, 1, 1, 2]) } else { r.below(256) as u8 });
                }
            }
            match r.below(8) {
                0 => {
                    let k = r.below(tlv.len() as u64 + 1) as usize;
                    tlv.truncate(k);
                }
                1 => tlv.extend_from_slice(&[1u8][..]),
                2 => tlv.extend_from_slice(&[1u8, 0, 200][..]),
                3 => tlv.extend_from_slice(&[0u8; 7][..]),
                _ => {}
            }
        }
        // avoid the multisig length (355) which Token-2022 treats specially
        if 166 + tlv.len() == 355 {
            tlv.push(0);
        }
        format!("mint {} {} {} {} {}", b(prog), b(native), b(freeze), b(badge), hex(&tlv))
    }
    fn run(&self, line: &str, ctx: &mut Ctx) -> String {
        let t = toks(line);
        let (prog, native, freeze, badge) = (pb(t[1]), pb(t[2]), pb(t[3]), pb(t[4]));
        let tlv = unhex(t[5]);
        let base = spl_token_2022::state::Mint {
            mint_authority: COption::Some(Pubkey::new_from_array([9u8; 32])),
            supply: 1000,
            decimals: 6,
            is_initialized: true,
            freeze_authority: if freeze { COption::Some(Pubkey::new_from_array([8u8; 32])) } else { COption::None },
        };
        let mut data = vec![0u8; 82];
        spl_token_2022::state::Mint::pack(base, &mut data).unwrap();
        if prog && !tlv.is_empty() {
            data.resize(165, 0);
            data.push(1); // AccountType::Mint
            data.extend_from_slice(&tlv);
        }
        let key = if native { spl_token_2022::native_mint::id() } else { Pubkey::new_from_array([5u8; 32]) };
        let owner = if prog { spl_token_2022::id() } else { anchor_spl::token::ID };
        let mut lam = 1u64;
        let info = AccountInfo::new(&key, false, false, &mut lam, &mut data, &owner, false, 0);
        let out = match InterfaceAccount::<anchor_spl::token_interface::Mint>::try_from(&info) {
            Err(e) => format!("err unpack:{}", anchor_err_name(e)),
            Ok(m) => match std::panic::catch_unwind(std::panic::AssertUnwindSafe(|| ::whirlpool::util::is_supported_token_mint(&m, badge))) {
                Err(_) => "err Panic".into(),
                Ok(Ok(true)) => "ok 1".into(),
                Ok(Ok(false)) => "ok 0".into(),
                Ok(Err(e)) => format!("err {}", anchor_err_name(e)),
            },
        };
        // property oracle on the published table (independent TLV walk)
        if out == "ok 1" {
            ctx.nontrivial(line);
            if prog {
                let mut types = vec![];
                let mut c = 0usize;
                let mut dstate: Option<u8> = None;
                while c + 4 <= tlv.len() {
                    let ty = u16::from_le_bytes([tlv[c], tlv[c + 1]]);
                    if ty == 0 {
                        break;
                    }
                    let len = u16::from_le_bytes([tlv[c + 2], tlv[c + 3]]) as usize;
                    if ty == 6 && dstate.is_none() && c + 4 < tlv.len() {
                        dstate = Some(tlv[c + 4]);
                    }
                    types.push(ty);
                    c += 4 + len;
                }
                let supported = [1u16, 10, 19, 18, 25, 4, 16];
                let gated = [12u16, 14, 3, 26, 6];
                let mut why = String::new();
                if native {
                    why = "native Token-2022 mint".into();
                }
                if freeze && !badge {
                    why = "freeze authority without token badge".into();
                }
                for ty in &types {
                    if supported.contains(ty) {
                        continue;
                    }
                    if gated.contains(ty) {
                        if !badge {
                            why = format!("badge-gated extension {} without token badge", ty);
                        }
                        continue;
                    }
                    why = format!("unsupported / unknown extension {}", ty);
                }
                if types.contains(&6) && dstate != Some(1) && !freeze {
                    why = "non-default account state without freeze authority".into();
                }
                if !why.is_empty() {
                    ctx.viol(format!("C19 mint admitted although: {}", why));
                }
            }
        }
        ctx.tag(&out.replace(' ', "_").chars().take(24).collect::<String>());
        out
    }
}

struct BadgeFam;
impl Family for BadgeFam {
    fn name(&self) -> &'static str {
        "badge"
    }
    fn exhaustive(&self) -> Option<u64> {
        Some(8)
    }
    fn gen(&self, _r: &mut Rng, idx: u64) -> String {
        format!("badge {} {} {}", idx & 1, (idx >> 1) & 1, (idx >> 2) & 1)
    }
    fn run(&self, line: &str, ctx: &mut Ctx) -> String {
        let t = toks(line);
        let (o, c, m) = (pb(t[1]), pb(t[2]), pb(t[3]));
        let cfg = Pubkey::new_from_array([1u8; 32]);
        let mint = Pubkey::new_from_array([2u8; 32]);
        let tb = TokenBadge {
            whirlpools_config: if c { cfg } else { Pubkey::new_from_array([3u8; 32]) },
            token_mint: if m { mint } else { Pubkey::new_from_array([4u8; 32]) },
            ..Default::default()
        };
        let mut data = vec![];
        tb.try_serialize(&mut data).unwrap();
        data.resize(TokenBadge::LEN, 0);
        let k = Pubkey::new_from_array([6u8; 32]);
        let owner = if o { ::whirlpool::ID } else { Pubkey::default() };
        let mut lam = 1u64;
        let info = AccountInfo::new(&k, false, false, &mut lam, &mut data, &owner, false, 0);
        let ua = UncheckedAccount::try_from(&info);
        let out = match ::whirlpool::util::is_token_badge_initialized(cfg, mint, &ua) {
            Ok(true) => "ok 1".to_string(),
            Ok(false) => "ok 0".to_string(),
            Err(e) => format!("err {}", anchor_err_name(e)),
        };
        if out == "ok 1" && !(o && c && m) {
            ctx.viol(format!("C19 token badge accepted with program_owned={} config_matches={} mint_matches={}", o, c, m));
        }
        ctx.nontrivial(line);
        out
    }
}

struct SetFee;
impl Family for SetFee {
    fn name(&self) -> &'static str {
        "setfee"
    }
    fn gen(&self, r: &mut Rng, _idx: u64) -> String {
        let kind = r.pick(&["w", "t", "a", "p", "c"]);
        let v = match r.below(4) {
            0 => r.pick(&[0u64, 2499, 2500, 2501, 59999, 60000, 60001, 65535]),
            _ => r.below(65536),
        };
        format!("setfee {} {}", kind, v)
    }
    fn run(&self, line: &str, ctx: &mut Ctx) -> String {
        let t = toks(line);
        let v: u16 = t[2].parse().unwrap();
        let (res, stored, limit): (std::result::Result<(), anchor_lang::error::Error>, u16, u16) = match t[1] {
            "w" => {
                let mut w = Whirlpool::default();
                let r = w.update_fee_rate(v);
                (r, w.fee_rate, 60000)
            }
            "t" => {
                let mut f = unsafe { std::mem::zeroed::<FeeTier>() };
                let r = f.update_default_fee_rate(v);
                (r, f.default_fee_rate, 60000)
            }
            "a" => {
                let mut f = unsafe { std::mem::zeroed::<AdaptiveFeeTier>() };
                let r = f.update_default_base_fee_rate(v);
                (r, f.default_base_fee_rate, 60000)
            }
            "p" => {
                let mut w = Whirlpool::default();
                let r = w.update_protocol_fee_rate(v);
                (r, w.protocol_fee_rate, 2500)
            }
            _ => {
                let mut c = unsafe { std::mem::zeroed::<WhirlpoolsConfig>() };
                let r = c.update_default_protocol_fee_rate(v);
                (r, c.default_protocol_fee_rate, 2500)
            }
        };
        let out = match res {
            Ok(()) => format!("ok {}", stored),
            Err(e) => format!("err {}", anchor_err_name(e)),
        };
        if stored > limit {
            ctx.viol(format!("C19 setter `{}` stored {} above the bound {}", t[1], stored, limit));
        }
        if out.starts_with("ok") {
            ctx.nontrivial(line);
        }
        // the model has two functions: fee-rate-like and protocol-fee-rate-like
        out
    }
}

struct Afc;
impl Family for Afc {
    fn name(&self) -> &'static str {
        "afc"
    }
    fn gen(&self, r: &mut Rng, _idx: u64) -> String {
        let ts = r.pick(&[1u64, 2, 8, 64, 128, 256, 32896]);
        let f = r.pick(&[0u64, 1, 30, 600, 65535]);
        let d = match r.below(4) {
            0 => f,
            1 => f + 1,
            2 => f.saturating_sub(1),
            _ => r.pick(&[0u64, 1, 600, 3600, 65535]),
        }
        .min(65535);
        let rf = r.pick(&[0u64, 1, 5000, 9999, 10000, 10001, 65535]);
        let cf = r.pick(&[0u64, 1, 4000, 99999, 100000, 100001, 4294967295]);
        let gs = match r.below(4) {
            0 => 0,
            1 => ts,
            2 => ts + 1,
            _ => r.pick(&[1u64, 2, 3, 8, 16, 64]),
        }
        .min(65535);
        let mv = match r.below(4) {
            0 => 4294967295 / gs.max(1),
            1 => 4294967295 / gs.max(1) + 1,
            2 => r.pick(&[0u64, 1, 350000, 4294967295]),
            _ => r.below(1 << 32),
        }
        .min(u32::MAX as u64);
        let th = match r.below(4) {
            0 => 0,
            1 => (ts * 88).min(65535),
            2 => (ts * 88 + 1).min(65535),
            _ => r.below(65536),
        };
        format!("afc {} {} {} {} {} {} {} {}", ts, f, d, rf, cf, mv, gs, th)
    }
    fn run(&self, line: &str, ctx: &mut Ctx) -> String {
        let t = toks(line);
        let n = |i: usize| -> u64 { t[i].parse().unwrap() };
        let ok = AdaptiveFeeConstants::validate_constants(n(1) as u16, n(2) as u16, n(3) as u16, n(4) as u16, n(5) as u32, n(6) as u32, n(7) as u16, n(8) as u16);
        if ok {
            ctx.nontrivial(line);
            let (ts, f, d, rf, cf, mv, gs, th) = (n(1), n(2), n(3), n(4), n(5), n(6), n(7), n(8));
            // published validity rules
            if !(f >= 1 && d > f && rf < 10000 && cf < 100000 && gs >= 1 && gs <= ts && ts % gs == 0 && mv * gs <= u32::MAX as u64 && th >= 1 && th <= ts * 88) {
                ctx.viol(format!("C19 validate_constants accepted constants violating the published rules: {}", line));
            }
        }
        format!("ok {}", b(ok))
    }
}

struct InitPool;
impl Family for InitPool {
    fn name(&self) -> &'static str {
        "initpool"
    }
    fn gen(&self, r: &mut Rng, _idx: u64) -> String {
        let ma = r.below(4);
        let mb = r.below(4);
        let price = match r.below(5) {
            0 => r.pick(&[0u128, 1, 4295048015, 4295048016, 79226673515401279992447579055, 79226673515401279992447579056, u128::MAX]),
            _ => r.sqrt_price(),
        };
        format!("initpool {} {} {} {} {} {}", ma, mb, price, r.tick_spacing(), r.pick(&[0u64, 3000, 60000, 60001, 65535]), r.pick(&[0u64, 300, 2500, 2501, 65535]))
    }
    fn run(&self, line: &str, ctx: &mut Ctx) -> String {
        let t = toks(line);
        let (ma, mb): (u8, u8) = (t[1].parse().unwrap(), t[2].parse().unwrap());
        let price = p128(t[3]);
        let ts: u16 = t[4].parse().unwrap();
        let (fr, pr): (u16, u16) = (t[5].parse().unwrap(), t[6].parse().unwrap());
        // a config account carrying the default protocol fee rate
        let mut cfg = unsafe { std::mem::zeroed::<WhirlpoolsConfig>() };
        cfg.default_protocol_fee_rate = pr; // raw: the bound must be re-checked by Whirlpool::initialize
        let mut cdata = vec![];
        cfg.try_serialize(&mut cdata).unwrap();
        cdata.resize(WhirlpoolsConfig::LEN, 0);
        let ck = Pubkey::new_from_array([1u8; 32]);
        let owner = ::whirlpool::ID;
        let mut lam = 1u64;
        let cinfo = AccountInfo::new(&ck, false, false, &mut lam, &mut cdata, &owner, false, 0);
        let cacc = Account::<WhirlpoolsConfig>::try_from(&cinfo).unwrap();
        let mut w = Whirlpool::default();
        let mk = |x: u8| Pubkey::new_from_array([x + 10; 32]);
        let res = std::panic::catch_unwind(std::panic::AssertUnwindSafe(|| {
            w.initialize(&cacc, ts, 255, ts, price, fr, mk(ma), mk(50), mk(mb), mk(51), WhirlpoolControlFlags::empty())
        }));
        let out = match res {
            Err(_) => "err Panic".to_string(),
            Ok(Err(e)) => format!("err {}", anchor_err_name(e)),
            Ok(Ok(())) => format!("ok {} {} {} {} {}", { w.fee_rate }, { w.protocol_fee_rate }, { w.sqrt_price }, { w.tick_current_index }, { w.tick_spacing }),
        };
        if out.starts_with("ok") {
            ctx.nontrivial(line);
            if !(ma < mb && price >= 4295048016 && price <= 79226673515401279992447579055 && fr <= 60000 && pr <= 2500 && ts > 0) {
                ctx.viol(format!("C19 pool initialised with out-of-bound parameters: {}", line));
            }
        }
        out
    }
}
