//! Function-level families over programs/whirlpool/src/math: sp, ti, da, db, nsp, step, est,
//! mdr, msr, d256.  Oracles use exact big-integer arithmetic, independent of the Lean model.
use crate::rng::*;
use crate::{catch, Ctx, Family};
use num_bigint::BigUint;
use num_traits::{One, Zero};
use whirlpool::math::*;

pub fn register(v: &mut Vec<Box<dyn Family>>) {
    v.push(Box::new(SpAll));
    v.push(Box::new(TiBoundary));
    v.push(Box::new(TiRandom));
    v.push(Box::new(Delta { a: true }));
    v.push(Box::new(Delta { a: false }));
    v.push(Box::new(Nsp));
    v.push(Box::new(Step));
    v.push(Box::new(MulDiv));
    v.push(Box::new(MulShift));
    v.push(Box::new(Div256));
}

pub fn toks(line: &str) -> Vec<&str> {
    line.split_whitespace().collect()
}
pub fn p128(s: &str) -> u128 {
    s.parse().unwrap()
}
pub fn p64(s: &str) -> u64 {
    s.parse().unwrap()
}
pub fn pb(s: &str) -> bool {
    s == "1"
}
pub fn b(x: bool) -> u8 {
    x as u8
}
pub fn big(x: u128) -> BigUint {
    BigUint::from(x)
}
pub fn q64() -> BigUint {
    BigUint::one() << 64
}
pub fn ceil_div(n: &BigUint, d: &BigUint) -> BigUint {
    (n + d - BigUint::one()) / d
}
pub fn err_name<E: std::fmt::Debug>(e: E) -> String {
    format!("err {:?}", e)
}

// ---------------------------------------------------------------------------------------
// sp: every tick, exhaustive.  Oracle: C09 forward facts on the real function.
// ---------------------------------------------------------------------------------------
struct SpAll;
impl Family for SpAll {
    fn name(&self) -> &'static str {
        "sp"
    }
    fn exhaustive(&self) -> Option<u64> {
        Some((MAX_TICK - MIN_TICK + 1) as u64)
    }
    fn gen(&self, _r: &mut Rng, idx: u64) -> String {
        format!("sp {}", MIN_TICK as i64 + idx as i64)
    }
    fn run(&self, line: &str, ctx: &mut Ctx) -> String {
        let t: i32 = toks(line)[1].parse().unwrap();
        let p = sqrt_price_from_tick_index(t);
        ctx.nontrivial(line);
        if t == MIN_TICK && p != MIN_SQRT_PRICE_X64 {
            ctx.viol(format!("C09 endpoint: sp(MIN_TICK)={} != MIN_SQRT_PRICE_X64", p));
        }
        if t == MAX_TICK && p != MAX_SQRT_PRICE_X64 {
            ctx.viol(format!("C09 endpoint: sp(MAX_TICK)={} != MAX_SQRT_PRICE_X64", p));
        }
        if t < MAX_TICK {
            let q = sqrt_price_from_tick_index(t + 1);
            if q <= p {
                ctx.viol(format!("C09 monotone: sp({})={} >= sp({})={}", t, p, t + 1, q));
            } else {
                // (q/p)^2 = 1.0001 within 2^-32 relative on the ratio
                let two32 = BigUint::one() << 32;
                let qq: BigUint = big(q) * &two32;
                let lhs = qq.pow(2) * 10000u32;
                let pl: BigUint = big(p) * (&two32 - 1u32);
                let lo = pl.pow(2) * 10001u32;
                let ph: BigUint = big(p) * (&two32 + 1u32);
                let hi = ph.pow(2) * 10001u32;
                if !(lo <= lhs && lhs <= hi) {
                    ctx.viol(format!("C09 step error: sp({})={} sp({})={} ratio off by more than 2^-32", t, p, t + 1, q));
                }
            }
        }
        format!("ok {}", p)
    }
}

fn ti_check(p: u128, ctx: &mut Ctx) -> String {
    let r = std::panic::catch_unwind(|| tick_index_from_sqrt_price(&p));
    match r {
        Err(_) => {
            ctx.viol(format!("C09 inverse: tick_index_from_sqrt_price({}) panics", p));
            "err Panic".into()
        }
        Ok(t) => {
            if p >= MIN_SQRT_PRICE_X64 && p <= MAX_SQRT_PRICE_X64 {
                let ok_lo = t >= MIN_TICK && t <= MAX_TICK && sqrt_price_from_tick_index(t) <= p;
                let ok_hi = t >= MAX_TICK || p < sqrt_price_from_tick_index(t + 1);
                if !(ok_lo && ok_hi) {
                    ctx.viol(format!("C09 inverse: ti({})={} is not the tick with sp(t) <= p < sp(t+1)", p, t));
                }
            }
            format!("ok {}", t)
        }
    }
}

/// every tick boundary and one unit either side: 3 prices per tick
struct TiBoundary;
impl Family for TiBoundary {
    fn name(&self) -> &'static str {
        "tib"
    }
    fn exhaustive(&self) -> Option<u64> {
        Some(3 * (MAX_TICK - MIN_TICK + 1) as u64)
    }
    fn gen(&self, _r: &mut Rng, idx: u64) -> String {
        let t = MIN_TICK as i64 + (idx / 3) as i64;
        let p = sqrt_price_from_tick_index(t as i32) as i128 + (idx % 3) as i128 - 1;
        let p = (p as u128).clamp(MIN_SQRT_PRICE_X64, MAX_SQRT_PRICE_X64);
        format!("ti {}", p)
    }
    fn run(&self, line: &str, ctx: &mut Ctx) -> String {
        ctx.nontrivial(line);
        ti_check(p128(toks(line)[1]), ctx)
    }
}

struct TiRandom;
impl Family for TiRandom {
    fn name(&self) -> &'static str {
        "tir"
    }
    fn gen(&self, r: &mut Rng, _idx: u64) -> String {
        format!("ti {}", r.sqrt_price())
    }
    fn run(&self, line: &str, ctx: &mut Ctx) -> String {
        ctx.nontrivial(line);
        ti_check(p128(toks(line)[1]), ctx)
    }
}

// ---------------------------------------------------------------------------------------
// da / db : try_get_amount_delta_a/b.  Oracle: exact ceil/floor.
// ---------------------------------------------------------------------------------------
pub fn exact_a(lo: u128, hi: u128, l: u128) -> (BigUint, BigUint) {
    // L * Q * (hi-lo) / (hi*lo)
    (big(l) * q64() * big(hi - lo), big(hi) * big(lo))
}
pub fn exact_b(lo: u128, hi: u128, l: u128) -> (BigUint, BigUint) {
    (big(l) * big(hi - lo), q64())
}
pub fn round(nd: &(BigUint, BigUint), up: bool) -> BigUint {
    if up {
        ceil_div(&nd.0, &nd.1)
    } else {
        &nd.0 / &nd.1
    }
}

fn show_delta(r: Result<AmountDeltaU64, whirlpool::errors::ErrorCode>) -> String {
    match r {
        Ok(AmountDeltaU64::Valid(v)) => format!("ok valid {}", v),
        Ok(AmountDeltaU64::ExceedsMax(e)) => format!("ok exceeds {:?}", e),
        Err(e) => err_name(e),
    }
}

struct Delta {
    a: bool,
}
impl Family for Delta {
    fn name(&self) -> &'static str {
        if self.a {
            "da"
        } else {
            "db"
        }
    }
    fn gen(&self, r: &mut Rng, _idx: u64) -> String {
        let p0 = r.sqrt_price();
        let p1 = if r.chance(1, 3) {
            r.sqrt_price()
        } else {
            let t = tick_index_from_sqrt_price(&p0);
            let d = r.range_i(-3000, 3000) as i32;
            sqrt_price_from_tick_index((t + d).clamp(MIN_TICK, MAX_TICK))
        };
        format!("{} {} {} {} {}", self.name(), p0, p1, r.liquidity(), b(r.chance(1, 2)))
    }
    fn run(&self, line: &str, ctx: &mut Ctx) -> String {
        let t = toks(line);
        let (p0, p1, l, up) = (p128(t[1]), p128(t[2]), p128(t[3]), pb(t[4]));
        let a = self.a;
        let out = catch(move || show_delta(if a { try_get_amount_delta_a(p0, p1, l, up) } else { try_get_amount_delta_b(p0, p1, l, up) }));
        ctx.tag(&out.split(' ').take(2).collect::<Vec<_>>().join("_"));
        if p0 >= MIN_SQRT_PRICE_X64 && p1 >= MIN_SQRT_PRICE_X64 {
            let (lo, hi) = if p0 > p1 { (p1, p0) } else { (p0, p1) };
            let ex = if a { exact_a(lo, hi, l) } else { exact_b(lo, hi, l) };
            let want = round(&ex, up);
            if let Some(v) = out.strip_prefix("ok valid ") {
                if !want.is_zero() {
                    ctx.nontrivial(line);
                }
                if big(p128(v)) != want {
                    ctx.viol(format!("C02/C08 exact amount: {} returned {} but exact {} is {}", self.name(), v, if up { "ceil" } else { "floor" }, want));
                }
            } else if out.starts_with("ok exceeds") {
                if want <= big(u64::MAX as u128) {
                    ctx.viol(format!("{} reports overflow but exact amount {} fits u64", self.name(), want));
                }
            }
        }
        out
    }
}

// ---------------------------------------------------------------------------------------
// nsp : get_next_sqrt_price
// ---------------------------------------------------------------------------------------
struct Nsp;
impl Family for Nsp {
    fn name(&self) -> &'static str {
        "nsp"
    }
    fn gen(&self, r: &mut Rng, _idx: u64) -> String {
        format!("nsp {} {} {} {} {}", r.sqrt_price(), r.liquidity(), r.u64_amount(), b(r.chance(1, 2)), b(r.chance(1, 2)))
    }
    fn run(&self, line: &str, ctx: &mut Ctx) -> String {
        let t = toks(line);
        let (p, l, amt, ein, dir) = (p128(t[1]), p128(t[2]), p64(t[3]), pb(t[4]), pb(t[5]));
        let out = catch(move || match get_next_sqrt_price(p, l, amt, ein, dir) {
            Ok(v) => format!("ok {}", v),
            Err(e) => err_name(e),
        });
        ctx.tag(&format!("{}_{}{}", out.split(' ').next().unwrap(), b(ein), b(dir)));
        if out.starts_with("ok") {
            ctx.nontrivial(line);
        }
        out
    }
}

// ---------------------------------------------------------------------------------------
// step : compute_swap.  Oracle: the clauses of C02 and the per-step clause of C06.
// ---------------------------------------------------------------------------------------
pub struct Step;

pub fn gen_step_args(r: &mut Rng) -> (u64, u32, u128, u128, u128, bool, bool) {
    let ein = r.chance(1, 2);
    let dir = r.chance(1, 2);
    let rate = r.fee_rate();
    let cur = r.sqrt_price();
    let liq = r.liquidity();
    let style = r.below(10);
    // target: a few ticks away in the trade direction (mostly), sometimes anything
    let tgt = if style == 0 {
        r.sqrt_price()
    } else {
        let t = tick_index_from_sqrt_price(&cur);
        let d = match r.below(4) {
            0 => 1,
            1 => r.range_i(1, 64) as i32,
            2 => r.range_i(1, 3000) as i32,
            _ => r.range_i(1, 900000) as i32,
        };
        let tt = if dir { t - d } else { t + 1 + d };
        let p = sqrt_price_from_tick_index(tt.clamp(MIN_TICK, MAX_TICK));
        if dir {
            p.min(cur)
        } else {
            p.max(cur)
        }
    };
    // amount: relative to what the whole move needs, so that both max and non-max steps occur
    let rem = if style <= 2 {
        r.u64_amount()
    } else {
        let a_fixed = dir == ein;
        let need = if a_fixed { try_get_amount_delta_a(cur, tgt, liq, ein) } else { try_get_amount_delta_b(cur, tgt, liq, ein) };
        match need {
            Ok(AmountDeltaU64::Valid(v)) if v > 0 => {
                let f = r.below(2200) as u128; // 0 .. 2.2x
                let x = (v as u128 * f / 1000).min(u64::MAX as u128) as u64;
                match r.below(4) {
                    0 => x,
                    1 => v.saturating_add(r.below(3)).saturating_sub(1),
                    _ => x.saturating_add(r.below(5)),
                }
            }
            _ => r.u64_amount(),
        }
    };
    (rem, rate, liq, cur, tgt, ein, dir)
}

#[derive(Clone)]
pub struct StepOut {
    pub amount_in: u64,
    pub amount_out: u64,
    pub next: u128,
    pub fee: u64,
}

/// the C02 / C06-step oracle on one successful compute_swap result
pub fn step_oracle(rem: u64, rate: u32, liq: u128, cur: u128, tgt: u128, ein: bool, dir: bool, o: &StepOut, ctx: &mut Ctx) -> bool {
    let inb = |p: u128| p >= MIN_SQRT_PRICE_X64 && p <= MAX_SQRT_PRICE_X64;
    if !(inb(cur) && inb(tgt)) || rate > 100_000 || (dir && tgt > cur) || (!dir && tgt < cur) {
        return false;
    }
    let mut bad = |s: String| ctx.viol(s);
    // 1. direction, not past target
    let dir_ok = if dir { tgt <= o.next && o.next <= cur } else { cur <= o.next && o.next <= tgt };
    if !dir_ok {
        bad(format!("C02 direction: next price {} not between current {} and target {} (a_to_b={})", o.next, cur, tgt, dir));
        return true;
    }
    let (lo, hi) = if o.next < cur { (o.next, cur) } else { (cur, o.next) };
    let ex_in = if dir { exact_a(lo, hi, liq) } else { exact_b(lo, hi, liq) };
    let ex_out = if dir { exact_b(lo, hi, liq) } else { exact_a(lo, hi, liq) };
    // 2. exact amounts
    let want_in = round(&ex_in, true);
    if big(o.amount_in as u128) != want_in {
        bad(format!("C02 input: amount_in {} != ceil(exact input) {}", o.amount_in, want_in));
    }
    let floor_out = round(&ex_out, false);
    let want_out = if ein { floor_out.clone() } else { floor_out.clone().min(big(rem as u128)) };
    if big(o.amount_out as u128) != want_out {
        bad(format!("C02 output: amount_out {} != floor(exact output){} {}", o.amount_out, if ein { "" } else { " capped at request" }, want_out));
    }
    let amount_calc: u128 = if ein { rem as u128 * (1_000_000 - rate as u128) / 1_000_000 } else { rem as u128 };
    if o.next != tgt {
        // 3. tightness, to within one representable price unit
        if ein {
            let further = if dir { o.next - 1 } else { o.next + 1 };
            let (l2, h2) = if further < cur { (further, cur) } else { (cur, further) };
            let e2 = if dir { exact_a(l2, h2, liq) } else { exact_b(l2, h2, liq) };
            if round(&e2, true) <= big(amount_calc) {
                bad(format!("C02 tightness: exact-in step stopped at {} but one price unit further still fits the net budget {}", o.next, amount_calc));
            }
            if big(o.amount_in as u128) > big(amount_calc) {
                bad(format!("C02 budget: amount_in {} exceeds net budget {}", o.amount_in, amount_calc));
            }
        } else {
            if o.next != cur {
                let nearer = if dir { o.next + 1 } else { o.next - 1 };
                let (l2, h2) = if nearer < cur { (nearer, cur) } else { (cur, nearer) };
                let e2 = if dir { exact_b(l2, h2, liq) } else { exact_a(l2, h2, liq) };
                if round(&e2, false) >= big(rem as u128) {
                    bad(format!("C02 tightness: exact-out step moved to {} but one price unit less already delivers the request {}", o.next, rem));
                }
            }
        }
        // 4. exhaustion
        if ein {
            if o.amount_in as u128 + o.fee as u128 != rem as u128 {
                bad(format!("C02 exhaustion: stopped short of target but amount_in {} + fee {} != remaining {}", o.amount_in, o.fee, rem));
            }
        } else if o.amount_out != rem {
            bad(format!("C02 exhaustion: stopped short of target but amount_out {} != requested {}", o.amount_out, rem));
        }
    } else if ein {
        // reaching the target must be affordable
        if big(o.amount_in as u128) > big(amount_calc) {
            bad(format!("C02 budget: amount_in {} exceeds net budget {} on a max step", o.amount_in, amount_calc));
        }
    }
    // 5. fee (C06 per-step clause)
    if !(ein && o.next != tgt) {
        let want_fee = ceil_div(&(big(o.amount_in as u128) * big(rate as u128)), &big(1_000_000 - rate as u128));
        if big(o.fee as u128) != want_fee {
            bad(format!("C06 fee: fee {} != ceil(in*rate/(1e6-rate)) = {}", o.fee, want_fee));
        }
    }
    true
}

impl Family for Step {
    fn name(&self) -> &'static str {
        "step"
    }
    fn gen(&self, r: &mut Rng, _idx: u64) -> String {
        let (rem, rate, liq, cur, tgt, ein, dir) = gen_step_args(r);
        format!("step {} {} {} {} {} {} {}", rem, rate, liq, cur, tgt, b(ein), b(dir))
    }
    fn run(&self, line: &str, ctx: &mut Ctx) -> String {
        let t = toks(line);
        let (rem, rate, liq, cur, tgt, ein, dir) = (p64(t[1]), t[2].parse::<u32>().unwrap(), p128(t[3]), p128(t[4]), p128(t[5]), pb(t[6]), pb(t[7]));
        let res = std::panic::catch_unwind(move || compute_swap(rem, rate, liq, cur, tgt, ein, dir));
        match res {
            Err(_) => {
                ctx.tag("panic");
                "err Panic".into()
            }
            Ok(Err(e)) => {
                ctx.tag(&format!("err_{:?}", e));
                err_name(e)
            }
            Ok(Ok(s)) => {
                let o = StepOut { amount_in: s.amount_in, amount_out: s.amount_out, next: s.next_price, fee: s.fee_amount };
                let kind = format!("ok_{}{}_{}", b(ein), b(dir), if o.next == tgt { "max" } else if o.next == cur { "still" } else { "partial" });
                ctx.tag(&kind);
                if step_oracle(rem, rate, liq, cur, tgt, ein, dir, &o, ctx) && (o.amount_in > 0 || o.amount_out > 0) {
                    ctx.nontrivial(line);
                }
                format!("ok {} {} {} {}", o.amount_in, o.amount_out, o.next, o.fee)
            }
        }
    }
}

// ---------------------------------------------------------------------------------------
// bit_math families
// ---------------------------------------------------------------------------------------
struct MulDiv;
impl Family for MulDiv {
    fn name(&self) -> &'static str {
        "mdr"
    }
    fn gen(&self, r: &mut Rng, _idx: u64) -> String {
        { let w = if r.chance(1, 2) { 64 } else { 128 }; format!("mdr {} {} {} {}", r.log_u128(128), r.log_u128(w), r.log_u128(128), b(r.chance(1, 2))) }
    }
    fn run(&self, line: &str, ctx: &mut Ctx) -> String {
        let t = toks(line);
        let (n0, n1, d, up) = (p128(t[1]), p128(t[2]), p128(t[3]), pb(t[4]));
        let out = catch(move || match checked_mul_div_round_up_if(n0, n1, d, up) {
            Ok(v) => format!("ok {}", v),
            Err(e) => err_name(e),
        });
        if out.starts_with("ok") {
            ctx.nontrivial(line);
        }
        ctx.tag(out.split(' ').next().unwrap());
        out
    }
}

struct MulShift;
impl Family for MulShift {
    fn name(&self) -> &'static str {
        "msr"
    }
    fn gen(&self, r: &mut Rng, _idx: u64) -> String {
        { let w = if r.chance(1, 2) { 64 } else { 128 }; format!("msr {} {} {}", r.log_u128(128), r.log_u128(w), b(r.chance(1, 2))) }
    }
    fn run(&self, line: &str, ctx: &mut Ctx) -> String {
        let t = toks(line);
        let (n0, n1, up) = (p128(t[1]), p128(t[2]), pb(t[3]));
        let out = catch(move || match checked_mul_shift_right_round_up_if(n0, n1, up) {
            Ok(v) => format!("ok {}", v),
            Err(e) => err_name(e),
        });
        if out.starts_with("ok") {
            ctx.nontrivial(line);
        }
        ctx.tag(out.split(' ').next().unwrap());
        out
    }
}

/// div_round_up_if_u256 on U256Muldiv: validates the trusted-base item "U256Muldiv::div = Nat division"
struct Div256;
fn to_md(x: &BigUint) -> U256Muldiv {
    let m = (BigUint::one() << 128) - 1u32;
    let lo: u128 = (x & &m).try_into().unwrap();
    let hi: u128 = (x >> 128u32).try_into().unwrap();
    U256Muldiv::new(hi, lo)
}
impl Family for Div256 {
    fn name(&self) -> &'static str {
        "d256"
    }
    fn gen(&self, r: &mut Rng, _idx: u64) -> String {
        let nb = r.below(257) as u32;
        let db = 1 + r.below(256) as u32;
        let mk = |r: &mut Rng, bits: u32| -> BigUint {
            let mut x = (big(r.next128()) << 128) | big(r.next128());
            // sprinkle words of all-ones / zeros to hit q-hat corrections
            if r.chance(1, 3) {
                let w = r.below(4) as u32;
                let mask = big(u64::MAX as u128) << (64 * w);
                if r.chance(1, 2) {
                    x |= mask;
                } else {
                    x = &x ^ (&x & &mask);
                }
            }
            if bits == 0 {
                BigUint::zero()
            } else {
                (x & ((BigUint::one() << bits) - 1u32)) | (BigUint::one() << (bits - 1))
            }
        };
        let n = mk(r, nb);
        let d = mk(r, db);
        format!("d256 {} {} {}", n, d, b(r.chance(1, 2)))
    }
    fn run(&self, line: &str, ctx: &mut Ctx) -> String {
        let t = toks(line);
        let n: BigUint = t[1].parse().unwrap();
        let d: BigUint = t[2].parse().unwrap();
        let up = pb(t[3]);
        let (nm, dm) = (to_md(&n), to_md(&d));
        let out = catch(move || match div_round_up_if_u256(nm, dm, up) {
            Ok(v) => format!("ok {}", v),
            Err(e) => err_name(e),
        });
        if out == "err Panic" && !d.is_zero() {
            // known abort of U256Muldiv::div (div_loop add-back with carry word): classified, not compared
            ctx.tag("impl-abort");
            let q = if up { ceil_div(&n, &d) } else { &n / &d };
            return if q <= big(u128::MAX) { format!("ok {}", q) } else { "err NumberDownCastError".into() };
        }
        if out.starts_with("ok") {
            ctx.nontrivial(line);
        }
        ctx.tag(out.split(' ').next().unwrap());
        out
    }
}
