//! C13 (and the tick-array part of C12): one operation sequence applied to
//!   ad: a dynamic tick array through the Anchor accessor (DynamicTickArrayLoader)
//!   pd: a dynamic tick array through the Pinocchio accessor (MemoryMappedDynamicTickArray)
//!   mx: a dynamic tick array through BOTH accessors alternately
//!   af: a fixed tick array through the Anchor accessor (FixedTickArray)
//!   pf: a fixed tick array through the Pinocchio accessor (MemoryMappedFixedTickArray)
//! and to an abstract map slot -> tick.  Oracles: same tick contents / next-initialized answers /
//! errors from all accessors; bitmap = set of initialized slots; bytes = tags and 112-byte payloads
//! in slot order; used length 148 + 112 n; the three dynamic arrays byte-identical on the used part.
//!
//!   D new <start> <ts>
//!   D upd <tick> <init> <net> <gross> <fa> <fb> <r0> <r1> <r2>
//!   D get <tick>
//!   D next <tick> <a2b>
use crate::fam_math::{b, p128, pb, toks};
use crate::rng::*;
use crate::{Ctx, Family};
use ::whirlpool::pinocchio::verif_export as pino;
use ::whirlpool::state::*;
use pino::whirlpool::TickArray as _;
use anchor_lang::Discriminator;
use std::cell::RefCell;
use std::collections::VecDeque;

pub fn register(v: &mut Vec<Box<dyn Family>>) {
    v.push(Box::new(Dyn { w: RefCell::new(None), plan: RefCell::new(VecDeque::new()), exhaustive: false }));
    v.push(Box::new(Dyn { w: RefCell::new(None), plan: RefCell::new(VecDeque::new()), exhaustive: true }));
    v.push(Box::new(POff));
}

const DYN_MAX: usize = 8 + 4 + 32 + 16 + 113 * 88;
const REPS: [i32; 7] = [0, 1, 63, 64, 65, 86, 87];

fn anchor_err_name(e: anchor_lang::error::Error) -> String {
    match e {
        anchor_lang::error::Error::AnchorError(a) => a.error_name.clone(),
        anchor_lang::error::Error::ProgramError(p) => format!("ProgramError({:?})", p.program_error),
    }
}
fn pino_err_name(e: pino::UnifiedError) -> String {
    match e {
        pino::UnifiedError::Anchor(a) => anchor_err_name(a),
        pino::UnifiedError::Pinocchio(p) => format!("PinocchioError({:?})", p),
    }
}

#[derive(Clone, Copy, PartialEq, Debug, Default)]
struct T {
    init: bool,
    net: i128,
    gross: u128,
    fa: u128,
    fb: u128,
    r: [u128; 3],
}
impl T {
    fn show(&self) -> String {
        format!("{} {} {} {} {} {} {} {}", b(self.init), self.net, self.gross, self.fa, self.fb, self.r[0], self.r[1], self.r[2])
    }
    fn anchor(&self) -> TickUpdate {
        TickUpdate {
            initialized: self.init,
            liquidity_net: self.net,
            liquidity_gross: self.gross,
            fee_growth_outside_a: self.fa,
            fee_growth_outside_b: self.fb,
            reward_growths_outside: self.r,
        }
    }
    fn pino(&self) -> pino::whirlpool::TickUpdate {
        pino::whirlpool::TickUpdate {
            initialized: self.init,
            liquidity_net: self.net,
            liquidity_gross: self.gross,
            fee_growth_outside_a: self.fa,
            fee_growth_outside_b: self.fb,
            reward_growths_outside: self.r,
        }
    }
    fn from_anchor(t: &Tick) -> T {
        T { init: t.initialized, net: t.liquidity_net, gross: t.liquidity_gross, fa: t.fee_growth_outside_a, fb: t.fee_growth_outside_b, r: t.reward_growths_outside }
    }
    fn from_pino(t: &pino::whirlpool::MemoryMappedTick) -> T {
        T { init: t.initialized(), net: t.liquidity_net(), gross: t.liquidity_gross(), fa: t.fee_growth_outside_a(), fb: t.fee_growth_outside_b(), r: t.reward_growths_outside() }
    }
    fn payload(&self) -> Vec<u8> {
        let mut v = vec![];
        v.extend_from_slice(&self.net.to_le_bytes());
        v.extend_from_slice(&self.gross.to_le_bytes());
        v.extend_from_slice(&self.fa.to_le_bytes());
        v.extend_from_slice(&self.fb.to_le_bytes());
        for x in self.r {
            v.extend_from_slice(&x.to_le_bytes());
        }
        v
    }
}

struct World {
    start: i32,
    ts: u16,
    ad: Vec<u8>,
    pd: Vec<u8>,
    mx: Vec<u8>,
    af: Vec<u8>,
    pf: Vec<u8>,
    shadow: Vec<T>,
    nops: u64,
}

fn new_dyn(start: i32, extra: usize) -> Vec<u8> {
    let mut data = vec![0u8; DYN_MAX + extra];
    data[..8].copy_from_slice(DynamicTickArray::DISCRIMINATOR);
    data[8..12].copy_from_slice(&start.to_le_bytes());
    data
}
fn new_fixed(start: i32) -> Vec<u8> {
    let arr = FixedTickArray { start_tick_index: start, ..Default::default() };
    let mut data = FixedTickArray::DISCRIMINATOR.to_vec();
    data.extend_from_slice(bytemuck::bytes_of(&arr));
    data
}

fn a_dyn(d: &mut [u8]) -> &mut DynamicTickArrayLoader {
    DynamicTickArrayLoader::load_mut(&mut d[8..])
}
fn a_fix(d: &mut [u8]) -> &mut FixedTickArray {
    bytemuck::from_bytes_mut(&mut d[8..])
}
fn p_dyn(d: &mut [u8]) -> &mut pino::whirlpool::tick_array::dynamic_tick_array::MemoryMappedDynamicTickArray {
    unsafe { &mut *(d.as_mut_ptr() as *mut pino::whirlpool::tick_array::dynamic_tick_array::MemoryMappedDynamicTickArray) }
}
fn p_fix(d: &mut [u8]) -> &mut pino::whirlpool::tick_array::fixed_tick_array::MemoryMappedFixedTickArray {
    unsafe { &mut *(d.as_mut_ptr() as *mut pino::whirlpool::tick_array::fixed_tick_array::MemoryMappedFixedTickArray) }
}

fn fnv(bytes: &[u8]) -> u64 {
    let mut h: u64 = 0xcbf29ce484222325;
    for x in bytes {
        h ^= *x as u64;
        h = h.wrapping_mul(0x100000001b3);
    }
    h
}

impl World {
    fn bitmap(d: &[u8]) -> u128 {
        u128::from_le_bytes(d[44..60].try_into().unwrap())
    }
    fn used(d: &[u8]) -> usize {
        148 + 112 * Self::bitmap(d).count_ones() as usize
    }
    /// the encoding oracle on one dynamic array
    fn check_encoding(&self, name: &str, d: &[u8], ctx: &mut Ctx) {
        let bm = Self::bitmap(d);
        let mut pos = 60usize;
        let mut n = 0usize;
        for (i, t) in self.shadow.iter().enumerate() {
            let bit = (bm >> i) & 1 == 1;
            if bit != t.init {
                ctx.viol(format!("C13 {}: bitmap bit {} is {} but the slot is {}initialized", name, i, bit as u8, if t.init { "" } else { "un" }));
                return;
            }
            if t.init {
                if d[pos] != 1 || d[pos + 1..pos + 113] != t.payload()[..] {
                    ctx.viol(format!("C13 {}: slot {} (initialized) is not tag 1 + its 112 payload bytes at byte offset {}", name, i, pos));
                    return;
                }
                pos += 113;
                n += 1;
            } else {
                if d[pos] != 0 {
                    ctx.viol(format!("C13 {}: slot {} (uninitialized) has tag {} at byte offset {}", name, i, d[pos], pos));
                    return;
                }
                pos += 1;
            }
        }
        if pos != 148 + 112 * n || pos != Self::used(d) {
            ctx.viol(format!("C13 {}: used length {} is not 148 + 112 x {}", name, pos, n));
        }
        if bm >> 88 != 0 {
            ctx.viol(format!("C13 {}: bitmap has bits above slot 87", name));
        }
    }
}

struct Dyn {
    w: RefCell<Option<World>>,
    plan: RefCell<VecDeque<String>>,
    exhaustive: bool,
}

fn rand_tick(r: &mut Rng) -> T {
    let net = match r.below(6) {
        0 => r.pick(&[i128::MIN, i128::MAX, -1, 0, 1]),
        1 => -(r.log_u128(127) as i128),
        _ => r.log_u128(127) as i128,
    };
    T { init: true, net, gross: r.liquidity().max(1), fa: r.next128(), fb: r.log_u128(128), r: [r.next128(), r.log_u128(128), if r.chance(1, 2) { 0 } else { u128::MAX }] }
}

fn upd_line(start: i32, ts: u16, slot: i32, t: &T) -> String {
    format!("D upd {} {}", start + slot * ts as i32, t.show())
}

fn pick_start(r: &mut Rng, ts: u16) -> i32 {
    let tia = 88 * ts as i32;
    let lo = MIN_TICK.div_euclid(tia);
    let hi = MAX_TICK.div_euclid(tia);
    let k = match r.below(10) {
        0 => lo,
        1 => hi,
        2 | 3 => r.pick(&[0, -1]),
        _ => r.range_i(lo as i64, hi as i64) as i32,
    };
    k * tia
}

impl Dyn {
    fn random_sequence(&self, r: &mut Rng) -> VecDeque<String> {
        let ts = if r.chance(3, 4) { r.pick(&[1u16, 2, 3, 8, 64, 96, 128, 256]) } else { r.tick_spacing() };
        let start = pick_start(r, ts);
        let mut q = VecDeque::new();
        q.push_back(format!("D new {} {}", start, ts));
        let n = 20 + r.below(120);
        let mut live: Vec<i32> = vec![];
        for _ in 0..n {
            let slot = match r.below(10) {
                0..=2 => r.pick(&REPS),
                3 | 4 if !live.is_empty() => r.pick(&live),
                _ => r.below(88) as i32,
            };
            let tick = start + slot * ts as i32;
            // off-grid / out-of-array ticks: same errors from every accessor
            let tick = match r.below(40) {
                0 if ts > 1 => tick + 1,
                1 => start - ts as i32,
                2 => start + 88 * ts as i32,
                3 => start - 1,
                _ => tick,
            };
            match r.below(10) {
                0..=3 => {
                    let t = rand_tick(r);
                    q.push_back(format!("D upd {} {}", tick, t.show()));
                    if !live.contains(&slot) {
                        live.push(slot);
                    }
                }
                4 | 5 => {
                    // de-initialize (or uninit -> uninit when the slot is not live)
                    q.push_back(format!("D upd {} {}", tick, T::default().show()));
                    live.retain(|s| *s != slot);
                }
                6 | 7 => q.push_back(format!("D get {}", tick)),
                _ => {
                    let a2b = r.chance(1, 2);
                    // search ticks: anywhere in the (shifted) search range, and just outside
                    let st = match r.below(6) {
                        0 => start - ts as i32,
                        1 => start + 88 * ts as i32 - 1,
                        2 => start - ts as i32 - 1,
                        3 => start + 88 * ts as i32,
                        _ => start + r.range_i(-(ts as i64), 88 * ts as i64 - 1) as i32,
                    };
                    q.push_back(format!("D next {} {}", st, b(a2b)));
                }
            }
        }
        q
    }

    /// every subset of REPS + one more slot, initialized in one of three orders, then every
    /// representative queried, toggled, queried, toggled back
    fn exhaustive_sequences() -> Vec<String> {
        let mut out = vec![];
        let mut r = Rng::new(0xC13);
        for mask in 0u32..256 {
            let ts = [1u16, 64, 3, 128][(mask % 4) as usize];
            let tia = 88 * ts as i32;
            let start = match mask % 3 {
                0 => 0,
                1 => MIN_TICK.div_euclid(tia) * tia,
                _ => -tia,
            };
            let extra = 2 + (mask as i32 * 7) % 61; // a slot outside REPS (2..=62)
            let slots: Vec<i32> = REPS.iter().cloned().chain(std::iter::once(extra)).collect();
            let mut chosen: Vec<i32> = (0..8).filter(|k| mask >> k & 1 == 1).map(|k| slots[k]).collect();
            match (mask / 4) % 3 {
                0 => chosen.sort(),
                1 => {
                    chosen.sort();
                    chosen.reverse()
                }
                _ => {
                    for i in (1..chosen.len()).rev() {
                        let j = r.below(i as u64 + 1) as usize;
                        chosen.swap(i, j);
                    }
                }
            }
            out.push(format!("D new {} {}", start, ts));
            for s in &chosen {
                out.push(upd_line(start, ts, *s, &rand_tick(&mut r)));
            }
            for s in &slots {
                let tick = start + s * ts as i32;
                out.push(format!("D get {}", tick));
                out.push(format!("D next {} 1", tick));
                out.push(format!("D next {} 0", tick));
                let live = chosen.contains(s);
                let toggled = if live { T::default() } else { rand_tick(&mut r) };
                out.push(upd_line(start, ts, *s, &toggled));
                out.push(format!("D get {}", tick));
                out.push(format!("D next {} 1", start + 88 * ts as i32 - 1));
                out.push(format!("D next {} 0", start - ts as i32));
                // modify in place / uninit -> uninit
                let same = if live { T::default() } else { rand_tick(&mut r) };
                out.push(upd_line(start, ts, *s, &same));
                let back = if live { rand_tick(&mut r) } else { T::default() };
                out.push(upd_line(start, ts, *s, &back));
                out.push(format!("D get {}", tick));
            }
        }
        out
    }
}

impl Family for Dyn {
    fn name(&self) -> &'static str {
        if self.exhaustive {
            "dynx"
        } else {
            "dyn"
        }
    }
    fn exhaustive(&self) -> Option<u64> {
        if self.exhaustive {
            Some(Dyn::exhaustive_sequences().len() as u64)
        } else {
            None
        }
    }
    fn gen(&self, r: &mut Rng, idx: u64) -> String {
        let mut plan = self.plan.borrow_mut();
        if plan.is_empty() {
            if self.exhaustive {
                assert!(idx == 0);
                *plan = Dyn::exhaustive_sequences().into();
            } else {
                *plan = self.random_sequence(r);
            }
        }
        plan.pop_front().unwrap()
    }
    fn run(&self, line: &str, ctx: &mut Ctx) -> String {
        let t = toks(line);
        let mut wopt = self.w.borrow_mut();
        if t[1] == "new" {
            let start: i32 = t[2].parse().unwrap();
            let ts: u16 = t[3].parse().unwrap();
            *wopt = Some(World {
                start,
                ts,
                ad: new_dyn(start, 16),
                pd: new_dyn(start, 0),
                mx: new_dyn(start, 16),
                af: new_fixed(start),
                pf: new_fixed(start),
                shadow: vec![T::default(); 88],
                nops: 0,
            });
            ctx.tag("new");
            return "ok".to_string();
        }
        let w = match wopt.as_mut() {
            Some(w) => w,
            None => return "bad-op".to_string(),
        };
        w.nops += 1;
        let ts = w.ts;
        let tick: i32 = t[2].parse().unwrap();
        // the abstract slot: in bounds, usable
        let slot: Option<usize> = {
            let off = tick as i64 - w.start as i64;
            if off >= 0 && off < 88 * ts as i64 && tick % ts as i32 == 0 && (MIN_TICK..=MAX_TICK).contains(&tick) {
                Some((off / ts as i64) as usize)
            } else {
                None
            }
        };
        match t[1] {
            "upd" => {
                let u = T { init: pb(t[3]), net: t[4].parse().unwrap(), gross: p128(t[5]), fa: p128(t[6]), fb: p128(t[7]), r: [p128(t[8]), p128(t[9]), p128(t[10])] };
                let r_ad = a_dyn(&mut w.ad).update_tick(tick, ts, &u.anchor()).map_err(anchor_err_name);
                let r_pd = p_dyn(&mut w.pd).update_tick(tick, ts, &u.pino()).map_err(pino_err_name);
                let r_mx = if w.nops % 2 == 0 { a_dyn(&mut w.mx).update_tick(tick, ts, &u.anchor()).map_err(anchor_err_name) } else { p_dyn(&mut w.mx).update_tick(tick, ts, &u.pino()).map_err(pino_err_name) };
                let r_af = a_fix(&mut w.af).update_tick(tick, ts, &u.anchor()).map_err(anchor_err_name);
                let r_pf = p_fix(&mut w.pf).update_tick(tick, ts, &u.pino()).map_err(pino_err_name);
                for (n, r) in [("pino-dynamic", &r_pd), ("mixed-dynamic", &r_mx), ("anchor-fixed", &r_af), ("pino-fixed", &r_pf)] {
                    if *r != r_ad {
                        ctx.viol(format!("C13 update_tick: anchor-dynamic gives {:?}, {} gives {:?}", r_ad, n, r));
                    }
                }
                match (&r_ad, slot) {
                    (Ok(()), Some(s)) => {
                        let was = w.shadow[s].init;
                        w.shadow[s] = u;
                        ctx.tag(match (was, u.init) {
                            (false, true) => "upd-init",
                            (true, true) => "upd-modify",
                            (true, false) => "upd-deinit",
                            (false, false) => "upd-noop",
                        });
                        ctx.nontrivial(&format!("{}{}", s, World::bitmap(&w.ad)));
                    }
                    (Ok(()), None) => ctx.viol("C13 update_tick succeeded on a tick that is not a usable tick of the array".to_string()),
                    (Err(_), Some(_)) => ctx.viol(format!("C13 update_tick failed ({:?}) on a usable tick of the array", r_ad)),
                    (Err(_), None) => ctx.tag("upd-err"),
                }
                w.check_encoding("anchor-dynamic", &w.ad, ctx);
                w.check_encoding("pino-dynamic", &w.pd, ctx);
                w.check_encoding("mixed-dynamic", &w.mx, ctx);
                let used = World::used(&w.ad);
                if w.ad[8..used] != w.pd[8..used] || w.ad[8..used] != w.mx[8..used] {
                    ctx.viol("C13 the dynamic arrays maintained by the Anchor accessor, the Pinocchio accessor and both alternately differ in their used bytes".to_string());
                }
                if w.af != w.pf {
                    ctx.viol("C13/C12 the fixed arrays maintained by the Anchor and the Pinocchio accessor differ".to_string());
                }
                match r_ad {
                    Ok(()) => format!("ok bm={} used={} fnv={}", World::bitmap(&w.ad), used, fnv(&w.ad[60..used])),
                    Err(e) => format!("err {}", e),
                }
            }
            "get" => {
                let r_ad = a_dyn(&mut w.ad).get_tick(tick, ts).map(|t| T::from_anchor(&t)).map_err(anchor_err_name);
                let r_pd = p_dyn(&mut w.pd).get_tick(tick, ts).map(T::from_pino).map_err(pino_err_name);
                let r_mx = if w.nops % 2 == 0 { a_dyn(&mut w.mx).get_tick(tick, ts).map(|t| T::from_anchor(&t)).map_err(anchor_err_name) } else { p_dyn(&mut w.mx).get_tick(tick, ts).map(T::from_pino).map_err(pino_err_name) };
                let r_af = a_fix(&mut w.af).get_tick(tick, ts).map(|t| T::from_anchor(&t)).map_err(anchor_err_name);
                let r_pf = p_fix(&mut w.pf).get_tick(tick, ts).map(T::from_pino).map_err(pino_err_name);
                for (n, r) in [("pino-dynamic", &r_pd), ("mixed-dynamic", &r_mx), ("anchor-fixed", &r_af), ("pino-fixed", &r_pf)] {
                    if *r != r_ad {
                        ctx.viol(format!("C13 get_tick({}): anchor-dynamic gives {:?}, {} gives {:?}", tick, r_ad, n, r));
                    }
                }
                match (&r_ad, slot) {
                    (Ok(got), Some(s)) => {
                        if *got != w.shadow[s] {
                            ctx.viol(format!("C13 get_tick({}) returns {:?}, last written {:?}", tick, got, w.shadow[s]));
                        }
                        ctx.tag(if got.init { "get-init" } else { "get-uninit" });
                    }
                    (Ok(_), None) => ctx.viol("C13 get_tick succeeded on a tick that is not a usable tick of the array".to_string()),
                    (Err(_), Some(_)) => ctx.viol(format!("C13 get_tick failed ({:?}) on a usable tick of the array", r_ad)),
                    (Err(_), None) => ctx.tag("get-err"),
                }
                match r_ad {
                    Ok(t) => format!("ok {}", t.show()),
                    Err(e) => format!("err {}", e),
                }
            }
            "next" => {
                let a2b = pb(t[3]);
                let r_ad = a_dyn(&mut w.ad).get_next_init_tick_index(tick, ts, a2b).map_err(anchor_err_name);
                let r_mx = a_dyn(&mut w.mx).get_next_init_tick_index(tick, ts, a2b).map_err(anchor_err_name);
                let r_af = a_fix(&mut w.af).get_next_init_tick_index(tick, ts, a2b).map_err(anchor_err_name);
                for (n, r) in [("mixed-dynamic", &r_mx), ("anchor-fixed", &r_af)] {
                    if *r != r_ad {
                        ctx.viol(format!("C13 get_next_init_tick_index({}, {}): anchor-dynamic gives {:?}, {} gives {:?}", tick, a2b, r_ad, n, r));
                    }
                }
                // reference over the abstract map
                let lo = if a2b { w.start as i64 } else { w.start as i64 - ts as i64 };
                let hi = lo + 88 * ts as i64;
                if (tick as i64) >= lo && (tick as i64) < hi {
                    let off = (tick as i64 - w.start as i64).div_euclid(ts as i64);
                    let want = if a2b { (0..=off).rev().find(|k| w.shadow[*k as usize].init) } else { (off + 1..88).find(|k| w.shadow[*k as usize].init) };
                    let want = want.map(|k| (w.start as i64 + k * ts as i64) as i32);
                    if r_ad != Ok(want) {
                        ctx.viol(format!("C13 get_next_init_tick_index({}, {}) gives {:?}, the initialized slots say {:?}", tick, a2b, r_ad, want));
                    }
                    ctx.tag(if want.is_some() { "next-some" } else { "next-none" });
                } else {
                    if r_ad.is_ok() {
                        ctx.viol(format!("C13 get_next_init_tick_index({}, {}) outside the search range gives {:?}", tick, a2b, r_ad));
                    }
                    ctx.tag("next-err");
                }
                match r_ad {
                    Ok(None) => "ok none".to_string(),
                    Ok(Some(i)) => format!("ok {}", i),
                    Err(e) => format!("err {}", e),
                }
            }
            _ => "bad-op".to_string(),
        }
    }
}

/// `poff <start> <tick> <ts>`: the Pinocchio division-free `check_is_usable_tick_and_get_offset`
/// against the Anchor bounds check + usable check + division (C12).
struct POff;
impl Family for POff {
    fn name(&self) -> &'static str {
        "poff"
    }
    fn gen(&self, r: &mut Rng, _idx: u64) -> String {
        let ts = if r.chance(2, 3) { r.pick(&[1u16, 2, 3, 8, 64, 96, 128, 256]) } else { r.tick_spacing() };
        let mut start = pick_start(r, ts);
        if r.chance(1, 12) {
            start += r.range_i(-3, 3) as i32; // an invalid start index (never initialized on chain)
        }
        let span = 88 * ts as i64;
        let tick = match r.below(12) {
            0 => start as i64 - 1,
            1 => start as i64 + span,
            2 => start as i64 + span - 1,
            3 => start as i64,
            4 => r.pick(&[MIN_TICK, MAX_TICK, MIN_TICK - 1, MAX_TICK + 1, MIN_TICK + 1]) as i64,
            5 | 6 => start as i64 + r.range_i(-(ts as i64), span + ts as i64),
            _ => start as i64 + (r.below(88) as i64) * ts as i64 + if r.chance(1, 5) { r.range_i(-1, 1) } else { 0 },
        };
        format!("poff {} {} {}", start, tick.clamp(i32::MIN as i64 / 2, i32::MAX as i64 / 2), ts)
    }
    fn run(&self, line: &str, ctx: &mut Ctx) -> String {
        let t = toks(line);
        let start: i32 = t[1].parse().unwrap();
        let tick: i32 = t[2].parse().unwrap();
        let ts: u16 = t[3].parse().unwrap();
        let mut pf = new_fixed(start);
        let got = p_fix(&mut pf).check_is_usable_tick_and_get_offset(tick, ts);
        // the Anchor way
        let mut af = new_fixed(start);
        let a = a_fix(&mut af);
        let want = if a.check_in_array_bounds(tick, ts) && Tick::check_is_usable_tick(tick, ts) { a.tick_offset(tick, ts).ok().map(|o| o as usize) } else { None };
        let valid_start = Tick::check_is_valid_start_tick(start, ts);
        if valid_start {
            if got != want {
                ctx.viol(format!("C12 tick offset: Pinocchio check_is_usable_tick_and_get_offset({}, {}) on the array at {} gives {:?}, the Anchor checks and division give {:?}", tick, ts, start, got, want));
            }
            ctx.tag(if got.is_some() { "usable" } else { "rejected" });
            if got.is_some() {
                ctx.nontrivial(line);
            }
        } else {
            ctx.tag(if got == want { "invalid-start-agree" } else { "invalid-start-differ" });
        }
        match got {
            Some(k) => format!("ok {}", k),
            None => "ok none".to_string(),
        }
    }
}
