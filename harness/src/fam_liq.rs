//! Function-level families for C08: `ltd` (calculate_liquidity_token_deltas, Anchor and Pinocchio)
//! and `est` (estimate_max_liquidity_from_token_amounts).  Oracles: exact ceil/floor amounts,
//! one-sidedness, add/remove loss <= 1, maximality of the estimate.
use crate::fam_math::*;
use crate::rng::*;
use crate::{Ctx, Family};
use ::whirlpool::manager::liquidity_manager::calculate_liquidity_token_deltas;
use ::whirlpool::math::*;
use ::whirlpool::pinocchio::verif_export as pino;
use ::whirlpool::state::Position;
use anchor_lang::AccountSerialize;
use num_bigint::BigUint;

pub fn register(v: &mut Vec<Box<dyn Family>>) {
    v.push(Box::new(Ltd));
    v.push(Box::new(Est));
}

fn anchor_err_name(e: anchor_lang::error::Error) -> String {
    match e {
        anchor_lang::error::Error::AnchorError(a) => a.error_name.clone(),
        anchor_lang::error::Error::ProgramError(p) => format!("ProgramError({:?})", p.program_error),
    }
}

fn gen_range(r: &mut Rng) -> (i32, i32, u16) {
    let ts = r.tick_spacing();
    let ts_i = ts as i32;
    let lo_b = (MIN_TICK / ts_i) * ts_i;
    let hi_b = (MAX_TICK / ts_i) * ts_i;
    if ts >= 32768 || r.chance(1, 10) {
        return (lo_b, hi_b, ts);
    }
    let lo = ((r.tick() / ts_i) * ts_i).clamp(lo_b, hi_b - ts_i);
    let span = ts_i * r.pick(&[1, 1, 2, 10, 88, 500]);
    let hi = (lo + span).min(hi_b);
    (lo, hi, ts)
}

struct Ltd;
impl Family for Ltd {
    fn name(&self) -> &'static str {
        "ltd"
    }
    fn gen(&self, r: &mut Rng, _idx: u64) -> String {
        let (lo, hi, _ts) = gen_range(r);
        // current state: consistent (tick = ti(price)), on a bound, or the shifted state after a downward crossing
        let inside = |r: &mut Rng, t: i32| -> (i32, u128) {
            // a price strictly inside tick t
            let t = t.clamp(MIN_TICK, MAX_TICK - 1);
            let (a, bb) = (sqrt_price_from_tick_index(t), sqrt_price_from_tick_index(t + 1));
            (t, a + 1 + r.next128() % (bb - a - 1).max(1))
        };
        let (tick, price) = match r.below(12) {
            8 => inside(r, hi),
            9 => inside(r, lo),
            10 => inside(r, lo - 1),
            11 => inside(r, hi - 1),
            0 => (lo, sqrt_price_from_tick_index(lo)),
            1 => (hi, sqrt_price_from_tick_index(hi)),
            2 => (lo - 1, sqrt_price_from_tick_index(lo)), // shifted
            3 => (hi - 1, sqrt_price_from_tick_index(hi)), // shifted
            4 => {
                let t = r.range_i(lo as i64, hi as i64) as i32;
                (t, sqrt_price_from_tick_index(t))
            }
            _ => {
                let p = if r.chance(2, 3) {
                    let a = sqrt_price_from_tick_index(lo);
                    let bb = sqrt_price_from_tick_index(hi);
                    a + r.next128() % (bb - a)
                } else {
                    r.sqrt_price()
                };
                (tick_index_from_sqrt_price(&p), p)
            }
        };
        let l = r.liquidity().min(i128::MAX as u128);
        let neg = r.chance(1, 2);
        format!("ltd {} {} {} {} {}{}", tick, price, lo, hi, if neg { "-" } else { "" }, l)
    }
    fn run(&self, line: &str, ctx: &mut Ctx) -> String {
        let t = toks(line);
        let tick: i32 = t[1].parse().unwrap();
        let price = p128(t[2]);
        let (lo, hi): (i32, i32) = (t[3].parse().unwrap(), t[4].parse().unwrap());
        let delta: i128 = t[5].parse().unwrap();
        let pos = Position { tick_lower_index: lo, tick_upper_index: hi, ..Default::default() };
        let a = std::panic::catch_unwind(|| calculate_liquidity_token_deltas(tick, price, &pos, delta));
        let out = match a {
            Err(_) => "err Panic".to_string(),
            Ok(Err(e)) => format!("err {}", anchor_err_name(e)),
            Ok(Ok((x, y))) => format!("ok {} {}", x, y),
        };
        // Pinocchio twin on the serialized position
        let mut bytes = vec![];
        pos.try_serialize(&mut bytes).unwrap();
        let pm = unsafe { &*(bytes.as_ptr() as *const pino::whirlpool::MemoryMappedPosition) };
        let p = std::panic::catch_unwind(std::panic::AssertUnwindSafe(|| pino::manager_liquidity_manager::pino_calculate_liquidity_token_deltas(tick, price, pm, delta)));
        let pout = match p {
            Err(_) => "err Panic".to_string(),
            Ok(Err(e)) => format!(
                "err {}",
                match e {
                    pino::UnifiedError::Anchor(a) => anchor_err_name(a),
                    pino::UnifiedError::Pinocchio(p) => format!("PinocchioError({:?})", p),
                }
            ),
            Ok(Ok((x, y))) => format!("ok {} {}", x, y),
        };
        if pout != out {
            ctx.viol(format!("C12/C08 Pinocchio token deltas `{}` differ from Anchor `{}`", pout, out));
        }
        ctx.tag(out.split(' ').take(1).collect::<Vec<_>>()[0]);
        if let Some(rest) = out.strip_prefix("ok ") {
            let v: Vec<u64> = rest.split(' ').map(|x| x.parse().unwrap()).collect();
            let l = delta.unsigned_abs();
            let up = delta > 0;
            let (pl, pu) = (sqrt_price_from_tick_index(lo), sqrt_price_from_tick_index(hi));
            let ord = |a: u128, bb: u128| if a <= bb { (a, bb) } else { (bb, a) };
            let (wa, wb): (BigUint, BigUint) = if tick < lo {
                (round(&exact_a(pl, pu, l), up), BigUint::from(0u32))
            } else if tick < hi {
                let (a0, a1) = ord(price, pu);
                let (b0, b1) = ord(pl, price);
                (round(&exact_a(a0, a1, l), up), round(&exact_b(b0, b1, l), up))
            } else {
                (BigUint::from(0u32), round(&exact_b(pl, pu, l), up))
            };
            if big(v[0] as u128) != wa || big(v[1] as u128) != wb {
                ctx.viol(format!(
                    "C08 token deltas ({}, {}) are not the exact amounts ({}, {}) rounded {} (tick {} vs range [{}, {}))",
                    v[0],
                    v[1],
                    wa,
                    wb,
                    if up { "up" } else { "down" },
                    tick,
                    lo,
                    hi
                ));
            }
            if v[0] > 0 || v[1] > 0 {
                ctx.nontrivial(line);
            }
            // add-then-remove at the same state: loss of at most one unit, never a gain
            if up {
                if let Ok(Ok((x, y))) = std::panic::catch_unwind(|| calculate_liquidity_token_deltas(tick, price, &pos, -delta)) {
                    if x > v[0] || y > v[1] || v[0] - x > 1 || v[1] - y > 1 {
                        ctx.viol(format!("C08 add/remove: deposit ({}, {}) vs withdrawal ({}, {}) of the same liquidity", v[0], v[1], x, y));
                    }
                }
            }
        }
        out
    }
}

struct Est;
impl Family for Est {
    fn name(&self) -> &'static str {
        "est"
    }
    fn gen(&self, r: &mut Rng, _idx: u64) -> String {
        let (lo, hi, _ts) = gen_range(r);
        let (pl, pu) = (sqrt_price_from_tick_index(lo), sqrt_price_from_tick_index(hi));
        let cur = match r.below(6) {
            0 => pl,
            1 => pu,
            2 => r.sqrt_price(),
            _ => pl + r.next128() % (pu - pl).max(1),
        };
        format!("est {} {} {} {} {}", cur, lo, hi, r.u64_amount(), r.u64_amount())
    }
    fn run(&self, line: &str, ctx: &mut Ctx) -> String {
        let t = toks(line);
        let cur = p128(t[1]);
        let (lo, hi): (i32, i32) = (t[2].parse().unwrap(), t[3].parse().unwrap());
        let (ma, mb) = (p64(t[4]), p64(t[5]));
        let out = crate::catch(move || match estimate_max_liquidity_from_token_amounts(cur, lo, hi, ma, mb) {
            Ok(v) => format!("ok {}", v),
            Err(e) => err_name(e),
        });
        ctx.tag(out.split(' ').next().unwrap());
        if let Some(v) = out.strip_prefix("ok ") {
            let l = p128(v);
            let (pl, pu) = (sqrt_price_from_tick_index(lo), sqrt_price_from_tick_index(hi));
            // deposit cost of liquidity x at price `cur` (price-based case split, as the estimator uses)
            let cost = |x: &BigUint| -> (BigUint, BigUint) {
                let q = q64();
                let a = |p0: u128, p1: u128| ceil_div(&(x * &q * big(p1 - p0)), &(big(p1) * big(p0)));
                let bb = |p0: u128, p1: u128| ceil_div(&(x * big(p1 - p0)), &q);
                if cur >= pu {
                    (BigUint::from(0u32), bb(pl, pu))
                } else if cur <= pl {
                    (a(pl, pu), BigUint::from(0u32))
                } else {
                    (a(cur, pu), bb(pl, cur))
                }
            };
            let x = big(l);
            let (ca, cb) = cost(&x);
            if ca > big(ma as u128) || cb > big(mb as u128) {
                ctx.viol(format!("C08 estimate {} costs ({}, {}) which exceeds the maxima ({}, {})", l, ca, cb, ma, mb));
            }
            let (ca1, cb1) = cost(&(x + 1u32));
            if ca1 <= big(ma as u128) && cb1 <= big(mb as u128) {
                ctx.viol(format!("C08 estimate {} is not the maximum: {} + 1 still costs ({}, {}) within ({}, {})", l, l, ca1, cb1, ma, mb));
            }
            if l > 0 {
                ctx.nontrivial(line);
            }
        }
        out
    }
}
