//! C14: the FeeRateManager driven directly over arbitrary constants / stored variables / times:
//!   afm aToB cur now static fp dp rf cf mx gs mj lr lm vr gr va  (target liq after nextTick)x4  pre post
//! new() (reference update), then four loop iterations (update accumulator, total rate, bounded target,
//! advance / advance-after-skip), then update_major_swap_timestamp(now, pre, post).
//! Oracle: bounds (accumulator <= max, static <= rate <= 100000), rate formula, zero control factor.
use crate::fam_math::{b, p128, p64, pb, toks};
use crate::rng::*;
use crate::{Ctx, Family};
use ::whirlpool::manager::fee_rate_manager::FeeRateManager;
use ::whirlpool::math::sqrt_price_from_tick_index;
use ::whirlpool::state::{AdaptiveFeeConstants, AdaptiveFeeInfo, AdaptiveFeeVariables};

pub fn register(v: &mut Vec<Box<dyn Family>>) {
    v.push(Box::new(Afm));
    v.push(Box::new(TFeeFam));
    v.push(Box::new(REmis));
}

fn anchor_err_name(e: anchor_lang::error::Error) -> String {
    match e {
        anchor_lang::error::Error::AnchorError(a) => a.error_name.clone(),
        anchor_lang::error::Error::ProgramError(p) => format!("ProgramError({:?})", p.program_error),
    }
}

struct Afm;
impl Family for Afm {
    fn name(&self) -> &'static str {
        "afm"
    }
    fn gen(&self, r: &mut Rng, _idx: u64) -> String {
        let ts = r.pick(&[1u64, 2, 8, 64, 128, 256, 32896]);
        let divisors: Vec<u64> = (1..=ts).filter(|d| ts % d == 0).collect();
        let gs = r.pick(&divisors);
        let fp = r.pick(&[1u64, 10, 30, 60, 300, 65534]);
        let dp = (fp + r.pick(&[1u64, 30, 600, 3000, 7200])).min(65535);
        let rf = r.pick(&[0u64, 1, 500, 5000, 9000, 9999]);
        let cf = match r.below(6) {
            0 => 0,
            1 => 99999,
            2 => r.pick(&[1u64, 10, 100]),
            _ => r.pick(&[1000u64, 4000, 10000, 40000]),
        };
        let mx = match r.below(4) {
            0 => (u32::MAX as u64) / gs,
            1 => r.pick(&[0u64, 1, 9999, 10000, 10001]),
            _ => r.pick(&[50_000u64, 350_000, 1_000_000]).min((u32::MAX as u64) / gs),
        };
        let mj = 1 + r.below((ts * 88).min(65535));
        let a_to_b = r.chance(1, 2);
        let cur = r.tick() as i64;
        let now = 10_000 + r.below(1 << 32);
        let stat = r.pick(&[0u64, 1, 100, 3000, 10000, 60000, 65535]);
        let g0 = cur.div_euclid(gs as i64);
        let va = if mx == 0 { 0 } else { r.below(mx + 1) };
        // stored states satisfy reference <= accumulator-at-that-time <= max (Lean: af_inv_swap); others are unreachable
        let vr = if va == 0 { 0 } else { r.below(va + 1) };
        let lr = now.saturating_sub(r.pick(&[0u64, 1, 9, 10, 29, 30, 59, 60, 299, 300, 301, 3599, 3600, 3601, 100000]));
        let lm = if r.chance(1, 30) { now + r.below(100) } else { now.saturating_sub(r.pick(&[0u64, 1, 9, 10, 29, 30, 59, 60, 299, 300, 301, 3599, 3600, 3601, 100000])) };
        // the stored reference group is always the group of some in-bounds current tick
        let gr = (g0 + r.pick(&[0i64, 0, 1, -1, 2, -2, 5, -5, 40, -40, 1000, -1000])).clamp((MIN_TICK as i64).div_euclid(gs as i64), (MAX_TICK as i64).div_euclid(gs as i64));
        let mut s = format!("afm {} {} {} {} {} {} {} {} {} {} {} {} {} {} {} {}", b(a_to_b), cur, now, stat, fp, dp, rf, cf, mx, gs, mj, lr, lm, vr, gr, va);
        // four iterations moving in swap direction
        let mut t = cur;
        for _ in 0..4 {
            let step = r.pick(&[0i64, 1, gs as i64, gs as i64 * 3, 88 * ts as i64, gs as i64 * 50]);
            let nt = if a_to_b { t - step } else { t + step }.clamp(MIN_TICK as i64, MAX_TICK as i64);
            let target = sqrt_price_from_tick_index(nt as i32);
            let liq = if r.chance(1, 6) { 0 } else { r.liquidity() };
            // where the step really ended: at the target, or short of it
            let after = if r.chance(1, 2) {
                target
            } else {
                let a = sqrt_price_from_tick_index(t.clamp(MIN_TICK as i64, MAX_TICK as i64) as i32);
                let (lo, hi) = (a.min(target), a.max(target));
                if hi > lo {
                    lo + r.next128() % (hi - lo)
                } else {
                    lo
                }
            };
            s += &format!(" {} {} {} {}", target, liq, after, nt);
            t = nt;
        }
        let pre = sqrt_price_from_tick_index(cur.clamp(MIN_TICK as i64, MAX_TICK as i64) as i32);
        let post = if r.chance(1, 3) { r.sqrt_price() } else { sqrt_price_from_tick_index((cur + r.range_i(-(mj as i64) - 2, mj as i64 + 2)).clamp(MIN_TICK as i64, MAX_TICK as i64) as i32) };
        s += &format!(" {} {}", pre, post);
        s
    }
    fn run(&self, line: &str, ctx: &mut Ctx) -> String {
        match std::panic::catch_unwind(std::panic::AssertUnwindSafe(|| self.run_inner(line, ctx))) {
            Ok(s) => s,
            Err(_) => "err Panic".to_string(),
        }
    }
}
impl Afm {
    fn run_inner(&self, line: &str, ctx: &mut Ctx) -> String {
        let t = toks(line);
        let a_to_b = pb(t[1]);
        let cur: i32 = t[2].parse().unwrap();
        let now = p64(t[3]);
        let stat: u16 = t[4].parse().unwrap();
        let c = AdaptiveFeeConstants {
            filter_period: t[5].parse().unwrap(),
            decay_period: t[6].parse().unwrap(),
            reduction_factor: t[7].parse().unwrap(),
            adaptive_fee_control_factor: t[8].parse().unwrap(),
            max_volatility_accumulator: t[9].parse().unwrap(),
            tick_group_size: t[10].parse().unwrap(),
            major_swap_threshold_ticks: t[11].parse().unwrap(),
            ..Default::default()
        };
        let v = AdaptiveFeeVariables {
            last_reference_update_timestamp: p64(t[12]),
            last_major_swap_timestamp: p64(t[13]),
            volatility_reference: t[14].parse().unwrap(),
            tick_group_index_reference: t[15].parse().unwrap(),
            volatility_accumulator: t[16].parse().unwrap(),
            ..Default::default()
        };
        let inv = { v.volatility_reference } <= { c.max_volatility_accumulator } && { v.volatility_accumulator } <= { c.max_volatility_accumulator };
        let info = Some(AdaptiveFeeInfo { constants: c, variables: v });
        let mut m = match FeeRateManager::new(a_to_b, cur, now, stat, &info) {
            Ok(m) => m,
            Err(e) => {
                ctx.tag("err");
                return format!("err {}", anchor_err_name(e));
            }
        };
        let mut out = String::from("ok");
        let (gs, mx, cf) = (c.tick_group_size as u128, c.max_volatility_accumulator as u128, c.adaptive_fee_control_factor as u128);
        for k in 0..4 {
            let target = p128(t[17 + 4 * k]);
            let liq = p128(t[18 + 4 * k]);
            let after = p128(t[19 + 4 * k]);
            let nt: i32 = t[20 + 4 * k].parse().unwrap();
            if let Err(e) = m.update_volatility_accumulator() {
                return format!("err {}", anchor_err_name(e));
            }
            let rate = m.get_total_fee_rate();
            let (bt, skip) = m.get_bounded_sqrt_price_target(target, liq);
            let acc = m.get_next_adaptive_fee_info().unwrap().variables.volatility_accumulator as u128;
            // oracles
            if acc > mx {
                ctx.viol(format!("C14 volatility accumulator {} exceeds its maximum {}", acc, mx));
            }
            if rate > 100_000 || (rate as u128) < (stat as u128).min(100_000) {
                ctx.viol(format!("C14 total fee rate {} outside [static {}, 100000]", rate, stat));
            }
            if inv {
                let x = acc * gs;
                let den = 100_000u128 * 10_000 * 10_000;
                let want = (stat as u128 + ((cf * x * x + den - 1) / den).min(100_000)).min(100_000);
                if rate as u128 != want {
                    ctx.viol(format!("C14 total fee rate {} but static {} + ceil({} * ({} * {})^2 / 1e13) capped = {}", rate, stat, cf, acc, gs, want));
                }
            }
            if cf == 0 && (rate as u128 != (stat as u128).min(100_000) || bt != target) {
                ctx.viol("C14 control factor 0 but the rate is not the static rate or the price target was bounded".to_string());
            }
            if (a_to_b && bt < target) || (!a_to_b && bt > target) {
                ctx.viol("C14 bounded price target lies beyond the target".to_string());
            }
            out += &format!(" {}:{}:{}:{}", rate, bt, b(skip), acc);
            if rate != stat as u32 {
                ctx.nontrivial(&format!("{}{}", line, k));
            }
            if skip {
                // the loop hands over where the step ended (clamped to the bounded target side)
                let ended = if a_to_b { after.max(bt) } else { after.min(bt) };
                if let Err(e) = m.advance_tick_group_after_skip(ended, sqrt_price_from_tick_index(nt), nt) {
                    return format!("err {}", anchor_err_name(e));
                }
                ctx.tag("iter-skip");
            } else {
                m.advance_tick_group();
                ctx.tag("iter-step");
            }
        }
        let (pre, post) = (p128(t[33]), p128(t[34]));
        if let Err(e) = m.update_major_swap_timestamp(now, pre, post) {
            ctx.tag("err");
            return format!("err {}", anchor_err_name(e));
        }
        let nv = m.get_next_adaptive_fee_info().unwrap().variables;
        out += &format!(" | {} {} {} {} {}", { nv.last_reference_update_timestamp }, { nv.last_major_swap_timestamp }, { nv.volatility_reference }, { nv.tick_group_index_reference }, { nv.volatility_accumulator });
        ctx.tag("ok");
        out
    }
}

// ------------------------------------------------------------------------------------------------
// C16: the transfer-fee calculators of both implementations on a real Token-2022 mint account
//   tfee <bps> <maxFee> <newerFromFuture 0|1> <amount> <inc 0|1>
// ------------------------------------------------------------------------------------------------
pub struct TFeeFam;
impl Family for TFeeFam {
    fn name(&self) -> &'static str {
        "tfee"
    }
    fn gen(&self, r: &mut Rng, _idx: u64) -> String {
        let bps = match r.below(5) {
            0 => r.pick(&[0u64, 1, 2, 9998, 9999, 10000]),
            1 => r.pick(&[50u64, 100, 300, 999, 1000, 2500, 5000, 7500]),
            _ => r.below(10001),
        };
        let max = match r.below(5) {
            0 => r.pick(&[0u64, 1, 2, u64::MAX, u64::MAX - 1, u64::MAX / 2]),
            1 => r.pick(&[5000u64, 1_000_000, 1_000_000_000]),
            _ => r.u64_amount(),
        };
        let amt = match r.below(5) {
            0 => r.pick(&[0u64, 1, 2, 9999, 10000, 10001, u64::MAX, u64::MAX - 1]),
            1 if bps > 0 => (max as u128 * 10000 / bps as u128).min(u64::MAX as u128) as u64 + r.pick(&[0u64, 1, 2]) - 1.min(max),
            _ => r.u64_amount(),
        };
        format!("tfee {} {} {} {} {}", bps, max, b(r.chance(1, 2)), amt, b(r.chance(1, 2)))
    }
    fn run(&self, line: &str, ctx: &mut Ctx) -> String {
        use crate::fam_access::RawAccount;
        use crate::fixture::{mint_data, FeeCfg};
        use ::whirlpool::pinocchio::verif_export as pino;
        use anchor_lang::prelude::{AccountInfo, InterfaceAccount, Pubkey};
        crate::svm::install();
        crate::svm::set_clock(1000, 100);
        let t = toks(line);
        let (bps, max, fut, amt, inc) = (t[1].parse::<u64>().unwrap(), p64(t[2]), pb(t[3]), p64(t[4]), pb(t[5]));
        let cfg = FeeCfg { bps: bps as u16, max_fee: max, newer_from_future: if fut { Some((((bps + 77) % 10001) as u16, max / 3 + 1)) } else { None } };
        let data = mint_data(true, 6, Some(cfg), 100);
        // Anchor
        let key = Pubkey::new_from_array([5u8; 32]);
        let owner = anchor_spl::token_2022::ID;
        let mut lam = 1u64;
        let mut d = data.clone();
        let info = AccountInfo::new(&key, false, false, &mut lam, &mut d[..], &owner, false, 0);
        let a: Result<(u64, u64), String> = std::panic::catch_unwind(std::panic::AssertUnwindSafe(|| {
            let mint = InterfaceAccount::<anchor_spl::token_interface::Mint>::try_from(&info).map_err(|e| format!("{:?}", e))?;
            if inc {
                ::whirlpool::util::calculate_transfer_fee_included_amount(&mint, amt).map(|x| (x.amount, x.transfer_fee)).map_err(anchor_err_name)
            } else {
                ::whirlpool::util::calculate_transfer_fee_excluded_amount(&mint, amt).map(|x| (x.amount, x.transfer_fee)).map_err(anchor_err_name)
            }
        }))
        .unwrap_or_else(|_| Err("Panic".to_string()));
        // Pinocchio
        const N: usize = 300;
        let mut buf = [0u8; N];
        buf[..data.len()].copy_from_slice(&data);
        let mut raw = RawAccount::<N>::new([5u8; 32], owner.to_bytes(), false, false, buf);
        raw.data_len = data.len() as u64;
        let pinfo = raw.info();
        let p: Result<(u64, u64), String> = std::panic::catch_unwind(std::panic::AssertUnwindSafe(|| {
            if inc {
                pino::util_token::pino_calculate_transfer_fee_included_amount(&pinfo, amt).map(|x| (x.amount, x.transfer_fee))
            } else {
                pino::util_token::pino_calculate_transfer_fee_excluded_amount(&pinfo, amt).map(|x| (x.amount, x.transfer_fee))
            }
            .map_err(|e| match e {
                pino::UnifiedError::Anchor(a) => anchor_err_name(a),
                pino::UnifiedError::Pinocchio(p) => format!("{:?}", p),
            })
        }))
        .unwrap_or_else(|_| Err("Panic".to_string()));
        if a != p {
            ctx.viol(format!("C16/C12 transfer-fee calculator: Anchor gives {:?}, Pinocchio gives {:?}", a, p));
        }
        // exact oracle
        let fee = |y: u128| -> u128 { if bps == 0 || y == 0 { 0 } else { ((y * bps as u128 + 9999) / 10000).min(max as u128) } };
        match &a {
            Ok((v, f)) => {
                if inc {
                    let (v, f) = (*v as u128, *f as u128);
                    if v - fee(v) != amt as u128 || f != fee(v) {
                        ctx.viol(format!("C16 included amount {} (fee {}) of {}: its fee-reduced value is {}", v, f, amt, v - fee(v)));
                    }
                    if v > 0 && (v - 1) - fee(v - 1) >= amt as u128 && amt > 0 {
                        ctx.viol(format!("C16 included amount {} of {} is not the smallest: {} already reaches it", v, amt, v - 1));
                    }
                } else if *v as u128 + *f as u128 != amt as u128 || *f as u128 != fee(amt as u128) {
                    ctx.viol(format!("C16 excluded amount {} + fee {} != {}", v, f, amt));
                }
                ctx.tag(if inc { "included-ok" } else { "excluded-ok" });
                ctx.nontrivial(line);
            }
            Err(e) => {
                // failure only when the least amount does not fit u64
                if inc {
                    let (mut lo, mut hi) = (amt as u128, amt as u128 + max as u128);
                    while lo < hi {
                        let mid = (lo + hi) / 2;
                        if mid - fee(mid) >= amt as u128 {
                            hi = mid;
                        } else {
                            lo = mid + 1;
                        }
                    }
                    if lo <= u64::MAX as u128 {
                        ctx.viol(format!("C16 included amount of {} fails ({}) although {} fits u64", amt, e, lo));
                    }
                } else {
                    ctx.viol(format!("C16 excluded amount of {} fails ({})", amt, e));
                }
                ctx.tag("err");
            }
        }
        // C20: the SDK's transfer-fee functions (used by its swap / liquidity quotes) against the program's result for the
        // fee in effect (without a newer fee from a future epoch the fee in effect is (bps, max))
        if !fut {
            use orca_whirlpools_core as sdk;
            let tf = sdk::TransferFee { fee_bps: bps as u16, max_fee: max };
            let s: Result<u64, String> = std::panic::catch_unwind(|| if inc { sdk::try_reverse_apply_transfer_fee(amt, tf) } else { sdk::try_apply_transfer_fee(amt, tf) }.map_err(|e| e.to_string()))
                .unwrap_or_else(|_| Err("Panic".to_string()));
            match (&a, &s) {
                (Ok((v, _)), Ok(sv)) => {
                    if v != sv {
                        ctx.viol(format!("C20/C16 transfer fee ({} bps, max {}) {} of {}: program {} but SDK {}", bps, max, if inc { "included amount" } else { "excluded amount" }, amt, v, sv));
                    }
                    ctx.tag("sdk-tfee-compared");
                }
                (Ok((v, _)), Err(e)) => ctx.viol(format!("C20/C16 transfer fee: program gives {} but the SDK fails ({})", v, e)),
                (Err(pe), Ok(sv)) => ctx.viol(format!("C20/C16 transfer fee: program fails ({}) but the SDK gives {}", pe, sv)),
                (Err(_), Err(_)) => ctx.tag("sdk-tfee-both-err"),
            }
        }
        match a {
            Ok((v, f)) => format!("ok {} {}", v, f),
            Err(e) => format!("err {}", e),
        }
    }
}


// ------------------------------------------------------------------------------------------------
// C11: changing one reward's emission rate on an arbitrary reward state
//   remis liq lastTs now idx newEmissions (init emissions growth)x3
// = next_whirlpool_reward_infos(now) then Whirlpool::update_emissions(idx, ..): every initialized reward is
// settled at its OLD rate up to `now`, then only reward idx gets the new rate.
// Oracle: exact settlement of each reward (dt * emissions / liquidity, 0 on u128 overflow, wrapping growth).
// ------------------------------------------------------------------------------------------------
pub struct REmis;
impl Family for REmis {
    fn name(&self) -> &'static str {
        "remis"
    }
    fn gen(&self, r: &mut Rng, _idx: u64) -> String {
        let liq = if r.chance(1, 8) { 0 } else { r.liquidity() };
        let last = 1_000 + r.below(1 << 32);
        let now = match r.below(8) {
            0 => last,
            1 => last.saturating_sub(1 + r.below(100)),
            _ => last + r.pick(&[1u64, 10, 3600, 86400, 1 << 31]),
        };
        let idx = r.pick(&[0u64, 1, 2, 2, 3]);
        let new_e = r.log_u128(110);
        let mut s = format!("remis {} {} {} {} {}", liq, last, now, idx, new_e);
        // rewards are initialized from the lowest index up
        let ninit = r.below(4);
        for i in 0..3u64 {
            let init = i < ninit;
            let e = if !init || r.chance(1, 4) { 0 } else { r.log_u128(110) };
            let g = if init { if r.chance(1, 3) { u128::MAX - r.below(1 << 40) as u128 } else { r.log_u128(128) } } else { 0 };
            s += &format!(" {} {} {}", b(init), e, g);
        }
        s
    }
    fn run(&self, line: &str, ctx: &mut Ctx) -> String {
        use ::whirlpool::manager::whirlpool_manager::next_whirlpool_reward_infos;
        use ::whirlpool::state::Whirlpool;
        let t = toks(line);
        let liq = p128(t[1]);
        let (last, now) = (p64(t[2]), p64(t[3]));
        let idx: usize = t[4].parse().unwrap();
        let new_e = p128(t[5]);
        let mut w = Whirlpool { liquidity: liq, reward_last_updated_timestamp: last, tick_spacing: 64, sqrt_price: 1u128 << 64, ..Default::default() };
        let mut old = [(false, 0u128, 0u128); 3];
        for i in 0..3 {
            let init = pb(t[6 + 3 * i]);
            let (e, g) = (p128(t[7 + 3 * i]), p128(t[8 + 3 * i]));
            old[i] = (init, e, g);
            if init {
                w.reward_infos[i].mint = anchor_lang::prelude::Pubkey::new_from_array([7 + i as u8; 32]);
                w.reward_infos[i].vault = anchor_lang::prelude::Pubkey::new_from_array([17 + i as u8; 32]);
            }
            w.reward_infos[i].emissions_per_second_x64 = e;
            w.reward_infos[i].growth_global_x64 = g;
        }
        let next = match next_whirlpool_reward_infos(&w, now) {
            Ok(n) => n,
            Err(e) => {
                ctx.tag("err");
                return format!("err {:?}", e);
            }
        };
        if let Err(e) = w.update_emissions(idx, next, now, new_e) {
            ctx.tag("err");
            return format!("err {}", anchor_err_name(e));
        }
        // oracle: exact settlement at the OLD rates, new rate only at idx, timestamp moved
        let dt = (now - last) as u128;
        for i in 0..3 {
            let (init, e, g) = old[i];
            let want_g = if init && liq > 0 && dt > 0 {
                let prod = num_bigint::BigUint::from(dt) * num_bigint::BigUint::from(e);
                let delta = if prod > num_bigint::BigUint::from(u128::MAX) { 0u128 } else { (prod / num_bigint::BigUint::from(liq)).try_into().unwrap_or(0u128) };
                g.wrapping_add(delta)
            } else {
                g
            };
            let want_e = if i == idx { new_e } else { e };
            if { w.reward_infos[i].growth_global_x64 } != want_g {
                ctx.viol(format!("C11 changing the emission rate of reward {}: reward {} is settled to growth {} but accrual at its old rate over {} s gives {}", idx, i, { w.reward_infos[i].growth_global_x64 }, dt, want_g));
            }
            if { w.reward_infos[i].emissions_per_second_x64 } != want_e {
                ctx.viol(format!("C11 changing the emission rate of reward {}: reward {} now has rate {} (expected {})", idx, i, { w.reward_infos[i].emissions_per_second_x64 }, want_e));
            }
        }
        if w.reward_last_updated_timestamp != now {
            ctx.viol("C11 set emissions did not move the reward timestamp".to_string());
        }
        ctx.tag("ok");
        if dt > 0 && liq > 0 {
            ctx.nontrivial(line);
        }
        format!(
            "ok {} {} {} {} {} {} {}",
            w.reward_last_updated_timestamp,
            { w.reward_infos[0].emissions_per_second_x64 },
            { w.reward_infos[0].growth_global_x64 },
            { w.reward_infos[1].emissions_per_second_x64 },
            { w.reward_infos[1].growth_global_x64 },
            { w.reward_infos[2].emissions_per_second_x64 },
            { w.reward_infos[2].growth_global_x64 }
        )
    }
}
