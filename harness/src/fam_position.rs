//! Families for C18: `reset` (Position::reset_position_range of both implementations, which also
//! exercises validate_tick_range_for_whirlpool and is_position_empty), `snap`
//! (resolve_one_sided_position_ticks) and `bundle` (PositionBundle bitmap op sequences).
use crate::fam_math::*;
use crate::rng::*;
use crate::{Ctx, Family};
use ::whirlpool::math::*;
use ::whirlpool::pinocchio::verif_export as pino;
use ::whirlpool::state::*;
use anchor_lang::prelude::*;
use anchor_lang::{AccountDeserialize, AccountSerialize};
use std::cell::RefCell;

pub fn register(v: &mut Vec<Box<dyn Family>>) {
    v.push(Box::new(Reset));
    v.push(Box::new(Snap));
    v.push(Box::new(Bundle { bm: RefCell::new(PositionBundle::default()), left: RefCell::new(0) }));
}

fn anchor_err_name(e: anchor_lang::error::Error) -> String {
    match e {
        anchor_lang::error::Error::AnchorError(a) => a.error_name.clone(),
        anchor_lang::error::Error::ProgramError(p) => format!("ProgramError({:?})", p.program_error),
    }
}

fn pick_tick(r: &mut Rng, ts: u16) -> i32 {
    let tsi = ts as i32;
    let (lo_b, hi_b) = ((MIN_TICK / tsi) * tsi, (MAX_TICK / tsi) * tsi);
    match r.below(8) {
        0 => lo_b,
        1 => hi_b,
        2 => r.tick(), // maybe unusable
        3 => hi_b + tsi,
        4 => lo_b - tsi,
        _ => ((r.tick() / tsi) * tsi).clamp(lo_b, hi_b),
    }
}

struct Reset;
impl Family for Reset {
    fn name(&self) -> &'static str {
        "reset"
    }
    fn gen(&self, r: &mut Rng, _idx: u64) -> String {
        let ts = r.tick_spacing();
        let z = |r: &mut Rng| if r.chance(4, 5) { 0 } else { 1 + r.below(5) };
        let (olo, ohi) = (pick_tick(r, ts), pick_tick(r, ts));
        let (nlo, nhi) = if r.chance(1, 8) { (olo, ohi) } else { (pick_tick(r, ts), pick_tick(r, ts)) };
        format!("reset {} {} {} {} {} {} {} {} {} {} {} {}", ts, z(r), z(r), z(r), z(r), z(r), z(r), olo, ohi, nlo, nhi, b(r.chance(1, 3)))
    }
    fn run(&self, line: &str, ctx: &mut Ctx) -> String {
        let t = toks(line);
        let ts: u16 = t[1].parse().unwrap();
        let n = |i: usize| -> u64 { t[i].parse().unwrap() };
        let (olo, ohi, nlo, nhi): (i32, i32, i32, i32) = (t[8].parse().unwrap(), t[9].parse().unwrap(), t[10].parse().unwrap(), t[11].parse().unwrap());
        let keep = pb(t[12]);
        let pos = Position {
            liquidity: n(2) as u128,
            fee_owed_a: n(3),
            fee_owed_b: n(4),
            tick_lower_index: olo,
            tick_upper_index: ohi,
            fee_growth_checkpoint_a: 111,
            fee_growth_checkpoint_b: 222,
            reward_infos: [
                PositionRewardInfo { growth_inside_checkpoint: 31, amount_owed: n(5) },
                PositionRewardInfo { growth_inside_checkpoint: 32, amount_owed: n(6) },
                PositionRewardInfo { growth_inside_checkpoint: 33, amount_owed: n(7) },
            ],
            ..Default::default()
        };
        let wp = Whirlpool { tick_spacing: ts, ..Default::default() };
        let mut wp_bytes = vec![];
        wp.try_serialize(&mut wp_bytes).unwrap();
        let mut pos_bytes = vec![];
        pos.try_serialize(&mut pos_bytes).unwrap();
        let show = |p: &Position| -> String {
            format!(
                "ok {} {} {} {} [{}:{}, {}:{}, {}:{}]",
                { p.tick_lower_index },
                { p.tick_upper_index },
                { p.fee_growth_checkpoint_a },
                { p.fee_growth_checkpoint_b },
                { p.reward_infos[0].growth_inside_checkpoint },
                { p.reward_infos[0].amount_owed },
                { p.reward_infos[1].growth_inside_checkpoint },
                { p.reward_infos[1].amount_owed },
                { p.reward_infos[2].growth_inside_checkpoint },
                { p.reward_infos[2].amount_owed }
            )
        };
        // Pinocchio
        let pino_out = {
            let mut pb2 = pos_bytes.clone();
            let wpm = unsafe { &*(wp_bytes.as_ptr() as *const pino::whirlpool::MemoryMappedWhirlpool) };
            let pm = unsafe { &mut *(pb2.as_mut_ptr() as *mut pino::whirlpool::MemoryMappedPosition) };
            match pm.reset_position_range(wpm, nlo, nhi, keep) {
                Ok(()) => show(&Position::try_deserialize(&mut &pb2[..]).unwrap()),
                Err(pino::UnifiedError::Anchor(e)) => format!("err {}", anchor_err_name(e)),
                Err(pino::UnifiedError::Pinocchio(e)) => format!("err PinocchioError({:?})", e),
            }
        };
        // Anchor (no keep_owed variant: compare only when keep = false)
        if !keep {
            let k = Pubkey::new_from_array([3u8; 32]);
            let mut lam = 1u64;
            let mut d = wp_bytes.clone();
            let owner = ::whirlpool::ID;
            let info = AccountInfo::new(&k, false, false, &mut lam, &mut d, &owner, false, 0);
            let acc = Account::<Whirlpool>::try_from(&info).unwrap();
            let mut p2 = pos.clone();
            let a = match p2.reset_position_range(&acc, nlo, nhi) {
                Ok(()) => show(&p2),
                Err(e) => format!("err {}", anchor_err_name(e)),
            };
            if a != pino_out {
                ctx.viol(format!("C18/C12 reset_position_range: Anchor `{}` vs Pinocchio `{}`", a, pino_out));
            }
        }
        // property oracle
        if pino_out.starts_with("ok") {
            ctx.nontrivial(line);
            let usable = |x: i32| x >= MIN_TICK && x <= MAX_TICK && x % ts as i32 == 0;
            let empty = n(2) == 0 && (keep || (n(3) == 0 && n(4) == 0 && n(5) == 0 && n(6) == 0 && n(7) == 0));
            let full = ts < 32768 || (nlo == (MIN_TICK / ts as i32) * ts as i32 && nhi == (MAX_TICK / ts as i32) * ts as i32);
            if !(empty && usable(nlo) && usable(nhi) && nlo < nhi && full && (nlo, nhi) != (olo, ohi)) {
                ctx.viol(format!("C18 reset_position_range accepted: empty={} range [{}, {}) ts={} old [{}, {})", empty, nlo, nhi, ts, olo, ohi));
            }
            if !pino_out.contains(&format!("ok {} {} 0 0 [0:", nlo, nhi)) {
                ctx.viol(format!("C18 reset_position_range did not reset the growth checkpoints: {}", pino_out));
            }
        }
        ctx.tag(pino_out.split(' ').take(2).collect::<Vec<_>>().join("_").split('_').next().unwrap());
        pino_out
    }
}

struct Snap;
impl Family for Snap {
    fn name(&self) -> &'static str {
        "snap"
    }
    fn gen(&self, r: &mut Rng, _idx: u64) -> String {
        let ts = r.tick_spacing();
        let price = r.sqrt_price();
        let (lo, hi) = match r.below(6) {
            0 => (i32::MIN, i32::MAX),
            1 | 2 => (i32::MIN, pick_tick(r, ts)),
            3 | 4 => (pick_tick(r, ts), i32::MAX),
            _ => (pick_tick(r, ts), pick_tick(r, ts)),
        };
        format!("snap {} {} {} {}", lo, hi, ts, price)
    }
    fn run(&self, line: &str, ctx: &mut Ctx) -> String {
        let t = toks(line);
        let (lo, hi): (i32, i32) = (t[1].parse().unwrap(), t[2].parse().unwrap());
        let ts: u16 = t[3].parse().unwrap();
        let price = p128(t[4]);
        let out = match std::panic::catch_unwind(|| ::whirlpool::util::resolve_one_sided_position_ticks(lo, hi, ts, price)) {
            Err(_) => "err Panic".to_string(),
            Ok(Err(e)) => format!("err {}", anchor_err_name(e)),
            Ok(Ok((a, bb))) => format!("ok {} {}", a, bb),
        };
        if let Some(rest) = out.strip_prefix("ok ") {
            let v: Vec<i32> = rest.split(' ').map(|x| x.parse().unwrap()).collect();
            let tsi = ts as i32;
            if ts < 32768 && (lo == i32::MIN) != (hi == i32::MAX) {
                ctx.nontrivial(line);
                if lo == i32::MIN {
                    // derived lower bound: nearest usable tick whose price is >= the current price
                    let l = v[0];
                    let ok = l % tsi == 0 && l <= MAX_TICK && sqrt_price_from_tick_index(l) >= price && (l - tsi < MIN_TICK || sqrt_price_from_tick_index(l - tsi) < price);
                    if !ok {
                        ctx.viol(format!("C18 derived lower tick {} (spacing {}) is not the nearest usable tick at or above the current price {}", l, ts, price));
                    }
                } else {
                    let u = v[1];
                    let ok = u % tsi == 0 && u >= MIN_TICK && sqrt_price_from_tick_index(u) <= price && (u + tsi > MAX_TICK || sqrt_price_from_tick_index(u + tsi) > price);
                    if !ok {
                        ctx.viol(format!("C18 derived upper tick {} (spacing {}) is not the nearest usable tick at or below the current price {}", u, ts, price));
                    }
                }
            }
        }
        ctx.tag(out.split(' ').next().unwrap());
        out
    }
}

struct Bundle {
    bm: RefCell<PositionBundle>,
    left: RefCell<u32>,
}
impl Family for Bundle {
    fn name(&self) -> &'static str {
        "bundle"
    }
    fn gen(&self, r: &mut Rng, _idx: u64) -> String {
        let mut left = self.left.borrow_mut();
        if *left == 0 {
            *left = 10 + r.below(60) as u32;
            return "B new".to_string();
        }
        *left -= 1;
        let i = match r.below(6) {
            0 => r.pick(&[0u64, 1, 7, 8, 9, 255, 254, 256, 257, 65535, 63, 64, 65]),
            1 | 2 => {
                // an open one (if any)
                let bm = self.bm.borrow();
                let open: Vec<u64> = (0..256u64).filter(|i| bm.position_bitmap[(*i / 8) as usize] & (1 << (*i % 8)) != 0).collect();
                if open.is_empty() {
                    r.below(256)
                } else {
                    r.pick(&open)
                }
            }
            _ => r.below(40),
        };
        format!("B {} {}", if r.chance(3, 5) { "open" } else { "close" }, i)
    }
    fn run(&self, line: &str, ctx: &mut Ctx) -> String {
        let t = toks(line);
        let mut bm = self.bm.borrow_mut();
        let hex = |b: &PositionBundle| -> String { b.position_bitmap.iter().map(|x| format!("{:02x}", x)).collect::<String>() + if b.is_deletable() { " 1" } else { " 0" } };
        let before = bm.position_bitmap;
        let out = match t[1] {
            "new" => {
                *bm = PositionBundle::default();
                format!("ok {}", hex(&bm))
            }
            "open" | "close" => {
                let i: u16 = t[2].parse().unwrap();
                let r = if t[1] == "open" { bm.open_bundled_position(i) } else { bm.close_bundled_position(i) };
                match r {
                    Ok(()) => {
                        ctx.nontrivial(&format!("{}{}", line, hex(&bm)));
                        // exactly bit i flipped
                        let mut want = before;
                        want[(i / 8) as usize] ^= 1 << (i % 8);
                        if bm.position_bitmap != want {
                            ctx.viol(format!("C18 bundle bitmap after {} {} is not the old bitmap with exactly bit {} flipped", t[1], i, i));
                        }
                        format!("ok {}", hex(&bm))
                    }
                    Err(e) => {
                        if bm.position_bitmap != before {
                            ctx.viol("C18 failed bundle operation changed the bitmap".to_string());
                        }
                        format!("err {} {}", anchor_err_name(e), hex(&bm))
                    }
                }
            }
            _ => "bad-op".to_string(),
        };
        let any_open = bm.position_bitmap.iter().any(|x| *x != 0);
        if bm.is_deletable() == any_open {
            ctx.viol(format!("C18 bundle is_deletable() = {} although {} bundled positions are open", bm.is_deletable(), bm.position_bitmap.iter().map(|x| x.count_ones()).sum::<u32>()));
        }
        ctx.tag(out.split(' ').next().unwrap());
        out
    }
}
