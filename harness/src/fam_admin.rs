//! C04 / C15 / C19 at instruction level: the settings instructions through the REAL entrypoint (native
//! executor), driven by the account tables the translator regenerates (work/specs.txt).
//!
//!   xadm <AccountsStruct> <nf> (<key> <signer>)^nf <na> <value>^na <bound…>
//!
//! For each instruction the harness builds a small world (two configs with different authorities, fee
//! tiers, adaptive fee tiers, pools, oracles, config extensions, token badges of each), assigns accounts to
//! the slots of the instruction by slot name, applies one VARIATION (0 = everything right, 1 = authority
//! does not sign, 2 = a stranger signs, 3 = the other config with ITS authority but this config's target
//! account / another role's authority, 4 = value out of bounds, 5 = target account of the other config,
//! 6 = a SIBLING adaptive fee tier of the same config and spacing under another index, its authority signing),
//! executes the instruction, and reports `ok` / `err`.
//!   * the op line carries the ENVIRONMENT (per slot: key as a small integer, signer flag; per checked
//!     attribute in source order: the value read from the real account data), so the Lean model answers
//!     with `accepts` on the regenerated table + the setter's bound — no knowledge of the fixture;
//!   * the property oracle: only variation 0 may succeed, and then exactly the targeted field changed.
use crate::fam_math::toks;
use crate::fixture::k;
use crate::rng::*;
use crate::svm::{Bank, ExecError, Meta};
use crate::{Ctx, Family};
use ::whirlpool::state::*;
use anchor_lang::prelude::Pubkey;
use anchor_lang::{AccountDeserialize, AccountSerialize, Discriminator, InstructionData};
use std::collections::BTreeMap;

pub fn register(v: &mut Vec<Box<dyn Family>>) {
    v.push(Box::new(XAdm));
}

#[derive(Clone, Debug)]
struct Slot {
    name: String,
    kind: String,
    ty: String,
    writable: bool,
    attrs: Vec<(String, String)>,
}
#[derive(Clone, Debug)]
struct Spec {
    fields: Vec<Slot>,
}

fn load_specs() -> BTreeMap<String, Spec> {
    let path = std::env::var("VERIF_SPECS").unwrap_or_else(|_| "/verif/work/specs.txt".to_string());
    let txt = std::fs::read_to_string(&path).unwrap_or_default();
    let mut out = BTreeMap::new();
    let mut cur: Option<(String, Spec)> = None;
    for line in txt.lines() {
        let mut it = line.splitn(2, ' ');
        let (head, rest) = (it.next().unwrap_or(""), it.next().unwrap_or(""));
        match head {
            "spec" => cur = Some((rest.to_string(), Spec { fields: vec![] })),
            "field" => {
                let p: Vec<&str> = rest.split(' ').collect();
                if let Some((_, s)) = cur.as_mut() {
                    s.fields.push(Slot { name: p[0].to_string(), kind: p[1].to_string(), ty: p.get(2).unwrap_or(&"-").to_string(), writable: false, attrs: vec![] });
                }
            }
            "attr" => {
                let mut a = rest.splitn(2, ' ');
                let (kw, ex) = (a.next().unwrap_or("").to_string(), a.next().unwrap_or("").to_string());
                if let Some((_, s)) = cur.as_mut() {
                    s.fields.last_mut().unwrap().attrs.push((kw, ex));
                }
            }
            "flag" => {
                if let Some((_, s)) = cur.as_mut() {
                    s.fields.last_mut().unwrap().writable = true;
                }
            }
            "end" => {
                if let Some((n, s)) = cur.take() {
                    out.insert(n, s);
                }
            }
            _ => {}
        }
    }
    out
}

const SPECS: &[&str] = &[
    "SetFeeRate",
    "SetProtocolFeeRate",
    "SetDefaultFeeRate",
    "SetDefaultProtocolFeeRate",
    "SetFeeAuthority",
    "SetCollectProtocolFeesAuthority",
    "SetRewardEmissionsSuperAuthority",
    "SetRewardAuthority",
    "SetRewardAuthorityBySuperAuthority",
    "SetDefaultBaseFeeRate",
    "SetDelegatedFeeAuthority",
    "SetInitializePoolAuthority",
    "SetPresetAdaptiveFeeConstants",
    "SetFeeRateByDelegatedFeeAuthority",
    "SetAdaptiveFeeConstants",
    "SetConfigFeatureFlag",
    "SetConfigExtensionAuthority",
    "SetTokenBadgeAuthority",
    "SetTokenBadgeAttribute",
];

// ---- the world -----------------------------------------------------------------------------------
const TS: u16 = 64;
const ATIER_INDEX: u16 = 1024 + 7;

fn role(name: &str) -> Pubkey {
    match name {
        "fee_authority" => k(0xA0, 1),
        "collect_protocol_fees_authority" => k(0xA0, 2),
        "reward_emissions_super_authority" => k(0xA0, 3),
        "reward_authority" => k(0xA0, 4),
        "delegated_fee_authority" => k(0xA0, 5),
        "initialize_pool_authority" => k(0xA0, 6),
        "config_extension_authority" => k(0xA0, 7),
        "token_badge_authority" => k(0xA0, 8),
        "authority" => ::whirlpool::auth::admin::ADMINS[0],
        _ => k(0xA0, 30),
    }
}
fn stranger() -> Pubkey {
    k(0xA0, 9)
}
fn newkey() -> Pubkey {
    k(0xA0, 10)
}
/// the account of config `c` (1 or 2) for a slot name
fn acct(slot: &str, c: u8) -> Option<Pubkey> {
    Some(match slot {
        "whirlpools_config" => k(0xC0, c),
        "fee_tier" => k(0xC1, c),
        "adaptive_fee_tier" => k(0xC2, c),
        "whirlpool" => k(0xC3, c),
        "oracle" => k(0xC4, c),
        "whirlpools_config_extension" => k(0xC5, c),
        "token_mint" => k(0xC6, 1),
        "token_badge" => k(0xC7, c),
        _ => return None,
    })
}

fn ser<T: AccountSerialize>(x: &T, len: usize) -> Vec<u8> {
    let mut d = vec![];
    x.try_serialize(&mut d).unwrap();
    d.resize(len.max(d.len()), 0);
    d
}

fn world() -> Bank {
    let mut b = Bank::new(1_000_000);
    let pid = ::whirlpool::ID;
    for c in [1u8, 2u8] {
        // config 1: every role has its own key; config 2: the stranger holds every role
        let auth = |r: &str| if c == 1 { role(r) } else { stranger() };
        let cfg = WhirlpoolsConfig {
            fee_authority: auth("fee_authority"),
            collect_protocol_fees_authority: auth("collect_protocol_fees_authority"),
            reward_emissions_super_authority: auth("reward_emissions_super_authority"),
            default_protocol_fee_rate: 300,
            feature_flags: 1, // TOKEN_BADGE enabled (set_token_badge_attribute requires it)
        };
        b.set(k(0xC0, c), pid, 10_000_000, ser(&cfg, WhirlpoolsConfig::LEN));
        let tier = FeeTier { whirlpools_config: k(0xC0, c), tick_spacing: TS, default_fee_rate: 3000 };
        b.set(k(0xC1, c), pid, 10_000_000, ser(&tier, FeeTier::LEN));
        let at = AdaptiveFeeTier {
            whirlpools_config: k(0xC0, c),
            fee_tier_index: ATIER_INDEX,
            tick_spacing: TS,
            initialize_pool_authority: auth("initialize_pool_authority"),
            delegated_fee_authority: auth("delegated_fee_authority"),
            default_base_fee_rate: 3000,
            filter_period: 30,
            decay_period: 600,
            reduction_factor: 5000,
            adaptive_fee_control_factor: 4000,
            max_volatility_accumulator: 350_000,
            tick_group_size: TS,
            major_swap_threshold_ticks: TS,
        };
        b.set(k(0xC2, c), pid, 10_000_000, ser(&at, AdaptiveFeeTier::LEN));
        let mut wp = Whirlpool { whirlpools_config: k(0xC0, c), tick_spacing: TS, fee_tier_index_seed: ATIER_INDEX.to_le_bytes(), fee_rate: 3000, protocol_fee_rate: 300, sqrt_price: 1u128 << 64, ..Default::default() };
        wp.reward_infos[0].extension = auth("reward_authority").to_bytes();
        b.set(k(0xC3, c), pid, 10_000_000, ser(&wp, Whirlpool::LEN));
        let mut o: Oracle = unsafe { std::mem::zeroed() };
        o.whirlpool = k(0xC3, c);
        o.adaptive_fee_constants = AdaptiveFeeConstants {
            filter_period: 30,
            decay_period: 600,
            reduction_factor: 5000,
            adaptive_fee_control_factor: 4000,
            max_volatility_accumulator: 350_000,
            tick_group_size: TS,
            major_swap_threshold_ticks: TS,
            ..Default::default()
        };
        // the pool has traded: its adaptive-fee variables are NOT at rest (set_adaptive_fee_constants must reset them —
        // an accumulator kept across a lowered maximum would exceed it)
        o.adaptive_fee_variables.last_reference_update_timestamp = 1_000;
        o.adaptive_fee_variables.last_major_swap_timestamp = 1_000;
        o.adaptive_fee_variables.volatility_reference = 100_000;
        o.adaptive_fee_variables.tick_group_index_reference = 5;
        o.adaptive_fee_variables.volatility_accumulator = 290_000;
        let mut od = Oracle::DISCRIMINATOR.to_vec();
        od.extend_from_slice(bytemuck::bytes_of(&o));
        b.set(k(0xC4, c), pid, 10_000_000, od);
        let ext = WhirlpoolsConfigExtension { whirlpools_config: k(0xC0, c), config_extension_authority: auth("config_extension_authority"), token_badge_authority: auth("token_badge_authority") };
        b.set(k(0xC5, c), pid, 10_000_000, ser(&ext, WhirlpoolsConfigExtension::LEN));
        let badge = TokenBadge { whirlpools_config: k(0xC0, c), token_mint: k(0xC6, 1), attribute_require_non_transferable_position: false };
        b.set(k(0xC7, c), pid, 10_000_000, ser(&badge, TokenBadge::LEN));
    }
    // a SIBLING adaptive fee tier of config 1: same spacing, another index, the stranger as its authorities
    // (seed C04_7: a pool-level setting must be tied to the pool's OWN tier, not to any tier of its spacing)
    let sib = AdaptiveFeeTier {
        whirlpools_config: k(0xC0, 1),
        fee_tier_index: ATIER_INDEX + 1,
        tick_spacing: TS,
        initialize_pool_authority: stranger(),
        delegated_fee_authority: stranger(),
        default_base_fee_rate: 3000,
        filter_period: 30,
        decay_period: 600,
        reduction_factor: 5000,
        adaptive_fee_control_factor: 4000,
        max_volatility_accumulator: 350_000,
        tick_group_size: TS,
        major_swap_threshold_ticks: TS,
    };
    b.set(k(0xC2, 3), pid, 10_000_000, ser(&sib, AdaptiveFeeTier::LEN));
    b.set(k(0xC6, 1), anchor_spl::token::ID, 10_000_000, crate::fixture::mint_data(false, 6, None, 0));
    for r in ["fee_authority", "collect_protocol_fees_authority", "reward_emissions_super_authority", "reward_authority", "delegated_fee_authority", "initialize_pool_authority", "config_extension_authority", "token_badge_authority", "authority"] {
        b.set(role(r), crate::svm::system_id(), 1_000_000, vec![]);
    }
    b.set(stranger(), crate::svm::system_id(), 1_000_000, vec![]);
    b.set(newkey(), crate::svm::system_id(), 1_000_000, vec![]);
    b
}

// ---- reading the real accounts -----------------------------------------------------------------------
fn de<T: AccountDeserialize>(b: &Bank, key: &Pubkey) -> Option<T> {
    T::try_deserialize(&mut &b.data(key)[..]).ok()
}
fn oracle_of(b: &Bank, key: &Pubkey) -> Option<Oracle> {
    let d = b.data(key);
    let n = std::mem::size_of::<Oracle>();
    if d.len() >= 8 + n {
        Some(*bytemuck::from_bytes::<Oracle>(&d[8..8 + n]))
    } else {
        None
    }
}

/// value of `<slot>.<field>` (a key) read from the account passed in that slot
fn eval_key(b: &Bank, spec: &Spec, slots: &BTreeMap<String, Pubkey>, expr: &str) -> Option<Pubkey> {
    if expr == "whirlpool.reward_authority()" {
        return de::<Whirlpool>(b, slots.get("whirlpool")?).map(|w| w.reward_authority());
    }
    let (slot, field) = expr.split_once('.')?;
    let key = slots.get(slot)?;
    let ty = spec.fields.iter().find(|f| f.name == slot)?.ty.clone();
    match (ty.as_str(), field) {
        ("WhirlpoolsConfig", "fee_authority") => de::<WhirlpoolsConfig>(b, key).map(|c| c.fee_authority),
        ("WhirlpoolsConfig", "collect_protocol_fees_authority") => de::<WhirlpoolsConfig>(b, key).map(|c| c.collect_protocol_fees_authority),
        ("WhirlpoolsConfig", "reward_emissions_super_authority") => de::<WhirlpoolsConfig>(b, key).map(|c| c.reward_emissions_super_authority),
        ("Whirlpool", "whirlpools_config") => de::<Whirlpool>(b, key).map(|c| c.whirlpools_config),
        ("FeeTier", "whirlpools_config") => de::<FeeTier>(b, key).map(|c| c.whirlpools_config),
        ("AdaptiveFeeTier", "whirlpools_config") => de::<AdaptiveFeeTier>(b, key).map(|c| c.whirlpools_config),
        ("AdaptiveFeeTier", "delegated_fee_authority") => de::<AdaptiveFeeTier>(b, key).map(|c| c.delegated_fee_authority),
        ("WhirlpoolsConfigExtension", "whirlpools_config") => de::<WhirlpoolsConfigExtension>(b, key).map(|c| c.whirlpools_config),
        ("WhirlpoolsConfigExtension", "config_extension_authority") => de::<WhirlpoolsConfigExtension>(b, key).map(|c| c.config_extension_authority),
        ("WhirlpoolsConfigExtension", "token_badge_authority") => de::<WhirlpoolsConfigExtension>(b, key).map(|c| c.token_badge_authority),
        ("TokenBadge", "whirlpools_config") => de::<TokenBadge>(b, key).map(|c| c.whirlpools_config),
        ("TokenBadge", "token_mint") => de::<TokenBadge>(b, key).map(|c| c.token_mint),
        ("Oracle", "whirlpool") => oracle_of(b, key).map(|o| o.whirlpool),
        _ => None,
    }
}

fn eval_bool(b: &Bank, slots: &BTreeMap<String, Pubkey>, expr: &str) -> Option<bool> {
    match expr {
        "whirlpool.is_initialized_with_adaptive_fee_tier()" => de::<Whirlpool>(b, slots.get("whirlpool")?).map(|w| w.is_initialized_with_adaptive_fee_tier()),
        "adaptive_fee_tier.whirlpools_config == whirlpool.whirlpools_config" => {
            let (t, w) = (de::<AdaptiveFeeTier>(b, slots.get("adaptive_fee_tier")?)?, de::<Whirlpool>(b, slots.get("whirlpool")?)?);
            Some(t.whirlpools_config == w.whirlpools_config)
        }
        "adaptive_fee_tier.fee_tier_index == whirlpool.fee_tier_index()" => {
            let (t, w) = (de::<AdaptiveFeeTier>(b, slots.get("adaptive_fee_tier")?)?, de::<Whirlpool>(b, slots.get("whirlpool")?)?);
            Some(t.fee_tier_index == w.fee_tier_index())
        }
        "is_admin_key(authority.key)" => Some(::whirlpool::auth::admin::is_admin_key(slots.get("authority")?)),
        _ => {
            // `<slot>.<field> == <slot>.<field>` over the fields a tier / pool comparison can use
            let (l, r) = expr.split_once(" == ")?;
            let val = |e: &str| -> Option<Vec<u8>> {
                let (slot, field) = e.trim().split_once('.')?;
                let key = slots.get(slot)?;
                match (slot, field) {
                    ("adaptive_fee_tier", "fee_tier_index") => de::<AdaptiveFeeTier>(b, key).map(|t| (t.fee_tier_index as u64).to_le_bytes().to_vec()),
                    ("adaptive_fee_tier", "tick_spacing") => de::<AdaptiveFeeTier>(b, key).map(|t| (t.tick_spacing as u64).to_le_bytes().to_vec()),
                    ("adaptive_fee_tier", "whirlpools_config") => de::<AdaptiveFeeTier>(b, key).map(|t| t.whirlpools_config.to_bytes().to_vec()),
                    ("fee_tier", "tick_spacing") => de::<FeeTier>(b, key).map(|t| (t.tick_spacing as u64).to_le_bytes().to_vec()),
                    ("fee_tier", "whirlpools_config") => de::<FeeTier>(b, key).map(|t| t.whirlpools_config.to_bytes().to_vec()),
                    ("whirlpool", "fee_tier_index()") => de::<Whirlpool>(b, key).map(|w| (w.fee_tier_index() as u64).to_le_bytes().to_vec()),
                    ("whirlpool", "tick_spacing") => de::<Whirlpool>(b, key).map(|w| (w.tick_spacing as u64).to_le_bytes().to_vec()),
                    ("whirlpool", "whirlpools_config") => de::<Whirlpool>(b, key).map(|w| w.whirlpools_config.to_bytes().to_vec()),
                    _ => None,
                }
            };
            Some(val(l)? == val(r)?)
        }
    }
}

// ---- instruction data and bounds ---------------------------------------------------------------------
/// (instruction data, bound descriptor for the op line)
fn ix_data(name: &str, val: u64, afc: &[u64; 7]) -> (Vec<u8>, String) {
    use ::whirlpool::instruction as ix;
    let v16 = val as u16;
    match name {
        "SetFeeRate" => (ix::SetFeeRate { fee_rate: v16 }.data(), format!("fee {}", v16)),
        "SetProtocolFeeRate" => (ix::SetProtocolFeeRate { protocol_fee_rate: v16 }.data(), format!("proto {}", v16)),
        "SetDefaultFeeRate" => (ix::SetDefaultFeeRate { default_fee_rate: v16 }.data(), format!("fee {}", v16)),
        "SetDefaultProtocolFeeRate" => (ix::SetDefaultProtocolFeeRate { default_protocol_fee_rate: v16 }.data(), format!("proto {}", v16)),
        "SetFeeAuthority" => (ix::SetFeeAuthority {}.data(), "none".to_string()),
        "SetCollectProtocolFeesAuthority" => (ix::SetCollectProtocolFeesAuthority {}.data(), "none".to_string()),
        "SetRewardEmissionsSuperAuthority" => (ix::SetRewardEmissionsSuperAuthority {}.data(), "none".to_string()),
        // the reward index argument is ignored since the reward authority became one key per pool
        "SetRewardAuthority" => (ix::SetRewardAuthority { reward_index: (val % 256) as u8 }.data(), "none".to_string()),
        "SetRewardAuthorityBySuperAuthority" => (ix::SetRewardAuthorityBySuperAuthority { reward_index: (val % 256) as u8 }.data(), "none".to_string()),
        "SetDefaultBaseFeeRate" => (ix::SetDefaultBaseFeeRate { default_base_fee_rate: v16 }.data(), format!("fee {}", v16)),
        "SetDelegatedFeeAuthority" => (ix::SetDelegatedFeeAuthority {}.data(), "none".to_string()),
        "SetInitializePoolAuthority" => (ix::SetInitializePoolAuthority {}.data(), "none".to_string()),
        "SetPresetAdaptiveFeeConstants" => (
            ix::SetPresetAdaptiveFeeConstants {
                filter_period: afc[0] as u16,
                decay_period: afc[1] as u16,
                reduction_factor: afc[2] as u16,
                adaptive_fee_control_factor: afc[3] as u32,
                max_volatility_accumulator: afc[4] as u32,
                tick_group_size: afc[5] as u16,
                major_swap_threshold_ticks: afc[6] as u16,
            }
            .data(),
            format!("afc {} {} {} {} {} {} {} {}", TS, afc[0], afc[1], afc[2], afc[3], afc[4], afc[5], afc[6]),
        ),
        "SetFeeRateByDelegatedFeeAuthority" => (ix::SetFeeRateByDelegatedFeeAuthority { fee_rate: v16 }.data(), format!("fee {}", v16)),
        "SetAdaptiveFeeConstants" => {
            // every argument is optional (None = keep the pool's value): `val` chooses which are given (odd values: all);
            // the bound descriptor carries the constants that RESULT, or `afcsame` when nothing changes (refused)
            let mask = if val % 2 == 1 { 0x7f } else { (val / 2) % 128 };
            let existing: [u64; 7] = [30, 600, 5000, 4000, 350_000, TS as u64, TS as u64];
            let some = |i: usize| mask & (1 << i) != 0;
            let upd: Vec<u64> = (0..7).map(|i| if some(i) { afc[i] } else { existing[i] }).collect();
            let o16 = |i: usize| if some(i) { Some(afc[i] as u16) } else { None };
            let o32 = |i: usize| if some(i) { Some(afc[i] as u32) } else { None };
            (
                ix::SetAdaptiveFeeConstants {
                    filter_period: o16(0),
                    decay_period: o16(1),
                    reduction_factor: o16(2),
                    adaptive_fee_control_factor: o32(3),
                    max_volatility_accumulator: o32(4),
                    tick_group_size: o16(5),
                    major_swap_threshold_ticks: o16(6),
                }
                .data(),
                if upd[..] == existing[..] { "afcsame".to_string() } else { format!("afc {} {} {} {} {} {} {} {}", TS, upd[0], upd[1], upd[2], upd[3], upd[4], upd[5], upd[6]) },
            )
        }
        "SetConfigFeatureFlag" => (ix::SetConfigFeatureFlag { feature_flag: ConfigFeatureFlag::TokenBadge(val % 2 == 1) }.data(), "none".to_string()),
        "SetConfigExtensionAuthority" => (ix::SetConfigExtensionAuthority {}.data(), "none".to_string()),
        "SetTokenBadgeAuthority" => (ix::SetTokenBadgeAuthority {}.data(), "none".to_string()),
        "SetTokenBadgeAttribute" => (ix::SetTokenBadgeAttribute { attribute: TokenBadgeAttribute::RequireNonTransferablePosition(val % 2 == 1) }.data(), "none".to_string()),
        _ => (vec![], "none".to_string()),
    }
}

/// the slot that receives the change, for the "exactly the targeted account changed" oracle
fn target_slot(spec: &Spec) -> Option<String> {
    spec.fields.iter().find(|f| f.writable).map(|f| f.name.clone())
}

struct XAdm;
impl Family for XAdm {
    fn name(&self) -> &'static str {
        "xadm"
    }
    fn gen(&self, r: &mut Rng, _idx: u64) -> String {
        let name = r.pick(SPECS);
        let variation = r.pick(&[0u64, 0, 1, 2, 3, 4, 5, 6]);
        let val = match r.below(4) {
            0 => r.pick(&[0u64, 1, 2, 3, 2499, 2500, 2501, 59999, 60000, 60001, 65535]),
            1 => r.below(4),
            _ => r.below(65536),
        };
        // adaptive-fee constants: valid ones, with a quarter of them broken in one place
        let gs = r.pick(&[1u64, 2, 4, 8, 16, 32, 64]);
        let mut afc = [r.pick(&[1u64, 30, 60]), 0, r.pick(&[0u64, 500, 9999]), r.pick(&[0u64, 4000, 99999]), r.pick(&[0u64, 350_000, (u32::MAX as u64) / gs]), gs, 1 + r.below(64 * 88)];
        afc[1] = afc[0] + r.pick(&[1u64, 600]);
        if r.chance(1, 4) {
            match r.below(5) {
                0 => afc[1] = afc[0],
                1 => afc[2] = 10000,
                2 => afc[3] = 100000,
                3 => afc[5] = r.pick(&[0u64, 3, 65]),
                _ => afc[6] = r.pick(&[0u64, 64 * 88 + 1]),
            }
        }
        // the op line = the environment the harness builds for this request (read by the Lean model) + " # " + the request
        let req = format!("xadm {} {} {} {} {} {} {} {} {} {}", name, variation, val, afc[0], afc[1], afc[2], afc[3], afc[4], afc[5], afc[6]);
        let tail = format!("{} {} {} {} {} {} {} {} {}", variation, val, afc[0], afc[1], afc[2], afc[3], afc[4], afc[5], afc[6]);
        match std::panic::catch_unwind(|| expand(&req).map(|(full, _)| full)) {
            Ok(Some(full)) => format!("{} # {}", full, tail),
            _ => format!("xadm {} 0 0 none # {}", name, tail),
        }
    }
    fn run(&self, line: &str, ctx: &mut Ctx) -> String {
        match std::panic::catch_unwind(std::panic::AssertUnwindSafe(|| self.run_inner(line, ctx))) {
            Ok(s) => s,
            Err(_) => "err".to_string(),
        }
    }
}

thread_local! {
    static SPEC_TABLE: BTreeMap<String, Spec> = load_specs();
}

/// the request part of an op line -> (full op line for the model, outcome)
pub fn expand(line: &str) -> Option<(String, Box<dyn FnOnce(&mut Ctx) -> String>)> {
    let t = toks(line);
    if t.len() < 11 {
        return None;
    }
    let name = t[1].to_string();
    let variation: u64 = t[2].parse().ok()?;
    let val: u64 = t[3].parse().ok()?;
    let mut afc = [0u64; 7];
    for i in 0..7 {
        afc[i] = t[4 + i].parse().ok()?;
    }
    let spec = SPEC_TABLE.with(|s| s.get(&name).cloned())?;
    let mut bank = world();
    // ---- slot assignment by slot name
    let auth_slot = spec.fields.iter().find(|f| f.kind == "Signer").map(|f| f.name.clone())?;
    let has_link = spec.fields.iter().any(|f| f.attrs.iter().any(|(kw, _)| kw == "has_one"));
    let target = target_slot(&spec);
    let mut slots: BTreeMap<String, Pubkey> = BTreeMap::new();
    let mut signer: BTreeMap<String, bool> = BTreeMap::new();
    for f in &spec.fields {
        let key = if f.kind == "Signer" {
            role(&f.name)
        } else if f.name.starts_with("new_") {
            newkey()
        } else {
            acct(&f.name, 1)?
        };
        slots.insert(f.name.clone(), key);
        signer.insert(f.name.clone(), f.kind == "Signer");
    }
    // out-of-bound / in-bound value
    let (in_val, out_val) = match name.as_str() {
        "SetProtocolFeeRate" | "SetDefaultProtocolFeeRate" => (val % 2501, 2501 + val % 63035),
        "SetRewardAuthority" | "SetRewardAuthorityBySuperAuthority" => (val % 3, 3 + val % 253),
        _ => (val % 60001, 60001 + val % 5535),
    };
    let mut v = in_val;
    match variation {
        1 => {
            signer.insert(auth_slot.clone(), false);
        }
        2 => {
            slots.insert(auth_slot.clone(), stranger());
        }
        3 => {
            if has_link && slots.contains_key("whirlpools_config") {
                // the other config and ITS authority (the stranger), everything else of config 1
                slots.insert("whirlpools_config".to_string(), acct("whirlpools_config", 2)?);
                slots.insert(auth_slot.clone(), stranger());
            } else {
                // another role's authority of the same config signs
                let other = if auth_slot == "fee_authority" { "collect_protocol_fees_authority" } else { "fee_authority" };
                slots.insert(auth_slot.clone(), role(other));
            }
        }
        6 => {
            // a sibling tier of the same config and spacing, with ITS authority signing; without a tier slot: a stranger
            if slots.contains_key("adaptive_fee_tier") && slots.contains_key("whirlpool") {
                slots.insert("adaptive_fee_tier".to_string(), k(0xC2, 3));
            }
            slots.insert(auth_slot.clone(), stranger());
        }
        4 => v = out_val,
        5 => {
            // the account that receives the change belongs to the other config
            if let Some(tg) = &target {
                if let Some(k2) = acct(tg, 2) {
                    if tg != "whirlpools_config" {
                        slots.insert(tg.clone(), k2);
                    } else {
                        slots.insert(auth_slot.clone(), stranger());
                    }
                }
            }
        }
        _ => {}
    }
    let afc_used = if variation == 4 && (name == "SetPresetAdaptiveFeeConstants" || name == "SetAdaptiveFeeConstants") { [afc[0], afc[0], afc[2], afc[3], afc[4], afc[5], afc[6]] } else { afc };
    let (data, bound) = ix_data(&name, v, &afc_used);
    // ---- the environment, read from the real accounts
    let mut ids: Vec<Pubkey> = vec![];
    let mut id_of = |p: &Pubkey| -> usize {
        if let Some(i) = ids.iter().position(|x| x == p) {
            i + 1
        } else {
            ids.push(*p);
            ids.len()
        }
    };
    let mut env = format!("{}", spec.fields.len());
    for f in &spec.fields {
        env += &format!(" {} {}", id_of(&slots[&f.name]), if signer[&f.name] { 1 } else { 0 });
    }
    let mut vals: Vec<String> = vec![];
    for f in &spec.fields {
        for (kw, ex) in &f.attrs {
            match kw.as_str() {
                "address" => vals.push(eval_key(&bank, &spec, &slots, ex).map(|p| id_of(&p).to_string())?),
                "has_one" => vals.push(eval_key(&bank, &spec, &slots, &format!("{}.{}", f.name, ex)).map(|p| id_of(&p).to_string())?),
                "constraint" => vals.push(if eval_bool(&bank, &slots, ex)? { "1".to_string() } else { "0".to_string() }),
                _ => {}
            }
        }
    }
    // set_adaptive_fee_constants: the MODEL is given the stored constants and the request (which arguments are present)
    // and runs its own handler (`setAdaptiveFeeConstants`: merge, unchanged?, valid?); the harness keeps its own merge in
    // `bound` for the stored-value oracle below
    let model_bound = if name == "SetAdaptiveFeeConstants" {
        let mask = if v % 2 == 1 { 0x7f } else { (v / 2) % 128 };
        let existing: [u64; 7] = [30, 600, 5000, 4000, 350_000, TS as u64, TS as u64];
        let e: Vec<String> = existing.iter().map(|x| x.to_string()).collect();
        let m: Vec<String> = (0..7).map(|i| if mask & (1 << i) != 0 { "1".to_string() } else { "0".to_string() }).collect();
        let r: Vec<String> = afc_used.iter().map(|x| x.to_string()).collect();
        format!("afcset {} {} {} {}", TS, e.join(" "), m.join(" "), r.join(" "))
    } else {
        bound.clone()
    };
    let full = format!("xadm {} {} {} {} {}", name, env, vals.len(), vals.join(" "), model_bound).replace("  ", " ");
    // the bound the property states for this setter (independent of the program's validators)
    let bound_ok = {
        let bt = toks(&bound);
        match bt[0] {
            "fee" => bt[1].parse::<u64>().unwrap() <= 60_000,
            "proto" => bt[1].parse::<u64>().unwrap() <= 2_500,
            "afcsame" => false,
            "afc" => {
                let n: Vec<u64> = bt[1..].iter().map(|x| x.parse().unwrap()).collect();
                let (ts, fp, dp, rf, cf, mx, gs, mj) = (n[0], n[1], n[2], n[3], n[4], n[5], n[6], n[7]);
                fp > 0 && dp > fp && cf < 100_000 && mx * gs <= u32::MAX as u64 && rf < 10_000 && gs > 0 && gs <= ts && ts % gs == 0 && mj > 0 && mj <= ts * 88
            }
            _ => true,
        }
    };
    let has_bound = bound != "none";
    // ---- run the real instruction
    let metas: Vec<Meta> = spec.fields.iter().map(|f| Meta { key: slots[&f.name], signer: signer[&f.name], writable: f.writable }).collect();
    let before = bank.clone();
    let full_c = full.clone();
    let bound_c = bound.clone();
    let (res, out) = bank.execute(&metas, &data);
    let outcome = Box::new(move |ctx: &mut Ctx| -> String {
        let tag = format!("{}_v{}_{}", name, variation, if res.is_ok() { "ok" } else { "err" });
        ctx.tag(&tag);
        match &res {
            Ok(()) => {
                if !bound_ok {
                    ctx.viol(format!("C19 {} accepted an out-of-bound value ({})", name, bound_c));
                }
                if variation != 0 && !(variation == 4 && (!has_bound || bound_ok)) {
                    ctx.viol(format!(
                        "C04/C15/C19 {} succeeded although {}",
                        name,
                        match variation {
                            1 => "the authority did not sign",
                            2 => "a stranger signed in place of the authority",
                            3 => "the authority of another config / another role signed",
                            4 => "the value is out of bounds",
                            6 => "a sibling adaptive fee tier (same config and spacing, another index) was passed with ITS authority signing / a stranger signed",
                            _ => "the account to change belongs to another config",
                        }
                    ));
                }
                // the value asked for is the value stored (value-carrying setters; variation 0 = everything right)
                if variation == 0 {
                    if let Some(tkey) = target.as_ref().and_then(|t| slots.get(t)) {
                        let d = bank.data(tkey);
                        let v16 = v as u16;
                        let stored: Option<(u64, u64)> = match name.as_str() {
                            "SetFeeRate" | "SetFeeRateByDelegatedFeeAuthority" => Whirlpool::try_deserialize(&mut &d[..]).ok().map(|w| (w.fee_rate as u64, v16 as u64)),
                            "SetProtocolFeeRate" => Whirlpool::try_deserialize(&mut &d[..]).ok().map(|w| (w.protocol_fee_rate as u64, v16 as u64)),
                            "SetDefaultFeeRate" => FeeTier::try_deserialize(&mut &d[..]).ok().map(|w| (w.default_fee_rate as u64, v16 as u64)),
                            "SetDefaultProtocolFeeRate" => WhirlpoolsConfig::try_deserialize(&mut &d[..]).ok().map(|w| (w.default_protocol_fee_rate as u64, v16 as u64)),
                            "SetDefaultBaseFeeRate" => AdaptiveFeeTier::try_deserialize(&mut &d[..]).ok().map(|w| (w.default_base_fee_rate as u64, v16 as u64)),
                            // flags: the badge's non-transferable-position attribute, the config's token-badge feature
                            "SetTokenBadgeAttribute" => TokenBadge::try_deserialize(&mut &d[..]).ok().map(|b| (b.attribute_require_non_transferable_position as u64, v % 2)),
                            "SetConfigFeatureFlag" => WhirlpoolsConfig::try_deserialize(&mut &d[..]).ok().map(|c| (c.feature_flags().contains(ConfigFeatureFlags::TOKEN_BADGE) as u64, v % 2)),
                            _ => None,
                        };
                        if let Some((got, want)) = stored {
                            if got != want {
                                ctx.viol(format!("C19/C04 {} stored {} where {} was asked for", name, got, want));
                            }
                            ctx.tag("stored_value_checked");
                        }
                        // set-authority instructions: the key in the `new_…` slot is what the setting's OWN field holds
                        // afterwards, and nothing else of the account moved (a setter that stores into another role's
                        // field hands that role over; one that stores nothing leaves the old authority in charge)
                        if let Some(newkey) = slots.iter().find(|(n, _)| n.starts_with("new_")).map(|(_, key)| *key) {
                            let field: Option<Pubkey> = match name.as_str() {
                                "SetFeeAuthority" => WhirlpoolsConfig::try_deserialize(&mut &d[..]).ok().map(|c| c.fee_authority),
                                "SetCollectProtocolFeesAuthority" => WhirlpoolsConfig::try_deserialize(&mut &d[..]).ok().map(|c| c.collect_protocol_fees_authority),
                                "SetRewardEmissionsSuperAuthority" => WhirlpoolsConfig::try_deserialize(&mut &d[..]).ok().map(|c| c.reward_emissions_super_authority),
                                "SetRewardAuthority" | "SetRewardAuthorityBySuperAuthority" => Whirlpool::try_deserialize(&mut &d[..]).ok().map(|w| w.reward_authority()),
                                "SetDelegatedFeeAuthority" => AdaptiveFeeTier::try_deserialize(&mut &d[..]).ok().map(|t| t.delegated_fee_authority),
                                "SetInitializePoolAuthority" => AdaptiveFeeTier::try_deserialize(&mut &d[..]).ok().map(|t| t.initialize_pool_authority),
                                "SetConfigExtensionAuthority" => WhirlpoolsConfigExtension::try_deserialize(&mut &d[..]).ok().map(|e| e.config_extension_authority),
                                "SetTokenBadgeAuthority" => WhirlpoolsConfigExtension::try_deserialize(&mut &d[..]).ok().map(|e| e.token_badge_authority),
                                _ => None,
                            };
                            if let Some(got) = field {
                                if got != newkey {
                                    ctx.viol(format!("C04 {} succeeded but the setting's authority field holds {} instead of the new authority {}", name, got, newkey));
                                }
                                let d0 = before.data(tkey);
                                let diff: Vec<usize> = (0..d.len().min(d0.len())).filter(|i| d[*i] != d0[*i]).collect();
                                if d.len() != d0.len() || diff.last().map(|l| l - diff[0] >= 32).unwrap_or(false) {
                                    ctx.viol(format!("C04 {} changed more of the account than one authority field", name));
                                }
                                ctx.tag("stored_authority_checked");
                            }
                        }
                        if name == "SetAdaptiveFeeConstants" || name == "SetPresetAdaptiveFeeConstants" {
                            let bt = toks(&bound_c);
                            if bt[0] == "afc" {
                                let n: Vec<u64> = bt[2..].iter().map(|x| x.parse().unwrap()).collect();
                                let got: Option<Vec<u64>> = if name == "SetAdaptiveFeeConstants" {
                                    if d.len() >= 8 + std::mem::size_of::<Oracle>() {
                                        let o: &Oracle = bytemuck::from_bytes(&d[8..8 + std::mem::size_of::<Oracle>()]);
                                        let c = o.adaptive_fee_constants;
                                        let vv = o.adaptive_fee_variables;
                                        if { vv.volatility_accumulator } != 0 || { vv.volatility_reference } != 0 || { vv.last_reference_update_timestamp } != 0 || { vv.last_major_swap_timestamp } != 0 || { vv.tick_group_index_reference } != 0 {
                                            ctx.viol("C14/C19 SetAdaptiveFeeConstants did not reset the adaptive-fee variables".to_string());
                                        }
                                        Some(vec![{ c.filter_period } as u64, { c.decay_period } as u64, { c.reduction_factor } as u64, { c.adaptive_fee_control_factor } as u64, { c.max_volatility_accumulator } as u64, { c.tick_group_size } as u64, { c.major_swap_threshold_ticks } as u64])
                                    } else {
                                        None
                                    }
                                } else {
                                    AdaptiveFeeTier::try_deserialize(&mut &d[..]).ok().map(|a| vec![a.filter_period as u64, a.decay_period as u64, a.reduction_factor as u64, a.adaptive_fee_control_factor as u64, a.max_volatility_accumulator as u64, a.tick_group_size as u64, a.major_swap_threshold_ticks as u64])
                                };
                                if let Some(g) = got {
                                    if g != n {
                                        ctx.viol(format!("C19 {} stored the constants {:?} where {:?} result from the request", name, g, n));
                                    }
                                    ctx.tag("stored_constants_checked");
                                }
                            }
                        }
                    }
                }
                // exactly the targeted account changed
                for (key, a) in bank.accts.iter() {
                    let changed = before.accts.get(key).map(|b| b.data != a.data).unwrap_or(true);
                    let is_target = target.as_ref().map(|t| slots.get(t) == Some(key)).unwrap_or(false);
                    if changed && !is_target {
                        ctx.viol(format!("C15 {} changed the data of an account other than its target", name));
                    }
                }
                ctx.nontrivial(&full_c);
                "ok".to_string()
            }
            Err(e) => {
                if (variation == 0 || (variation == 4 && !has_bound)) && bound_ok {
                    let detail = match e {
                        ExecError::Code(c) => crate::ix::err_name(e, &out.logs) + &format!(" ({})", c),
                        other => format!("{:?}", other),
                    };
                    ctx.viol(format!("C04/C19 {} failed with everything right: {}", name, detail));
                }
                "err".to_string()
            }
        }
    });
    Some((full, outcome))
}

impl XAdm {
    fn run_inner(&self, line: &str, ctx: &mut Ctx) -> String {
        let (envpart, tail) = match line.split_once(" # ") {
            Some(x) => x,
            None => return "bad-op".to_string(),
        };
        let name = toks(envpart).get(1).map(|s| s.to_string()).unwrap_or_default();
        let req = format!("xadm {} {}", name, tail);
        match expand(&req) {
            Some((full, f)) => {
                if full != envpart {
                    ctx.viol(format!("xadm: the environment of the op line is not what the harness builds now: `{}`", full));
                }
                f(ctx)
            }
            None => {
                ctx.tag("unsupported");
                "bad-op".to_string()
            }
        }
    }
}
