//! History-level family `hist`: a real Whirlpool, real Positions and real tick arrays (fixed and
//! dynamic, accessed through the Anchor `TickArrayType` and - via the `verif` hook - the Pinocchio
//! memory-mapped views) driven through exactly the manager functions the handlers call.
//! After every operation the whole state is printed as a digest; the Lean model prints the same
//! digest from its own state.  Implementation-side oracles (C05 sums, C01 solvency and drain,
//! C06 accounting, C07/C11 shadow ledger) run on the real state after every operation.
use crate::fam_math::{b, p128, p64, pb, toks};
use crate::rng::*;
use crate::{Ctx, Family};
use anchor_lang::{AccountDeserialize, AccountSerialize, Discriminator};
use std::cell::{RefCell, RefMut};
use std::collections::BTreeMap;
use ::whirlpool::manager::liquidity_manager::{
    calculate_fee_and_reward_growths, calculate_liquidity_token_deltas, calculate_modify_liquidity, sync_modify_liquidity_values,
};
use ::whirlpool::manager::swap_manager::swap;
use ::whirlpool::manager::whirlpool_manager::next_whirlpool_reward_infos;
use ::whirlpool::math::*;
use ::whirlpool::pinocchio::verif_export as pino;
use ::whirlpool::state::*;
use ::whirlpool::util::SwapTickSequence;

pub fn register(v: &mut Vec<Box<dyn Family>>) {
    v.push(Box::new(Hist { w: RefCell::new(None), plan: RefCell::new(Plan::default()) }));
}

pub struct ArrayAcc {
    pub data: RefCell<Vec<u8>>,
    pub dynamic: bool,
}

pub struct World {
    pub wp: Vec<u8>,
    pub positions: BTreeMap<u32, Vec<u8>>,
    pub arrays: BTreeMap<i32, ArrayAcc>,
    pub arrmode: u8,
    pub vault_a: u128,
    pub vault_b: u128,
    pub reward_vaults: [u128; 3],
    pub now: u64,
    pub af: Option<AdaptiveFeeInfo>,
    pub key: anchor_lang::prelude::Pubkey,
    // ledger for the oracles
    pub trader_a: i128,
    pub trader_b: i128,
    pub shadow: BTreeMap<u32, crate::hist_oracle::Shadow>,
    pub last_trace: Vec<::whirlpool::manager::swap_manager::verif_trace::StepTrace>,
    pub last_swap_report: (u64, u64, u64, u64),
    /// C13: data length of each dynamic tick-array account as driven by the returned TickArraySizeUpdate (148 when new)
    pub acct_len: BTreeMap<i32, i64>,
    /// C13: tick-rent units (779520 lamports each) held by each dynamic array / still held by each position (2 when opened)
    pub array_rent: BTreeMap<i32, i64>,
    pub pos_rent: BTreeMap<u32, i64>,
    /// C12: set when the Anchor and the Pinocchio run of the last modify disagreed
    pub c12_mismatch: Option<String>,
    /// C17: a saved earlier state of the pool, used as the second pool of two-hop routes
    pub snap: Option<Box<World>>,
}

pub fn anchor_err_name(e: anchor_lang::error::Error) -> String {
    match e {
        anchor_lang::error::Error::AnchorError(a) => a.error_name.clone(),
        anchor_lang::error::Error::ProgramError(p) => format!("ProgramError({:?})", p.program_error),
    }
}

pub fn pino_err_name(e: pino::UnifiedError) -> String {
    match e {
        pino::UnifiedError::Anchor(a) => anchor_err_name(a),
        pino::UnifiedError::Pinocchio(p) => format!("PinocchioError({:?})", p),
    }
}

/// (size change in ticks, rent units moved position -> array) of a TickArrayUpdate
pub fn tau_code(u: &::whirlpool::manager::tick_array_manager::TickArrayUpdate) -> (i64, i64) {
    use ::whirlpool::manager::tick_array_manager::{TickArrayRentTransfer as R, TickArraySizeUpdate as S};
    (
        match u.size_update {
            S::None => 0,
            S::Increase => 1,
            S::Decrease => -1,
        },
        match u.transfer_rent {
            R::None => 0,
            R::TransferToTickArray => 1,
            R::TransferToPosition => -1,
        },
    )
}

fn hist_oracle_clone_shell(w: &World) -> World {
    crate::hist_oracle::clone_world(w)
}

pub const DYN_MAX: usize = 8 + 4 + 32 + 16 + 113 * 88;

impl World {
    pub fn wp(&self) -> Whirlpool {
        Whirlpool::try_deserialize(&mut &self.wp[..]).unwrap()
    }
    pub fn set_wp(&mut self, w: &Whirlpool) {
        let mut d = vec![];
        w.try_serialize(&mut d).unwrap();
        self.wp.copy_from_slice(&d);
    }
    pub fn pos(&self, id: u32) -> Option<Position> {
        self.positions.get(&id).map(|d| Position::try_deserialize(&mut &d[..]).unwrap())
    }
    fn ticks_in_array(&self) -> i32 {
        88 * self.wp().tick_spacing as i32
    }
    pub fn array_start_for(&self, tick: i32) -> i32 {
        let tia = self.ticks_in_array();
        tick.div_euclid(tia) * tia
    }
    pub fn new_array(&self, start: i32) -> ArrayAcc {
        let idx = start.div_euclid(self.ticks_in_array());
        let dynamic = match self.arrmode {
            0 => false,
            1 => true,
            _ => idx.rem_euclid(2) == 1,
        };
        if dynamic {
            // DynamicTickArrayLoader views MAX_LEN bytes starting at data[8..]: 8 bytes beyond the account (realloc padding on chain)
            let mut data = vec![0u8; DYN_MAX + 16];
            data[..8].copy_from_slice(DynamicTickArray::DISCRIMINATOR);
            data[8..12].copy_from_slice(&start.to_le_bytes());
            data[12..44].copy_from_slice(&self.key.to_bytes());
            ArrayAcc { data: RefCell::new(data), dynamic }
        } else {
            let arr = FixedTickArray { start_tick_index: start, whirlpool: self.key, ..Default::default() };
            let mut data = FixedTickArray::DISCRIMINATOR.to_vec();
            data.extend_from_slice(bytemuck::bytes_of(&arr));
            ArrayAcc { data: RefCell::new(data), dynamic }
        }
    }
    pub fn ensure_array(&mut self, start: i32) {
        if !self.arrays.contains_key(&start) {
            let a = self.new_array(start);
            self.arrays.insert(start, a);
        }
    }
    pub fn anchor_view(acc: &ArrayAcc) -> RefMut<'_, dyn TickArrayType> {
        if acc.dynamic {
            RefMut::map(acc.data.borrow_mut(), |d| {
                let a: &mut DynamicTickArrayLoader = DynamicTickArrayLoader::load_mut(&mut d[8..]);
                a as &mut dyn TickArrayType
            })
        } else {
            RefMut::map(acc.data.borrow_mut(), |d| {
                let a: &mut FixedTickArray = bytemuck::from_bytes_mut(&mut d[8..]);
                a as &mut dyn TickArrayType
            })
        }
    }
    #[allow(clippy::mut_from_ref)]
    pub unsafe fn pino_view(acc: &ArrayAcc) -> &mut dyn pino::whirlpool::TickArray {
        let p = acc.data.borrow_mut().as_mut_ptr();
        if acc.dynamic {
            &mut *(p as *mut pino::whirlpool::tick_array::dynamic_tick_array::MemoryMappedDynamicTickArray)
        } else {
            &mut *(p as *mut pino::whirlpool::tick_array::fixed_tick_array::MemoryMappedFixedTickArray)
        }
    }

    /// all initialized ticks, read through the Anchor accessors
    pub fn all_ticks(&self) -> Vec<(i32, Tick)> {
        let ts = self.wp().tick_spacing;
        let mut out = vec![];
        for (start, acc) in &self.arrays {
            let v = Self::anchor_view(acc);
            for k in 0..88 {
                let ti = start + k * ts as i32;
                if let Ok(t) = v.get_tick(ti, ts) {
                    if t.initialized || t != Tick::default() {
                        out.push((ti, t));
                    }
                }
            }
        }
        out
    }

    pub fn digest(&self) -> String {
        let w = self.wp();
        let mut s = format!(
            "P {} {} {} {} {} {} {} {}",
            { w.liquidity },
            { w.sqrt_price },
            { w.tick_current_index },
            { w.protocol_fee_owed_a },
            { w.protocol_fee_owed_b },
            { w.fee_growth_global_a },
            { w.fee_growth_global_b },
            { w.reward_last_updated_timestamp }
        );
        for r in w.reward_infos.iter() {
            s += &format!(" {}:{}:{}", b(r.initialized()), { r.emissions_per_second_x64 }, { r.growth_global_x64 });
        }
        s += &format!(" | V {} {} {} {} {}", self.vault_a, self.vault_b, self.reward_vaults[0], self.reward_vaults[1], self.reward_vaults[2]);
        s += " | T";
        for (ti, t) in self.all_ticks() {
            let rg = t.reward_growths_outside;
            s += &format!(
                " {}:{}:{}:{}:{}:{}:{}:{}:{}",
                ti,
                b(t.initialized),
                { t.liquidity_net },
                { t.liquidity_gross },
                { t.fee_growth_outside_a },
                { t.fee_growth_outside_b },
                rg[0],
                rg[1],
                rg[2]
            );
        }
        s += " | Q";
        for (id, _) in &self.positions {
            let p = self.pos(*id).unwrap();
            s += &format!(
                " {}:{}:{}:{}:{}:{}:{}:{}",
                id,
                { p.tick_lower_index },
                { p.tick_upper_index },
                { p.liquidity },
                { p.fee_growth_checkpoint_a },
                { p.fee_owed_a },
                { p.fee_growth_checkpoint_b },
                { p.fee_owed_b }
            );
            for r in p.reward_infos.iter() {
                s += &format!(":{}:{}", { r.growth_inside_checkpoint }, { r.amount_owed });
            }
        }
        s += " | A";
        match &self.af {
            None => s += " -",
            Some(a) => {
                let v = a.variables;
                s += &format!(
                    " {} {} {} {} {}",
                    { v.last_reference_update_timestamp },
                    { v.last_major_swap_timestamp },
                    { v.volatility_reference },
                    { v.tick_group_index_reference },
                    { v.volatility_accumulator }
                );
            }
        }
        s
    }
}

pub struct SwapOutcome {
    pub amount_a: u64,
    pub amount_b: u64,
    pub lp_fee: u64,
    pub protocol_fee: u64,
}

impl World {
    fn init(t: &[&str]) -> World {
        // H init ts feeRate protoRate price fgA fgB rg0 rg1 rg2 now arrmode
        let ts: u16 = t[2].parse().unwrap();
        let price = p128(t[5]);
        let mut w = Whirlpool { tick_spacing: ts, fee_rate: t[3].parse().unwrap(), protocol_fee_rate: t[4].parse().unwrap(), ..Default::default() };
        w.sqrt_price = price;
        w.tick_current_index = tick_index_from_sqrt_price(&price);
        w.fee_growth_global_a = p128(t[6]);
        w.fee_growth_global_b = p128(t[7]);
        for i in 0..3 {
            // a reward with a non-zero initial accumulator is an initialized one (an uninitialized
            // reward never accrues, so its accumulator is 0 in every reachable state)
            w.reward_infos[i].growth_global_x64 = p128(t[8 + i]);
            if p128(t[8 + i]) != 0 {
                w.reward_infos[i].mint = anchor_lang::prelude::Pubkey::new_from_array([100 + i as u8; 32]);
                w.reward_infos[i].vault = w.reward_infos[i].mint;
            }
        }
        w.reward_last_updated_timestamp = p64(t[11]);
        let mut d = vec![];
        w.try_serialize(&mut d).unwrap();
        World {
            wp: d,
            positions: BTreeMap::new(),
            arrays: BTreeMap::new(),
            arrmode: t[12].parse().unwrap(),
            vault_a: 0,
            vault_b: 0,
            reward_vaults: [0; 3],
            now: p64(t[11]),
            af: None,
            key: anchor_lang::prelude::Pubkey::new_from_array([7u8; 32]),
            trader_a: 0,
            trader_b: 0,
            shadow: BTreeMap::new(),
            last_trace: vec![],
            last_swap_report: (0, 0, 0, 0),
            acct_len: BTreeMap::new(),
            array_rent: BTreeMap::new(),
            pos_rent: BTreeMap::new(),
            c12_mismatch: None,
            snap: None,
        }
    }

    fn modify(&mut self, id: u32, amount: u128, positive: bool, use_pino: bool) -> Result<String, String> {
        if amount == 0 {
            return Err("LiquidityZero".into());
        }
        let delta = convert_to_liquidity_delta(amount, positive).map_err(|e| format!("{:?}", e))?;
        let p = self.pos(id).ok_or("NoSuchPosition")?;
        let (ls, us) = (self.array_start_for(p.tick_lower_index), self.array_start_for(p.tick_upper_index));
        self.ensure_array(ls);
        self.ensure_array(us);
        // C12: both implementations on identical copies of the accounts
        {
            use crate::fam_pmod::{clone_acc, run_path, used_bytes};
            let mk = || (self.wp.clone(), self.positions[&id].clone(), clone_acc(&self.arrays[&ls]), if ls == us { None } else { Some(clone_acc(&self.arrays[&us])) });
            let (mut wa, mut pa, la, ua) = mk();
            let (mut wq, mut pq, lq, uq) = mk();
            let ra = run_path(false, &mut wa, &mut pa, &la, &ua, delta, self.now);
            let rp = run_path(true, &mut wq, &mut pq, &lq, &uq, delta, self.now);
            if ra != rp {
                self.c12_mismatch = Some(format!("C12 modify-liquidity on position {}: Anchor gives {:?}, Pinocchio gives {:?}", id, ra, rp));
            } else if ra.is_ok() && (wa != wq || pa != pq || used_bytes(&la) != used_bytes(&lq) || ua.as_ref().map(used_bytes) != uq.as_ref().map(used_bytes)) {
                self.c12_mismatch = Some(format!(
                    "C12 modify-liquidity on position {}: account bytes differ between the Anchor and the Pinocchio run (whirlpool {}, position {}, arrays {})",
                    id,
                    wa != wq,
                    pa != pq,
                    used_bytes(&la) != used_bytes(&lq) || ua.as_ref().map(used_bytes) != uq.as_ref().map(used_bytes)
                ));
            }
        }
        // work on copies; commit on success (a failed instruction reverts everything)
        let mut wp_bytes = self.wp.clone();
        let mut pos_bytes = self.positions[&id].clone();
        let lower_copy = ArrayAcc { data: RefCell::new(self.arrays[&ls].data.borrow().clone()), dynamic: self.arrays[&ls].dynamic };
        let upper_copy = if ls == us { None } else { Some(ArrayAcc { data: RefCell::new(self.arrays[&us].data.borrow().clone()), dynamic: self.arrays[&us].dynamic }) };
        let ts_now = self.now;
        let (da, db);
        let (tau_l, tau_u);
        if use_pino {
            let wpm = unsafe { &mut *(wp_bytes.as_mut_ptr() as *mut pino::whirlpool::MemoryMappedWhirlpool) };
            let pm = unsafe { &mut *(pos_bytes.as_mut_ptr() as *mut pino::whirlpool::MemoryMappedPosition) };
            let lower = unsafe { World::pino_view(&lower_copy) };
            let update = match &upper_copy {
                None => pino::manager_liquidity_manager::pino_calculate_modify_liquidity(wpm, pm, &*lower, &*lower, delta, ts_now),
                Some(u) => {
                    let upper = unsafe { World::pino_view(u) };
                    pino::manager_liquidity_manager::pino_calculate_modify_liquidity(wpm, pm, &*lower, &*upper, delta, ts_now)
                }
            }
            .map_err(pino_err_name)?;
            tau_l = tau_code(&update.tick_array_lower_update);
            tau_u = tau_code(&update.tick_array_upper_update);
            match &upper_copy {
                None => pino::manager_liquidity_manager::pino_sync_modify_liquidity_values(wpm, pm, lower, None, &update, ts_now),
                Some(u) => {
                    let upper = unsafe { World::pino_view(u) };
                    pino::manager_liquidity_manager::pino_sync_modify_liquidity_values(wpm, pm, lower, Some(upper), &update, ts_now)
                }
            }
            .map_err(pino_err_name)?;
            let r = pino::manager_liquidity_manager::pino_calculate_liquidity_token_deltas(wpm.tick_current_index(), wpm.sqrt_price(), pm, delta)
                .map_err(pino_err_name)?;
            da = r.0;
            db = r.1;
        } else {
            let mut w = Whirlpool::try_deserialize(&mut &wp_bytes[..]).unwrap();
            let mut pp = Position::try_deserialize(&mut &pos_bytes[..]).unwrap();
            let update = {
                let lower = World::anchor_view(&lower_copy);
                match &upper_copy {
                    None => calculate_modify_liquidity(&w, &pp, &*lower, &*lower, delta, ts_now),
                    Some(u) => {
                        let upper = World::anchor_view(u);
                        calculate_modify_liquidity(&w, &pp, &*lower, &*upper, delta, ts_now)
                    }
                }
            }
            .map_err(anchor_err_name)?;
            tau_l = tau_code(&update.tick_array_lower_update);
            tau_u = tau_code(&update.tick_array_upper_update);
            {
                let mut lower = World::anchor_view(&lower_copy);
                match &upper_copy {
                    None => sync_modify_liquidity_values(&mut w, &mut pp, &mut *lower, None, &update, ts_now),
                    Some(u) => {
                        let mut upper = World::anchor_view(u);
                        sync_modify_liquidity_values(&mut w, &mut pp, &mut *lower, Some(&mut *upper), &update, ts_now)
                    }
                }
                .map_err(anchor_err_name)?;
            }
            let r = calculate_liquidity_token_deltas(w.tick_current_index, w.sqrt_price, &pp, delta).map_err(anchor_err_name)?;
            da = r.0;
            db = r.1;
            let mut d = vec![];
            w.try_serialize(&mut d).unwrap();
            wp_bytes.copy_from_slice(&d);
            let mut d = vec![];
            pp.try_serialize(&mut d).unwrap();
            pos_bytes.copy_from_slice(&d);
        }
        // token movement
        if positive {
            self.vault_a += da as u128;
            self.vault_b += db as u128;
        } else {
            if (da as u128) > self.vault_a || (db as u128) > self.vault_b {
                return Err("InsufficientFunds".into());
            }
            self.vault_a -= da as u128;
            self.vault_b -= db as u128;
        }
        self.wp = wp_bytes;
        self.positions.insert(id, pos_bytes);
        // C13: what pino_update_tick_array_accounts / update_tick_array_accounts would do with the returned updates
        for (st, (size, rent)) in [(ls, tau_l), (us, tau_u)] {
            *self.acct_len.entry(st).or_insert(148) += 112 * size;
            *self.array_rent.entry(st).or_insert(0) += rent;
            *self.pos_rent.entry(id).or_insert(2) -= rent;
        }
        *self.arrays.get(&ls).unwrap().data.borrow_mut() = lower_copy.data.into_inner();
        if let Some(u) = upper_copy {
            *self.arrays.get(&us).unwrap().data.borrow_mut() = u.data.into_inner();
        }
        Ok(format!("{} {}", da, db))
    }

    fn update_fees(&mut self, id: u32) -> Result<String, String> {
        let p = self.pos(id).ok_or("NoSuchPosition")?;
        let (ls, us) = (self.array_start_for(p.tick_lower_index), self.array_start_for(p.tick_upper_index));
        self.ensure_array(ls);
        self.ensure_array(us);
        let mut w = self.wp();
        let mut pp = p;
        let (pu, ri) = {
            let lower = World::anchor_view(&self.arrays[&ls]);
            if ls == us {
                calculate_fee_and_reward_growths(&w, &pp, &*lower, &*lower, self.now)
            } else {
                let upper = World::anchor_view(&self.arrays[&us]);
                calculate_fee_and_reward_growths(&w, &pp, &*lower, &*upper, self.now)
            }
        }
        .map_err(anchor_err_name)?;
        w.update_rewards(ri, self.now);
        pp.update(&pu);
        self.set_wp(&w);
        let mut d = vec![];
        pp.try_serialize(&mut d).unwrap();
        self.positions.insert(id, d);
        Ok(String::new())
    }

    fn collect_fees(&mut self, id: u32) -> Result<String, String> {
        let mut p = self.pos(id).ok_or("NoSuchPosition")?;
        let (a, bb) = (p.fee_owed_a, p.fee_owed_b);
        if (a as u128) > self.vault_a || (bb as u128) > self.vault_b {
            return Err("InsufficientFunds".into());
        }
        p.reset_fees_owed();
        self.vault_a -= a as u128;
        self.vault_b -= bb as u128;
        let mut d = vec![];
        p.try_serialize(&mut d).unwrap();
        self.positions.insert(id, d);
        Ok(format!("{} {}", a, bb))
    }

    fn collect_protocol(&mut self) -> Result<String, String> {
        let mut w = self.wp();
        let (a, bb) = (w.protocol_fee_owed_a, w.protocol_fee_owed_b);
        if (a as u128) > self.vault_a || (bb as u128) > self.vault_b {
            return Err("InsufficientFunds".into());
        }
        w.reset_protocol_fees_owed();
        self.vault_a -= a as u128;
        self.vault_b -= bb as u128;
        self.set_wp(&w);
        Ok(format!("{} {}", a, bb))
    }

    pub fn do_swap_pub(&mut self, amount: u64, limit: u128, ein: bool, dir: bool, starts: &[i32]) -> Result<(u64, u64, u64, u64), String> {
        self.do_swap(amount, limit, ein, dir, starts).map(|x| (x.1.amount_a, x.1.amount_b, x.1.lp_fee, x.1.protocol_fee))
    }

    fn do_swap(&mut self, amount: u64, limit: u128, ein: bool, dir: bool, starts: &[i32]) -> Result<(String, SwapOutcome), String> {
        for s in starts {
            self.ensure_array(*s);
        }
        let mut w = self.wp();
        // copies of the arrays; commit on success
        let copies: Vec<ArrayAcc> =
            starts.iter().map(|s| ArrayAcc { data: RefCell::new(self.arrays[s].data.borrow().clone()), dynamic: self.arrays[s].dynamic }).collect();
        let _ = ::whirlpool::manager::swap_manager::verif_trace::take();
        let update = {
            let mut it = copies.iter();
            let ta0 = World::anchor_view(it.next().ok_or("NoArrays")?);
            let ta1 = it.next().map(World::anchor_view);
            let ta2 = it.next().map(World::anchor_view);
            let mut seq = SwapTickSequence::new(ta0, ta1, ta2);
            swap(&w, &mut seq, amount, limit, ein, dir, self.now, &self.af).map_err(anchor_err_name)?
        };
        self.last_trace = ::whirlpool::manager::swap_manager::verif_trace::take();
        let out = self.commit_swap(w, &update, dir)?;
        for (s, c) in starts.iter().zip(copies.into_iter()) {
            *self.arrays.get(s).unwrap().data.borrow_mut() = c.data.into_inner();
        }
        Ok(out)
    }

    /// C20: what the Rust core SDK computes for the same swap on the same state
    /// (amount A, amount B, total fee) — `compute_swap` of rust-sdk/core/src/quote/swap.rs
    pub fn sdk_swap(&self, amount: u64, limit: u128, ein: bool, dir: bool, starts: &[i32]) -> Result<(u64, u64, u64), String> {
        use orca_whirlpools_core as sdk;
        let wp = self.wp();
        let ts = wp.tick_spacing;
        let mut seed = ts.to_le_bytes();
        if self.af.is_some() {
            seed = (ts.wrapping_add(1024)).to_le_bytes(); // adaptive-fee pools have fee_tier_index != tick_spacing
        }
        let wf = sdk::WhirlpoolFacade {
            fee_tier_index_seed: seed,
            tick_spacing: ts,
            fee_rate: wp.fee_rate,
            protocol_fee_rate: wp.protocol_fee_rate,
            liquidity: wp.liquidity,
            sqrt_price: wp.sqrt_price,
            tick_current_index: wp.tick_current_index,
            fee_growth_global_a: wp.fee_growth_global_a,
            fee_growth_global_b: wp.fee_growth_global_b,
            reward_last_updated_timestamp: wp.reward_last_updated_timestamp,
            reward_infos: [sdk::WhirlpoolRewardInfoFacade::default(); 3],
        };
        let mut arrs: [Option<sdk::TickArrayFacade>; 6] = [None; 6];
        let mut uniq: Vec<i32> = vec![];
        for s in starts {
            if !uniq.contains(s) {
                uniq.push(*s);
            }
        }
        for (k, st) in uniq.iter().take(6).enumerate() {
            let mut ticks = [sdk::TickFacade::default(); 88];
            if let Some(acc) = self.arrays.get(st) {
                let v = World::anchor_view(acc);
                for i in 0..88 {
                    if let Ok(t) = v.get_tick(st + i as i32 * ts as i32, ts) {
                        ticks[i] = sdk::TickFacade {
                            initialized: t.initialized,
                            liquidity_net: t.liquidity_net,
                            liquidity_gross: t.liquidity_gross,
                            fee_growth_outside_a: t.fee_growth_outside_a,
                            fee_growth_outside_b: t.fee_growth_outside_b,
                            reward_growths_outside: t.reward_growths_outside,
                        };
                    }
                }
            }
            arrs[k] = Some(sdk::TickArrayFacade { start_tick_index: *st, ticks });
        }
        let af = self.af.as_ref().map(|i| sdk::AdaptiveFeeInfo {
            constants: sdk::AdaptiveFeeConstantsFacade {
                filter_period: i.constants.filter_period,
                decay_period: i.constants.decay_period,
                reduction_factor: i.constants.reduction_factor,
                adaptive_fee_control_factor: i.constants.adaptive_fee_control_factor,
                max_volatility_accumulator: i.constants.max_volatility_accumulator,
                tick_group_size: i.constants.tick_group_size,
                major_swap_threshold_ticks: i.constants.major_swap_threshold_ticks,
            },
            variables: sdk::AdaptiveFeeVariablesFacade {
                last_reference_update_timestamp: i.variables.last_reference_update_timestamp,
                last_major_swap_timestamp: i.variables.last_major_swap_timestamp,
                volatility_reference: i.variables.volatility_reference,
                tick_group_index_reference: i.variables.tick_group_index_reference,
                volatility_accumulator: i.variables.volatility_accumulator,
            },
        });
        let now = self.now;
        let r = std::panic::catch_unwind(std::panic::AssertUnwindSafe(|| {
            let seq = sdk::TickArraySequence::<6>::new(arrs, ts).map_err(|e| e.to_string())?;
            sdk::compute_swap(amount, limit, wf, seq, dir, ein, now, af).map_err(|e| e.to_string())
        }));
        match r {
            Ok(Ok(x)) => Ok((x.token_a, x.token_b, x.trade_fee)),
            Ok(Err(e)) => Err(e),
            Err(_) => Err("Panic".to_string()),
        }
    }

    /// token movement and pool update as in swap_utils::update_and_swap_whirlpool
    fn commit_swap(&mut self, mut w: Whirlpool, update: &::whirlpool::manager::swap_manager::PostSwapUpdate, dir: bool) -> Result<(String, SwapOutcome), String> {
        let (va, vb) = if dir {
            if (update.amount_b as u128) > self.vault_b {
                return Err("InsufficientFunds".into());
            }
            (self.vault_a + update.amount_a as u128, self.vault_b - update.amount_b as u128)
        } else {
            if (update.amount_a as u128) > self.vault_a {
                return Err("InsufficientFunds".into());
            }
            (self.vault_a - update.amount_a as u128, self.vault_b + update.amount_b as u128)
        };
        w.update_after_swap(
            update.next_liquidity,
            update.next_tick_index,
            update.next_sqrt_price,
            update.next_fee_growth_global,
            update.next_reward_infos,
            update.next_protocol_fee,
            dir,
            self.now,
        );
        self.set_wp(&w);
        if let Some(info) = &update.next_adaptive_fee_info {
            self.af = Some(info.clone());
        }
        self.vault_a = va;
        self.vault_b = vb;
        if dir {
            self.trader_a -= update.amount_a as i128;
            self.trader_b += update.amount_b as i128;
        } else {
            self.trader_a += update.amount_a as i128;
            self.trader_b -= update.amount_b as i128;
        }
        self.last_swap_report = (update.amount_a, update.amount_b, update.lp_fee, update.next_protocol_fee);
        let o = SwapOutcome { amount_a: update.amount_a, amount_b: update.amount_b, lp_fee: update.lp_fee, protocol_fee: update.next_protocol_fee };
        Ok((format!("{} {} {} {}", update.amount_a, update.amount_b, update.lp_fee, update.next_protocol_fee), o))
    }

    pub fn array_is_empty(&self, start: i32) -> bool {
        match self.arrays.get(&start) {
            None => true,
            Some(acc) => {
                let ts = self.wp().tick_spacing;
                let v = World::anchor_view(acc);
                (0..88).all(|k| v.get_tick(start + k * ts as i32, ts).map(|t| !t.initialized).unwrap_or(true))
            }
        }
    }

    /// a copy of the array in the OTHER encoding (fixed <-> dynamic), same ticks
    fn converted(&self, src: &ArrayAcc, start: i32, to_dynamic: bool) -> ArrayAcc {
        let ts = self.wp().tick_spacing;
        let dst = {
            let mut w2 = hist_oracle_clone_shell(self);
            w2.arrmode = if to_dynamic { 1 } else { 0 };
            w2.new_array(start)
        };
        {
            let s = World::anchor_view(src);
            let mut d = World::anchor_view(&dst);
            for k in 0..88 {
                let ti = start + k * ts as i32;
                if let Ok(t) = s.get_tick(ti, ts) {
                    if t.initialized {
                        d.update_tick(ti, ts, &TickUpdate::from(t)).unwrap();
                    }
                }
            }
        }
        dst
    }

    /// C10: the swap through the REAL account-packaging layer (SparseSwapTickSequenceBuilder) with the
    /// given supplied accounts: (start, kind) with kind s = the stored array, c = the stored array
    /// re-encoded (fixed <-> dynamic), u = an empty system-owned account at the array's PDA (only for
    /// arrays without initialized ticks), x = an array of another pool, o = an empty account elsewhere
    fn do_pswap(&mut self, amount: u64, limit: u128, ein: bool, dir: bool, entries: &[(i32, char)]) -> Result<(String, SwapOutcome), String> {
        use anchor_lang::prelude::{Account, AccountInfo, Pubkey};
        let program_id = ::whirlpool::ID;
        let system_id = anchor_lang::solana_program::system_program::ID;
        let pool_key = self.key;
        let pda = move |start: i32| Pubkey::find_program_address(&[b"tick_array", pool_key.as_ref(), start.to_string().as_bytes()], &program_id).0;
        // materialize the accounts
        struct Mat {
            key: Pubkey,
            owner: Pubkey,
            lamports: u64,
            data: Vec<u8>,
            start: i32,
            kind: char,
            dynamic: bool,
        }
        let mut mats: Vec<Mat> = vec![];
        for (i, (start, kind)) in entries.iter().enumerate() {
            let mut kind = *kind;
            if kind == 'u' && !self.array_is_empty(*start) {
                kind = 's';
            }
            match kind {
                's' | 'c' | 'x' => {
                    self.ensure_array(*start);
                    let stored = &self.arrays[start];
                    let acc = if kind == 'c' { self.converted(stored, *start, !stored.dynamic) } else { ArrayAcc { data: RefCell::new(stored.data.borrow().clone()), dynamic: stored.dynamic } };
                    let mut data = acc.data.into_inner();
                    let mut key = pda(*start);
                    if kind == 'x' {
                        // an array of another whirlpool
                        let other = Pubkey::new_from_array([8u8; 32]);
                        if acc.dynamic {
                            data[12..44].copy_from_slice(other.as_ref());
                        } else {
                            let n = data.len();
                            data[n - 32..].copy_from_slice(other.as_ref());
                        }
                        key = Pubkey::new_from_array([200 + (i as u8 % 50); 32]);
                    }
                    mats.push(Mat { key, owner: program_id, lamports: 1, data, start: *start, kind, dynamic: acc.dynamic });
                }
                'u' => mats.push(Mat { key: pda(*start), owner: system_id, lamports: 0, data: vec![], start: *start, kind, dynamic: false }),
                _ => mats.push(Mat { key: Pubkey::new_from_array([150 + (i as u8 % 50); 32]), owner: system_id, lamports: 0, data: vec![], start: *start, kind: 'o', dynamic: false }),
            }
        }
        // duplicates of one account must be ONE account (same key => same data)
        let mut wp_data = self.wp.clone();
        let mut wp_lamports = 1u64;
        let wp_key = self.key;
        let wp_info = AccountInfo::new(&wp_key, false, true, &mut wp_lamports, &mut wp_data[..], &program_id, false, 0);
        let whirlpool: Account<Whirlpool> = Account::try_from(&wp_info).map_err(anchor_err_name)?;
        let mut seen: BTreeMap<Pubkey, usize> = BTreeMap::new();
        let mut uniq: Vec<usize> = vec![];
        let mut order: Vec<usize> = vec![]; // entry index -> index into uniq infos
        for (i, m) in mats.iter().enumerate() {
            let u = *seen.entry(m.key).or_insert_with(|| {
                uniq.push(i);
                uniq.len() - 1
            });
            order.push(u);
        }
        let keys: Vec<Pubkey> = uniq.iter().map(|i| mats[*i].key).collect();
        let owners: Vec<Pubkey> = uniq.iter().map(|i| mats[*i].owner).collect();
        let mut lams: Vec<u64> = uniq.iter().map(|i| mats[*i].lamports).collect();
        let mut datas: Vec<Vec<u8>> = uniq.iter().map(|i| mats[*i].data.clone()).collect();
        let infos: Vec<AccountInfo> = {
            let mut v = vec![];
            let mut li = lams.iter_mut();
            let mut di = datas.iter_mut();
            for k in 0..uniq.len() {
                v.push(AccountInfo::new(&keys[k], false, true, li.next().unwrap(), &mut di.next().unwrap()[..], &owners[k], false, 0));
            }
            v
        };
        let supplied: Vec<AccountInfo> = order.iter().map(|u| infos[*u].clone()).collect();
        let n_static = supplied.len().min(3);
        let stat = supplied[..n_static].to_vec();
        let supp = if supplied.len() > 3 { Some(supplied[3..].to_vec()) } else { None };
        let _ = ::whirlpool::manager::swap_manager::verif_trace::take();
        let update = {
            let builder = ::whirlpool::util::SparseSwapTickSequenceBuilder::new(stat, supp);
            let mut seq = builder.try_build(&whirlpool, dir).map_err(anchor_err_name)?;
            swap(&whirlpool, &mut seq, amount, limit, ein, dir, self.now, &self.af).map_err(anchor_err_name)?
        };
        self.last_trace = ::whirlpool::manager::swap_manager::verif_trace::take();
        drop(supplied);
        drop(infos);
        let w = self.wp();
        let out = self.commit_swap(w, &update, dir)?;
        // write the arrays back (re-encoding converted ones)
        for (k, i) in uniq.iter().enumerate() {
            let m = &mats[*i];
            match m.kind {
                's' => *self.arrays.get(&m.start).unwrap().data.borrow_mut() = datas[k].clone(),
                'c' => {
                    let modified = ArrayAcc { data: RefCell::new(datas[k].clone()), dynamic: m.dynamic };
                    let back = self.converted(&modified, m.start, !m.dynamic);
                    *self.arrays.get(&m.start).unwrap().data.borrow_mut() = back.data.into_inner();
                }
                _ => {}
            }
        }
        Ok(out)
    }

    fn set_reward(&mut self, i: usize, emissions: u128, topup: u64) -> Result<String, String> {
        if i >= 3 {
            return Err("InvalidRewardIndex".into());
        }
        let mut w = self.wp();
        if !w.reward_infos[i].initialized() {
            // initialize_reward: lowest uninitialized index only
            let mint = anchor_lang::prelude::Pubkey::new_from_array([100 + i as u8; 32]);
            w.initialize_reward(i, mint, mint).map_err(anchor_err_name)?;
            self.set_wp(&w);
        }
        self.reward_vaults[i] += topup as u128;
        let per_day = checked_mul_shift_right(86400, emissions).map_err(|e| format!("{:?}", e))?;
        if self.reward_vaults[i] < per_day as u128 {
            return Err("RewardVaultAmountInsufficient".into());
        }
        let w0 = self.wp();
        let next = next_whirlpool_reward_infos(&w0, self.now).map_err(|e| format!("{:?}", e))?;
        let mut w = w0;
        w.update_emissions(i, next, self.now, emissions).map_err(anchor_err_name)?;
        self.set_wp(&w);
        Ok(String::new())
    }

    fn collect_reward(&mut self, id: u32, i: usize) -> Result<String, String> {
        if i >= 3 {
            return Err("InvalidRewardIndex".into());
        }
        let mut p = self.pos(id).ok_or("NoSuchPosition")?;
        let owed = p.reward_infos[i].amount_owed;
        let vault = self.reward_vaults[i].min(u64::MAX as u128) as u64;
        let (transfer, left) = if owed > vault { (vault, owed - vault) } else { (owed, 0) };
        p.update_reward_owed(i, left);
        self.reward_vaults[i] -= transfer as u128;
        let mut d = vec![];
        p.try_serialize(&mut d).unwrap();
        self.positions.insert(id, d);
        Ok(format!("{}", transfer))
    }
}

impl World {
    pub fn modify_pub(&mut self, id: u32, amount: u128, positive: bool, use_pino: bool) -> Result<String, String> {
        self.modify(id, amount, positive, use_pino)
    }
    pub fn collect_fees_pub(&mut self, id: u32) -> Result<String, String> {
        // settle accrued fees first (a position with zero liquidity cannot be updated: LiquidityZero)
        let _ = self.update_fees(id);
        self.collect_fees(id)
    }
    pub fn collect_protocol_pub(&mut self) -> Result<String, String> {
        self.collect_protocol()
    }
    pub fn set_reward_pub(&mut self, i: usize, emissions: u128, topup: u64) -> Result<String, String> {
        self.set_reward(i, emissions, topup)
    }
    /// manager-level update_fees_and_rewards (what the instruction of that name does)
    pub fn update_fees_pub(&mut self, id: u32) -> Result<String, String> {
        self.update_fees(id)
    }
}

#[derive(Default)]
pub struct Plan {
    remaining_ops: u32,
    next_id: u32,
    af_decided: bool,
}

pub struct Hist {
    w: RefCell<Option<World>>,
    plan: RefCell<Plan>,
}

fn usable(r: &mut Rng, ts: u16, lo: i32, hi: i32) -> i32 {
    let t = r.range_i(lo as i64, hi as i64) as i32;
    let t = t.div_euclid(ts as i32) * ts as i32;
    t.clamp((MIN_TICK / ts as i32) * ts as i32, (MAX_TICK / ts as i32) * ts as i32)
}

impl Hist {
    fn gen_init(&self, r: &mut Rng) -> String {
        let ts = r.pick(&[1u16, 1, 2, 8, 8, 64, 64, 64, 128, 256, 32896]);
        let fee = r.pick(&[0u32, 100, 300, 3000, 3000, 10000, 60000]);
        let proto = r.pick(&[0u32, 0, 100, 300, 1300, 2500]);
        let price = match r.below(6) {
            0 => sqrt_price_from_tick_index(0),
            1 => sqrt_price_from_tick_index(r.range_i(-2000, 2000) as i32),
            2 => sqrt_price_from_tick_index(r.range_i(-2000, 2000) as i32) + r.below(1 << 40) as u128,
            3 => sqrt_price_from_tick_index(r.range_i(-400000, 400000) as i32),
            _ => r.sqrt_price(),
        };
        let near = |r: &mut Rng| -> u128 {
            match r.below(4) {
                0 => u128::MAX - r.below(1 << 50) as u128,
                1 => r.next128(),
                _ => 0,
            }
        };
        let (fa, fb) = (near(r), near(r));
        let k = r.below(4);
        let mut rg = [0u128; 3];
        for i in 0..3 {
            if (i as u64) < k {
                rg[i] = near(r) | 1;
            }
        }
        let (r0, r1, r2) = (rg[0], rg[1], rg[2]);
        format!("H init {} {} {} {} {} {} {} {} {} {} {}", ts, fee, proto, price, fa, fb, r0, r1, r2, 1000 + r.below(1000), r.below(3))
    }

    fn gen_af(&self, r: &mut Rng, w: &World) -> String {
        let wp = w.wp();
        let ts = wp.tick_spacing as u64;
        let divisors: Vec<u64> = (1..=ts.min(65535)).filter(|d| ts % d == 0).collect();
        let gs = r.pick(&divisors);
        let filter = r.pick(&[1u64, 10, 30, 60, 300]);
        let decay = filter + r.pick(&[1u64, 30, 600, 3000, 7200]);
        let reduction = r.pick(&[0u64, 1, 500, 5000, 9000, 9999]);
        let control = match r.below(6) {
            0 => 0,
            1 => 99999,
            2 => r.pick(&[1u64, 10, 100]),
            _ => r.pick(&[1000u64, 4000, 10000, 40000]),
        };
        let max_acc = match r.below(4) {
            0 => (u32::MAX as u64) / gs,
            1 => r.pick(&[0u64, 1, 9999, 10000, 10001]),
            _ => r.pick(&[50_000u64, 350_000, 1_000_000]).min((u32::MAX as u64) / gs),
        };
        let major = 1 + r.below((ts * 88).min(65535));
        let now = w.now;
        let (last_ref, last_major, vol_ref, group_ref, vol_acc) = if r.chance(1, 3) {
            (0u64, 0u64, 0u64, 0i64, 0u64)
        } else {
            // an arbitrary stored state satisfying the invariant (reference, accumulator <= max)
            let cur_group = (wp.tick_current_index as i64).div_euclid(gs as i64);
            let acc = if max_acc == 0 { 0 } else { r.below(max_acc + 1) };
            let vr = if acc == 0 { 0 } else { r.below(acc + 1) };
            // the stored reference group is always the group of a tick inside [MIN-1, MAX] (update_reference writes
            // floor(tick_current_index / group size); Lean: Path.InfoOK is preserved by every swap): outside that range
            // FeeRateManager::new calls sqrt_price_from_tick_index on an out-of-range tick and panics
            let g_lo = (-443637i64).div_euclid(gs as i64);
            let g_hi = (443636i64).div_euclid(gs as i64);
            (now.saturating_sub(r.pick(&[0u64, 1, 20, 100, 1000, 3599, 3600, 3601, 10000])), now.saturating_sub(r.pick(&[0u64, 5, 50, 500, 5000])), vr, (cur_group + r.range_i(-30, 30)).clamp(g_lo, g_hi), acc)
        };
        format!("H af {} {} {} {} {} {} {} {} {} {} {} {}", filter, decay, reduction, control, max_acc, gs, major, last_ref, last_major, vol_ref, group_ref, vol_acc)
    }

    fn gen_op(&self, r: &mut Rng, w: &World) -> String {
        let wp = w.wp();
        let ts = wp.tick_spacing;
        let cur = wp.tick_current_index;
        let ids: Vec<u32> = w.positions.keys().cloned().collect();
        let full_only = ts >= 32768;
        let choice = r.below(100);
        if ids.is_empty() || (choice < 8 && ids.len() < 8) {
            let id = self.plan.borrow().next_id;
            self.plan.borrow_mut().next_id += 1;
            let (lo, hi) = if full_only {
                ((MIN_TICK / ts as i32) * ts as i32, (MAX_TICK / ts as i32) * ts as i32)
            } else {
                let span = (ts as i32) * r.pick(&[1, 2, 5, 20, 88, 100, 200]);
                let (lo, hi);
                match r.below(8) {
                    0 => {
                        lo = (MIN_TICK / ts as i32) * ts as i32;
                        hi = (MAX_TICK / ts as i32) * ts as i32;
                    }
                    1 if !ids.is_empty() => {
                        // share a bound with / abut an existing position
                        let q = w.pos(r.pick(&ids)).unwrap();
                        if r.chance(1, 2) {
                            lo = q.tick_upper_index;
                            hi = usable(r, ts, lo + ts as i32, lo + span + ts as i32).max(lo + ts as i32);
                        } else {
                            lo = q.tick_lower_index;
                            hi = usable(r, ts, lo + ts as i32, lo + span + ts as i32).max(lo + ts as i32);
                        }
                    }
                    _ => {
                        lo = usable(r, ts, cur - span, cur + span / 2);
                        hi = usable(r, ts, lo + ts as i32, lo + 2 * span).max(lo + ts as i32);
                    }
                }
                (lo, hi.min((MAX_TICK / ts as i32) * ts as i32))
            };
            if lo >= hi {
                return format!("H clock {}", w.now + 1);
            }
            return format!("H open {} {} {}", id, lo, hi);
        }
        let id = r.pick(&ids);
        let p = w.pos(id).unwrap();
        match choice {
            28 => format!("H upd {}", id),
            29 => {
                // opening a position through the entrypoint (explicit, derived and invalid bounds)
                let ts = wp.tick_spacing;
                let cur = wp.tick_current_index;
                let span = (ts as i32) * r.pick(&[1, 2, 5, 20, 88]);
                let full = (((-443636 / ts as i32) * ts as i32) as i64, ((443636 / ts as i32) * ts as i32) as i64);
                let (lo, hi): (i64, i64) = match r.below(9) {
                    0 => (i32::MIN as i64, usable(r, ts, cur, cur + 2 * span) as i64),
                    1 => (usable(r, ts, cur - 2 * span, cur) as i64, i32::MAX as i64),
                    2 => (i32::MIN as i64, i32::MAX as i64),
                    3 => (i32::MIN as i64, usable(r, ts, cur - 2 * span, cur) as i64),
                    4 => full,
                    5 => (usable(r, ts, cur - span, cur + span) as i64 + 1, usable(r, ts, cur, cur + 2 * span) as i64),
                    6 => {
                        let x = usable(r, ts, cur - span, cur + span) as i64;
                        (x, x)
                    }
                    _ => {
                        let a = usable(r, ts, cur - span, cur + span / 2);
                        let bb = usable(r, ts, a + ts as i32, a + 2 * span).max(a + ts as i32);
                        (a as i64, bb as i64)
                    }
                };
                format!("H xopen {} {} {} {} {}", r.pick(&[1u8, 2, 3, 4]), lo, hi, b(r.chance(1, 2)), b(r.chance(1, 4)))
            }
            8..=27 => {
                let l = match r.below(6) {
                    0 => r.log_u128(40),
                    1 => r.log_u128(90),
                    2 => 1,
                    _ => r.log_u128(64),
                };
                format!("H inc {} {} {}", id, l, if r.chance(1, 2) { "a" } else { "p" })
            }
            30..=41 => {
                let l = match r.below(4) {
                    0 => p.liquidity,
                    1 => p.liquidity / 2,
                    2 => (p.liquidity).saturating_add(1),
                    _ => r.log_u128(64).min(p.liquidity.max(1)),
                };
                format!("H dec {} {} {}", id, l, if r.chance(1, 2) { "a" } else { "p" })
            }
            42..=44 => {
                // C12 / C13 / C16 / C04: the liquidity INSTRUCTION (Pinocchio-routed) through the entrypoint
                let p = w.pos(id).unwrap();
                let inc = p.liquidity == 0 || r.chance(1, 2);
                let liq = if inc {
                    match r.below(4) {
                        0 => r.liquidity(),
                        _ => r.log_u128(50).max(1),
                    }
                } else {
                    match r.below(4) {
                        0 => p.liquidity,
                        1 => (p.liquidity / 2).max(1),
                        2 => p.liquidity.saturating_add(1),
                        _ => r.log_u128(64).min(p.liquidity.max(1)).max(1),
                    }
                };
                let ver = if r.chance(1, 3) { 1 } else { 2 };
                let fee = |r: &mut Rng| -> String {
                    if r.chance(1, 2) {
                        return "65535 0 0".to_string();
                    }
                    format!("{} {} {}", r.pick(&[0u64, 1, 100, 300, 5000, 9999, 10000]), r.pick(&[0u64, 1, 5000, 1_000_000, u64::MAX]), b(r.chance(1, 2)))
                };
                let (fa, fb) = (fee(r), fee(r));
                let auth = r.pick(&[0u8, 0, 0, 0, 0, 0, 0, 1, 2, 3, 4, 5, 6]);
                format!("H xliq {} {} {} {} {} {} {} {}", ver, id, b(inc), liq, r.pick(&[0u8, 0, 1, 2]), fa, fb, auth)
            }
            45 => if r.chance(1, 4) { format!("H xsub grid 0 {} 0", id) } else { format!("H xsub {} {} {} {}", r.pick(&["swap", "swap", "swap", "liq", "liq", "dec", "dec", "liqt", "liqt", "liq1", "dec1", "repo", "repo"]), r.below(19), id, if r.chance(1, 2) { 0 } else { 1 + r.below(7) }) },
            46 | 95 | 96 => {
                // position instructions of the Anchor path through the entrypoint (read-only on the history)
                let kind = r.pick(&["upd", "cf", "cf", "close", "reset", "reset"]);
                // close / reset need an empty position to succeed: prefer one when there is one
                let empties: Vec<u32> = ids.iter().copied().filter(|i| w.pos(*i).map(|q| Position::is_position_empty(&q)).unwrap_or(false)).collect();
                // collect_fees is only interesting on a position that is OWED fees (the reset of the owed amounts, the vault
                // movement): prefer one when there is one
                let owed: Vec<u32> = ids.iter().copied().filter(|i| w.pos(*i).map(|q| q.fee_owed_a > 0 || q.fee_owed_b > 0).unwrap_or(false)).collect();
                let (id, p) = if (kind == "close" || kind == "reset") && !empties.is_empty() && r.chance(2, 3) {
                    let i = r.pick(&empties);
                    (i, w.pos(i).unwrap())
                } else if kind == "cf" && !owed.is_empty() && r.chance(3, 4) {
                    let i = r.pick(&owed);
                    (i, w.pos(i).unwrap())
                } else {
                    (id, p)
                };
                let ver = if r.chance(1, 2) { 1 } else { 2 };
                let fee = |r: &mut Rng| -> String {
                    if r.chance(1, 2) {
                        return "65535 0 0".to_string();
                    }
                    format!("{} {} {}", r.pick(&[0u64, 1, 100, 300, 5000, 9999, 10000]), r.pick(&[0u64, 1, 5000, 1_000_000, u64::MAX]), b(r.chance(1, 2)))
                };
                let (fa, fb) = (fee(r), fee(r));
                let auth = r.pick(&[0u8, 0, 0, 0, 0, 1, 2, 3, 4, 5, 6, 7]);
                let ts = wp.tick_spacing;
                let (a1, a2) = if kind == "reset" {
                    match r.below(6) {
                        0 => (p.tick_lower_index as i64, p.tick_upper_index as i64),
                        1 => (usable(r, ts, -443636, 443636) as i64 + 1, usable(r, ts, -443636, 443636) as i64),
                        2 => {
                            let x = usable(r, ts, -443636, 443636) as i64;
                            (x, x)
                        }
                        _ => {
                            let (x, y) = (usable(r, ts, -443636, 443636) as i64, usable(r, ts, -443636, 443636) as i64);
                            (x.min(y), x.max(y))
                        }
                    }
                } else {
                    (0, 0)
                };
                format!("H xpos {} {} {} {} {} {} {} {}", kind, ver, id, auth, a1, a2, fa, fb)
            }
            47 => {
                // increase_liquidity_by_token_amounts_v2: liquidity derived from token maxima inside a price window
                let fee = |r: &mut Rng| -> String {
                    if r.chance(1, 2) {
                        return "65535 0 0".to_string();
                    }
                    format!("{} {} {}", r.pick(&[0u64, 1, 100, 300, 5000, 9999, 10000]), r.pick(&[0u64, 1, 5000, 1_000_000, u64::MAX]), b(r.chance(1, 2)))
                };
                let (fa, fb) = (fee(r), fee(r));
                let amt = |r: &mut Rng| -> u64 {
                    match r.below(5) {
                        0 => 0,
                        1 => r.pick(&[1u64, 2, 1000, u64::MAX, u64::MAX / 4]),
                        _ => r.log_u128(62) as u64,
                    }
                };
                let price = { wp.sqrt_price };
                let (minp, maxp) = match r.below(6) {
                    0 => (price, price),
                    1 => (price + 1, u128::MAX),
                    2 => (0, price.saturating_sub(1)),
                    _ => (0u128, u128::MAX),
                };
                let auth = r.pick(&[0u8, 0, 0, 0, 0, 0, 0, 1, 2, 3, 4, 5, 6]);
                format!("H xliqt {} {} {} {} {} {} {} {}", id, amt(r), amt(r), minp, maxp, fa, fb, auth)
            }
            48 | 53 | 54 => {
                // reposition_liquidity_v2: withdraw all, re-range, deposit, net transfers
                let fee = |r: &mut Rng| -> String {
                    if r.chance(1, 2) {
                        return "65535 0 0".to_string();
                    }
                    format!("{} {} {}", r.pick(&[0u64, 1, 100, 300, 5000, 9999, 10000]), r.pick(&[0u64, 1, 5000, 1_000_000, u64::MAX]), b(r.chance(1, 2)))
                };
                let (fa, fb) = (fee(r), fee(r));
                let ts = wp.tick_spacing;
                let cur = wp.tick_current_index;
                let span = (ts as i32) * r.pick(&[1, 2, 5, 20, 88, 200]);
                let (nlo, nhi): (i64, i64) = if ts >= 32768 {
                    if r.chance(1, 4) { (p.tick_lower_index as i64, p.tick_upper_index as i64) } else { (((-443636 / ts as i32) * ts as i32) as i64, ((443636 / ts as i32) * ts as i32) as i64 - if r.chance(1, 5) { ts as i64 } else { 0 }) }
                } else {
                    match r.below(8) {
                        0 => (p.tick_lower_index as i64, p.tick_upper_index as i64),
                        1 => (usable(r, ts, cur - span, cur + span) as i64 + 1, usable(r, ts, cur, cur + 2 * span) as i64),
                        2 => {
                            let x = usable(r, ts, cur - span, cur + span) as i64;
                            (x, x)
                        }
                        3 => (p.tick_lower_index as i64, usable(r, ts, p.tick_lower_index + ts as i32, p.tick_lower_index + 2 * span).max(p.tick_lower_index + ts as i32) as i64),
                        _ => {
                            let lo = usable(r, ts, cur - span, cur + span / 2);
                            let hi = usable(r, ts, lo + ts as i32, lo + 2 * span).max(lo + ts as i32);
                            (lo as i64, hi as i64)
                        }
                    }
                };
                let new_liq: u128 = match r.below(6) {
                    0 => 0,
                    1 => p.liquidity.max(1),
                    2 => (p.liquidity / 2).max(1),
                    3 => p.liquidity.saturating_mul(2).max(1),
                    _ => r.log_u128(70).max(1),
                };
                let auth = r.pick(&[0u8, 0, 0, 0, 0, 0, 0, 1, 2, 3, 4, 5, 6]);
                format!("H xrepo {} {} {} {} {} {} {} {}", id, nlo, nhi, new_liq, r.pick(&[0u8, 0, 1, 2, 3, 4, 5]), fa, fb, auth)
            }
            49 | 97 | 98 if choice != 49 || r.chance(1, 2) => {
                // reward / protocol-fee instructions through the entrypoint
                let fee = |r: &mut Rng| -> String {
                    if r.chance(1, 2) {
                        return "65535 0 0".to_string();
                    }
                    format!("{} {} {}", r.pick(&[0u64, 1, 100, 300, 5000, 9999, 10000]), r.pick(&[0u64, 1, 5000, 1_000_000, u64::MAX]), b(r.chance(1, 2)))
                };
                let (fa, fb) = (fee(r), fee(r));
                let inits: Vec<usize> = (0..3).filter(|i| wp.reward_infos[*i].initialized()).collect();
                let kind = if inits.is_empty() { "cproto" } else { r.pick(&["emis", "crew", "crew", "cproto"]) };
                let idx = if inits.is_empty() { 0 } else { r.pick(&inits) };
                let value: u128 = if kind == "emis" {
                    match r.below(5) {
                        0 => 0,
                        1 => r.log_u128(100),
                        2 => (w.reward_vaults[idx].min(u64::MAX as u128 / 4) << 64) / 86400,
                        3 => ((w.reward_vaults[idx].min(u64::MAX as u128 / 4) << 64) / 86400).saturating_add(r.pick(&[1u128, 1 << 48, 1 << 64])),
                        _ => r.log_u128(80),
                    }
                } else {
                    0
                };
                let auth = if kind == "crew" && r.chance(1, 8) { 5 } else { r.pick(&[0u8, 0, 0, 0, 0, 1, 2, 3, 4]) };
                // collect_reward: prefer a position that is owed some of this reward
                let rowed: Vec<u32> = ids.iter().copied().filter(|i| w.pos(*i).map(|q| q.reward_infos[idx].amount_owed > 0).unwrap_or(false)).collect();
                let id = if kind == "crew" && !rowed.is_empty() && r.chance(3, 4) { r.pick(&rowed) } else { id };
                format!("H xrew {} {} {} {} {} {} {} {}", kind, if r.chance(1, 2) { 1 } else { 2 }, idx, id, auth, value, fa, fb)
            }
            49 if r.chance(1, 4) => format!("H xclose22 {} {}", id, r.pick(&[0u8, 0, 0, 0, 1, 2])),
            49 | 93 | 94 => {
                // locking and what a locked position may still do
                let follow = r.pick(&["none", "dec", "close", "reset", "repo", "inc", "cf", "xfer", "lock2", "xferm", "xfers", "xferl"]);
                let withliq: Vec<u32> = ids.iter().copied().filter(|i| w.pos(*i).map(|q| q.liquidity > 0).unwrap_or(false)).collect();
                let id = if !withliq.is_empty() && r.chance(4, 5) { r.pick(&withliq) } else { id };
                format!("H xlock {} {} {}", id, r.pick(&[0u8, 0, 0, 0, 0, 0, 0, 1, 2, 3, 4, 5, 6]), follow)
            }
            50..=52 => format!("H cfees {}", id),
            55..=57 => "H cproto".to_string(),
            58..=59 if wp.liquidity > 0 && (w.snap.is_none() || r.chance(1, 4)) => "H snap".to_string(),
            58..=63 => format!("H clock {}", w.now + r.pick(&[0u64, 1, 10, 100, 3600, 86400])),
            64..=67 => {
                let i = r.below(3);
                let e = match r.below(3) {
                    0 => 0,
                    1 => r.log_u128(80),
                    _ => (r.below(1000) as u128) << 64,
                };
                format!("H reward {} {} {}", i, e, r.pick(&[0u64, 1_000_000, u32::MAX as u64, 1 << 50]))
            }
            68..=70 => format!("H crew {} {}", id, r.below(3)),
            _ => {
                // swap
                let dir = r.chance(1, 2);
                let ein = r.chance(2, 3);
                let shifted = !dir;
                let tia = 88 * ts as i32;
                let base = if shifted { cur + ts as i32 } else { cur };
                let s0 = base.div_euclid(tia) * tia;
                let mut starts = vec![];
                for k in 0..3 {
                    let s = if dir { s0 - k * tia } else { s0 + k * tia };
                    let min_start = MIN_TICK.div_euclid(tia) * tia;
                    if s < min_start || s > MAX_TICK {
                        break;
                    }
                    starts.push(s);
                }
                if r.chance(1, 12) && starts.len() > 1 {
                    starts.truncate(1 + r.below(2) as usize);
                }
                let limit = match r.below(5) {
                    0 | 1 => 0u128,
                    2 => {
                        let d = r.range_i(1, 300) as i32 * ts as i32;
                        sqrt_price_from_tick_index((if dir { cur - d } else { cur + d }).clamp(MIN_TICK, MAX_TICK))
                    }
                    3 => {
                        // exactly on an initialized tick if any
                        let ticks = w.all_ticks();
                        let c: Vec<i32> = ticks.iter().map(|x| x.0).filter(|t| if dir { *t <= cur } else { *t > cur }).collect();
                        if c.is_empty() {
                            0
                        } else {
                            sqrt_price_from_tick_index(r.pick(&c))
                        }
                    }
                    _ => r.sqrt_price(),
                };
                let amt = match r.below(6) {
                    0 => 1 + r.below(3),
                    1 => r.u64_amount(),
                    _ => {
                        // scale to the pool: roughly what moves the price some ticks
                        let l = wp.liquidity.max(1);
                        let d = r.range_i(1, 400) as i32;
                        let p1 = sqrt_price_from_tick_index((if dir { cur - d } else { cur + 1 + d }).clamp(MIN_TICK, MAX_TICK));
                        let need = if dir == ein { try_get_amount_delta_a(wp.sqrt_price, p1, l, true) } else { try_get_amount_delta_b(wp.sqrt_price, p1, l, true) };
                        match need {
                            Ok(AmountDeltaU64::Valid(v)) if v > 0 => v,
                            _ => r.u64_amount(),
                        }
                    }
                };
                if w.snap.is_some() && r.chance(1, 6) {
                    // C17: the two-hop INSTRUCTION between the current state and the saved one
                    let ver = if r.chance(1, 3) { 1 } else { 2 };
                    let sw = r.chance(1, 2);
                    let (d1, d2) = (r.chance(1, 2), r.chance(1, 2));
                    let snapw = w.snap.as_ref().unwrap();
                    let (p1, p2) = if sw { (snapw.wp(), w.wp()) } else { (w.wp(), snapw.wp()) };
                    let lim_for = |r: &mut Rng, wp: &Whirlpool, d: bool| -> u128 {
                        if r.chance(2, 3) {
                            return 0;
                        }
                        let dt = r.range_i(1, 200) as i32 * wp.tick_spacing as i32;
                        sqrt_price_from_tick_index((if d { wp.tick_current_index - dt } else { wp.tick_current_index + dt }).clamp(MIN_TICK, MAX_TICK))
                    };
                    let (l1, l2) = (lim_for(r, &p1, d1), lim_for(r, &p2, d2));
                    let fee = |r: &mut Rng| -> String {
                        if r.chance(1, 2) {
                            return "65535 0 0".to_string();
                        }
                        format!("{} {} {}", r.pick(&[0u64, 1, 100, 300, 5000, 10000]), r.pick(&[0u64, 5000, 1_000_000, u64::MAX]), b(r.chance(1, 2)))
                    };
                    let (fi, fo) = (fee(r), fee(r));
                    return format!("H xhop {} {} {} {} {} {} {} {} {} {} {} {}", ver, amt, r.pick(&[0u8, 0, 1, 2]), b(ein), b(d1), b(d2), l1, l2, b(sw), fi, fo, r.pick(&[0u8, 0, 0, 0, 0, 0, 0, 1, 2, 3, 4, 5]));
                }
                if r.chance(1, 5) {
                    // C16 / C03 / C06: the swap INSTRUCTION (real handler through the entrypoint, real token programs)
                    let ver = if r.chance(1, 4) { 1 } else { 2 };
                    let fee = |r: &mut Rng| -> String {
                        if r.chance(1, 3) {
                            return "65535 0 0".to_string();
                        }
                        let bps = match r.below(4) {
                            0 => r.pick(&[0u64, 1, 10000, 9999]),
                            1 => r.pick(&[50u64, 100, 300, 999, 5000]),
                            _ => r.below(10001),
                        };
                        let max = match r.below(4) {
                            0 => r.pick(&[0u64, 1, u64::MAX, u64::MAX / 2]),
                            1 => r.pick(&[5000u64, 1_000_000, 1_000_000_000]),
                            _ => r.u64_amount(),
                        };
                        format!("{} {} {}", bps, max, b(r.chance(1, 2)))
                    };
                    let (fa, fb) = (fee(r), fee(r));
                    let thr_mode = r.pick(&[0u8, 0, 1, 1, 2]);
                    return format!("H xswap {} {} {} {} {} {} {} {} {} {}", ver, amt, thr_mode, limit, b(ein), b(dir), fa, fb, b(r.chance(1, 10)), r.pick(&[0u8, 0, 1, 2]));
                }
                if r.chance(1, 2) {
                    // C10: the same swap through the account-packaging layer, with a random packaging
                    let step = if dir { -tia } else { tia };
                    let mut entries: Vec<(i32, char)> = vec![];
                    let s0b = if dir { cur.div_euclid(tia) * tia } else if cur + ts as i32 >= cur.div_euclid(tia) * tia + tia { cur.div_euclid(tia) * tia + tia } else { cur.div_euclid(tia) * tia };
                    for k in 0..3 {
                        let st = s0b + k * step;
                        let kind = if w.array_is_empty(st) && r.chance(1, 2) {
                            'u'
                        } else if r.chance(1, 4) {
                            'c'
                        } else {
                            's'
                        };
                        entries.push((st, kind));
                    }
                    if r.chance(1, 15) {
                        let k = r.below(entries.len() as u64) as usize;
                        entries.remove(k); // a required array is missing
                    }
                    if r.chance(1, 4) {
                        let k = r.below(entries.len() as u64) as usize;
                        let e = entries[k];
                        entries.push(e); // the same account twice
                    }
                    if r.chance(1, 3) {
                        // extra arrays further along / behind
                        for k in [3, 4, -1] {
                            if r.chance(1, 2) {
                                let st = s0b + k * step;
                                entries.push((st, if w.array_is_empty(st) { 'u' } else { 's' }));
                            }
                        }
                    }
                    if r.chance(1, 10) {
                        entries.push((0, 'o'));
                    }
                    if r.chance(1, 40) {
                        entries.push((s0b + 5 * step, 'x'));
                    }
                    // any order
                    for i in (1..entries.len()).rev() {
                        let j = r.below(i as u64 + 1) as usize;
                        entries.swap(i, j);
                    }
                    let mut s = format!("H pswap {} {} {} {} {}", amt, limit, b(ein), b(dir), entries.len());
                    for (st, k) in entries {
                        s += &format!(" {}:{}", st, k);
                    }
                    return s;
                }
                // C20: the same swap as a QUOTE of the SDK on the current state (read-only; the Lean side answers with its
                // model of the SDK's compute_swap)
                let op = if r.chance(1, 3) { "sdkq" } else { "swap" };
                let mut s = format!("H {} {} {} {} {} {}", op, amt, limit, b(ein), b(dir), starts.len());
                for x in starts {
                    s += &format!(" {}", x);
                }
                s
            }
        }
    }
}

impl Family for Hist {
    fn name(&self) -> &'static str {
        "hist"
    }
    fn gen(&self, r: &mut Rng, _idx: u64) -> String {
        let need_init = self.w.borrow().is_none() || self.plan.borrow().remaining_ops == 0;
        if need_init {
            let mut p = self.plan.borrow_mut();
            p.remaining_ops = 40 + r.below(60) as u32;
            p.next_id = 0;
            p.af_decided = false;
            drop(p);
            return self.gen_init(r);
        }
        self.plan.borrow_mut().remaining_ops -= 1;
        let wb = self.w.borrow();
        let w = wb.as_ref().unwrap();
        if w.positions.is_empty() && w.af.is_none() && self.plan.borrow().next_id == 0 && !self.plan.borrow().af_decided {
            self.plan.borrow_mut().af_decided = true;
            if r.chance(1, 2) {
                return self.gen_af(r, w);
            }
        }
        self.gen_op(r, w)
    }
    fn run(&self, line: &str, ctx: &mut Ctx) -> String {
        let t = toks(line);
        if t.len() < 2 || t[0] != "H" {
            return "bad-op".into();
        }
        if t[1] == "init" {
            let w = World::init(&t);
            let d = w.digest();
            *self.w.borrow_mut() = Some(w);
            ctx.tag("init");
            return format!("ok | {}", d);
        }
        let mut wb = self.w.borrow_mut();
        let w = match wb.as_mut() {
            Some(w) => w,
            None => return "bad-op".into(),
        };
        if t[1] == "snap" {
            let c = crate::hist_oracle::clone_world(w);
            w.snap = Some(Box::new(c));
            ctx.tag("snap");
            return "ok | ".to_string() + &w.digest();
        }
        if t[1] == "xsub" {
            let o = std::panic::catch_unwind(std::panic::AssertUnwindSafe(|| w.x_sub(&t)));
            return match o {
                Ok(o) => {
                    for v in o.viols {
                        ctx.viol(v);
                    }
                    for tg in o.tags {
                        ctx.tag(tg);
                    }
                    ctx.tag("xsub");
                    // skipped experiments (control fails / no look-alike exists) are counted in the tags
                    (if o.line == "ACCEPTED" { "ACCEPTED" } else { "rejected" }).to_string() + " | " + &w.digest()
                }
                Err(_) => "err HarnessPanic | ".to_string() + &w.digest(),
            };
        }
        if t[1] == "xopen" {
            let o = std::panic::catch_unwind(std::panic::AssertUnwindSafe(|| w.x_open(&t)));
            return match o {
                Ok(o) => {
                    for v in o.viols {
                        ctx.viol(v);
                    }
                    for tg in o.tags {
                        ctx.tag(tg);
                    }
                    ctx.tag("xopen");
                    o.line + " | " + &w.digest()
                }
                Err(_) => "err HarnessPanic | ".to_string() + &w.digest(),
            };
        }
        if t[1] == "sdkq" {
            let n: usize = t[6].parse().unwrap();
            let starts: Vec<i32> = (0..n).map(|k| t[7 + k].parse().unwrap()).collect();
            let q = w.sdk_swap(p64(t[2]), p128(t[3]), pb(t[4]), pb(t[5]), &starts);
            ctx.tag("sdkq");
            let line = match q {
                Ok((a, bb, fee)) => {
                    ctx.tag("sdkq_ok");
                    if w.af.is_some() {
                        ctx.tag("sdkq_ok_adaptive");
                    }
                    format!("ok {} {} {}", a, bb, fee)
                }
                Err(e) if e == "Panic" => "err Panic".to_string(),
                Err(_) => {
                    ctx.tag("sdkq_err");
                    "err sdk".to_string()
                }
            };
            return line + " | " + &w.digest();
        }
        if t[1] == "xclose22" {
            let o = std::panic::catch_unwind(std::panic::AssertUnwindSafe(|| w.x_close22(&t)));
            return match o {
                Ok(o) => {
                    for v in o.viols {
                        ctx.viol(v);
                    }
                    for tg in o.tags {
                        ctx.tag(tg);
                    }
                    ctx.tag("xclose22");
                    o.line + " | " + &w.digest()
                }
                Err(_) => "err HarnessPanic | ".to_string() + &w.digest(),
            };
        }
        if t[1] == "xlock" {
            let o = std::panic::catch_unwind(std::panic::AssertUnwindSafe(|| w.x_lock(&t)));
            return match o {
                Ok(o) => {
                    for v in o.viols {
                        ctx.viol(v);
                    }
                    for tg in o.tags {
                        ctx.tag(tg);
                    }
                    ctx.tag("xlock");
                    o.line + " | " + &w.digest()
                }
                Err(_) => "err HarnessPanic | ".to_string() + &w.digest(),
            };
        }
        if t[1] == "xrew" {
            let o = std::panic::catch_unwind(std::panic::AssertUnwindSafe(|| w.x_rew(&t)));
            return match o {
                Ok(o) => {
                    for v in o.viols {
                        ctx.viol(v);
                    }
                    for tg in o.tags {
                        ctx.tag(tg);
                    }
                    ctx.tag("xrew");
                    o.line + " | " + &w.digest()
                }
                Err(_) => "err HarnessPanic | ".to_string() + &w.digest(),
            };
        }
        if t[1] == "xrepo" {
            let o = std::panic::catch_unwind(std::panic::AssertUnwindSafe(|| w.x_repo(&t)));
            return match o {
                Ok(o) => {
                    for v in o.viols {
                        ctx.viol(v);
                    }
                    for tg in o.tags {
                        ctx.tag(tg);
                    }
                    ctx.tag("xrepo");
                    o.line + " | " + &w.digest()
                }
                Err(_) => "err HarnessPanic | ".to_string() + &w.digest(),
            };
        }
        if t[1] == "xliqt" {
            let o = std::panic::catch_unwind(std::panic::AssertUnwindSafe(|| w.x_liqt(&t)));
            return match o {
                Ok(o) => {
                    for v in o.viols {
                        ctx.viol(v);
                    }
                    for tg in o.tags {
                        ctx.tag(tg);
                    }
                    ctx.tag("xliqt");
                    o.line + " | " + &w.digest()
                }
                Err(_) => "err HarnessPanic | ".to_string() + &w.digest(),
            };
        }
        if t[1] == "xliq" {
            let o = std::panic::catch_unwind(std::panic::AssertUnwindSafe(|| w.x_liq(&t)));
            return match o {
                Ok(o) => {
                    for v in o.viols {
                        ctx.viol(v);
                    }
                    for tg in o.tags {
                        ctx.tag(tg);
                    }
                    ctx.tag("xliq");
                    o.line + " | " + &w.digest()
                }
                Err(_) => "err HarnessPanic | ".to_string() + &w.digest(),
            };
        }
        if t[1] == "xhop" {
            let o = std::panic::catch_unwind(std::panic::AssertUnwindSafe(|| w.x_hop(&t)));
            return match o {
                Ok(o) => {
                    for v in o.viols {
                        ctx.viol(v);
                    }
                    for tg in o.tags {
                        ctx.tag(tg);
                    }
                    ctx.tag("xhop");
                    o.line + " | " + &w.digest()
                }
                Err(_) => "err HarnessPanic | ".to_string() + &w.digest(),
            };
        }
        if t[1] == "xpos" {
            let o = std::panic::catch_unwind(std::panic::AssertUnwindSafe(|| w.x_pos(&t)));
            return match o {
                Ok(o) => {
                    for v in o.viols {
                        ctx.viol(v);
                    }
                    for tg in o.tags {
                        ctx.tag(tg);
                    }
                    ctx.tag("xpos");
                    o.line + " | " + &w.digest()
                }
                Err(_) => "err HarnessPanic | ".to_string() + &w.digest(),
            };
        }
        if t[1] == "xswap" {
            // instruction-level swap on a copy of the state (does not change the history)
            let o = std::panic::catch_unwind(std::panic::AssertUnwindSafe(|| w.x_swap(&t)));
            return match o {
                Ok(o) => {
                    for v in o.viols {
                        ctx.viol(v);
                    }
                    for tg in o.tags {
                        ctx.tag(tg);
                    }
                    ctx.tag("xswap");
                    o.line + " | " + &w.digest()
                }
                Err(_) => "err HarnessPanic | ".to_string() + &w.digest(),
            };
        }
        let pre = crate::hist_oracle::snapshot(w);
        // C10: the canonical packaging of the same swap on a copy of the world
        let canonical: Option<(World, Result<String, String>)> = if t[1] == "pswap" {
            let n: usize = t[6].parse().unwrap();
            let entries: Vec<(i32, char)> = (0..n)
                .map(|k| {
                    let (a, bb) = t[7 + k].split_once(':').unwrap();
                    (a.parse().unwrap(), bb.chars().next().unwrap())
                })
                .collect();
            if entries.iter().any(|e| e.1 == 'x') {
                None
            } else {
                let wp0 = w.wp();
                let (cur, tsi) = (wp0.tick_current_index, wp0.tick_spacing as i32);
                let tia = 88 * tsi;
                let dir = pb(t[5]);
                let base = cur.div_euclid(tia) * tia;
                let first = if dir || cur + tsi < base + tia { base } else { base + tia };
                let canon: Vec<(i32, char)> = (0..3)
                    .map(|k| first + if dir { -k * tia } else { k * tia })
                    .filter(|s| Tick::check_is_valid_start_tick(*s, wp0.tick_spacing))
                    .take_while(|s| entries.iter().any(|e| e.0 == *s && e.1 != 'o'))
                    .map(|s| (s, 's'))
                    .collect();
                let mut c = crate::hist_oracle::clone_world(w);
                let r = std::panic::catch_unwind(std::panic::AssertUnwindSafe(|| c.do_pswap(p64(t[2]), p128(t[3]), pb(t[4]), dir, &canon).map(|x| x.0))).unwrap_or_else(|_| Err("Panic".to_string()));
                Some((c, r))
            }
        } else {
            None
        };
        // C20: the SDK's computation for the same swap on the same (pre-swap) state
        let sdk_quote: Option<Result<(u64, u64, u64), String>> = match t[1] {
            "swap" => {
                let n: usize = t[6].parse().unwrap();
                let starts: Vec<i32> = (0..n).map(|k| t[7 + k].parse().unwrap()).collect();
                Some(w.sdk_swap(p64(t[2]), p128(t[3]), pb(t[4]), pb(t[5]), &starts))
            }
            _ => None,
        };
        // C14: a pool whose control factor is zero charges exactly like a static-fee pool
        let static_twin: Option<(World, Result<String, String>)> = match (&w.af, t[1]) {
            (Some(i), "swap") | (Some(i), "pswap") if i.constants.adaptive_fee_control_factor == 0 => {
                let mut c = crate::hist_oracle::clone_world(w);
                c.af = None;
                let r = std::panic::catch_unwind(std::panic::AssertUnwindSafe(|| {
                    if t[1] == "swap" {
                        let n: usize = t[6].parse().unwrap();
                        let starts: Vec<i32> = (0..n).map(|k| t[7 + k].parse().unwrap()).collect();
                        c.do_swap(p64(t[2]), p128(t[3]), pb(t[4]), pb(t[5]), &starts).map(|x| x.0)
                    } else {
                        let n: usize = t[6].parse().unwrap();
                        let entries: Vec<(i32, char)> = (0..n)
                            .map(|k| {
                                let (a, bb) = t[7 + k].split_once(':').unwrap();
                                (a.parse().unwrap(), bb.chars().next().unwrap())
                            })
                            .collect();
                        c.do_pswap(p64(t[2]), p128(t[3]), pb(t[4]), pb(t[5]), &entries).map(|x| x.0)
                    }
                }))
                .unwrap_or_else(|_| Err("Panic".to_string()));
                Some((c, r))
            }
            _ => None,
        };
        let res: Result<String, String> = std::panic::catch_unwind(std::panic::AssertUnwindSafe(|| match t[1] {
            "open" => {
                let id: u32 = t[2].parse().unwrap();
                let (lo, hi): (i32, i32) = (t[3].parse().unwrap(), t[4].parse().unwrap());
                let ts = w.wp().tick_spacing;
                // validate_tick_range_for_whirlpool semantics (checked separately in family `range`)
                if !(Tick::check_is_usable_tick(lo, ts) && Tick::check_is_usable_tick(hi, ts) && lo < hi) {
                    return Err("InvalidTickIndex".to_string());
                }
                if ts >= FULL_RANGE_ONLY_TICK_SPACING_THRESHOLD {
                    let (a, bb) = Tick::full_range_indexes(ts);
                    if lo != a || hi != bb {
                        return Err("FullRangeOnlyPool".to_string());
                    }
                }
                if w.positions.contains_key(&id) {
                    return Err("PositionExists".to_string());
                }
                let p = Position { tick_lower_index: lo, tick_upper_index: hi, whirlpool: w.key, ..Default::default() };
                let mut d = vec![];
                p.try_serialize(&mut d).unwrap();
                w.positions.insert(id, d);
                Ok(String::new())
            }
            "inc" => w.modify(t[2].parse().unwrap(), p128(t[3]), true, t[4] == "p"),
            "dec" => w.modify(t[2].parse().unwrap(), p128(t[3]), false, t[4] == "p"),
            "upd" => w.update_fees(t[2].parse().unwrap()),
            "cfees" => w.collect_fees(t[2].parse().unwrap()),
            "cproto" => w.collect_protocol(),
            "clock" => {
                w.now = p64(t[2]);
                Ok(String::new())
            }
            "swap" => {
                let n: usize = t[6].parse().unwrap();
                let starts: Vec<i32> = (0..n).map(|k| t[7 + k].parse().unwrap()).collect();
                w.do_swap(p64(t[2]), p128(t[3]), pb(t[4]), pb(t[5]), &starts).map(|x| x.0)
            }
            "af" => {
                // H af filter decay reduction control maxVolAcc groupSize majorThreshold lastRef lastMajor volRef groupRef volAcc
                let c = AdaptiveFeeConstants {
                    filter_period: t[2].parse().unwrap(),
                    decay_period: t[3].parse().unwrap(),
                    reduction_factor: t[4].parse().unwrap(),
                    adaptive_fee_control_factor: t[5].parse().unwrap(),
                    max_volatility_accumulator: t[6].parse().unwrap(),
                    tick_group_size: t[7].parse().unwrap(),
                    major_swap_threshold_ticks: t[8].parse().unwrap(),
                    ..Default::default()
                };
                let ts = w.wp().tick_spacing;
                if !AdaptiveFeeConstants::validate_constants(ts, c.filter_period, c.decay_period, c.reduction_factor, c.adaptive_fee_control_factor, c.max_volatility_accumulator, c.tick_group_size, c.major_swap_threshold_ticks) {
                    return Err("InvalidAdaptiveFeeConstants".to_string());
                }
                let v = AdaptiveFeeVariables {
                    last_reference_update_timestamp: p64(t[9]),
                    last_major_swap_timestamp: p64(t[10]),
                    volatility_reference: t[11].parse().unwrap(),
                    tick_group_index_reference: t[12].parse().unwrap(),
                    volatility_accumulator: t[13].parse().unwrap(),
                    ..Default::default()
                };
                w.af = Some(AdaptiveFeeInfo { constants: c, variables: v });
                Ok(String::new())
            }
            "pswap" => {
                let n: usize = t[6].parse().unwrap();
                let entries: Vec<(i32, char)> = (0..n)
                    .map(|k| {
                        let (a, bb) = t[7 + k].split_once(':').unwrap();
                        (a.parse().unwrap(), bb.chars().next().unwrap())
                    })
                    .collect();
                w.do_pswap(p64(t[2]), p128(t[3]), pb(t[4]), pb(t[5]), &entries).map(|x| x.0)
            }
            "reward" => w.set_reward(t[2].parse().unwrap(), p128(t[3]), p64(t[4])),
            "crew" => w.collect_reward(t[2].parse().unwrap(), t[3].parse().unwrap()),
            _ => Err("bad-op".to_string()),
        }))
        .unwrap_or_else(|_| Err("Panic".to_string()));
        let tag = format!("{}_{}", t[1], if res.is_ok() { "ok" } else { "err" });
        ctx.tag(&tag);
        if let Err(e) = &res {
            ctx.tag(&format!("err_{}", e));
        } else {
            ctx.nontrivial(&format!("{}{}", line, w.now));
        }
        if let Some((c, r)) = canonical {
            if r != res || c.digest() != w.digest() {
                ctx.viol(format!(
                    "C10 packaging: the swap with the supplied accounts gives {:?}, the same swap with the required arrays supplied once, in order, as stored gives {:?}{}",
                    res,
                    r,
                    if c.digest() != w.digest() { " and a different pool / tick state" } else { "" }
                ));
            }
            ctx.tag("c10_packaging_compared");
        }
        if let Some(q) = sdk_quote {
            match (&res, &q) {
                (Ok(_), Ok((a, bb, fee))) => {
                    let (pa, pb_, lp, pf) = w.last_swap_report;
                    if (*a, *bb) != (pa, pb_) || *fee as u128 != lp as u128 + pf as u128 {
                        ctx.viol(format!("C20 swap: the program executes (A {}, B {}, total fee {}) but the SDK computes (A {}, B {}, fee {}) on the same state", pa, pb_, lp as u128 + pf as u128, a, bb, fee));
                    }
                    ctx.tag("c20_swap_compared");
                }
                (Ok(_), Err(e)) => ctx.viol(format!("C20 swap: the program succeeds but the SDK fails ({})", e)),
                (Err(pe), Ok(_)) => {
                    // allowed only for a partial exact-out fill or running off the supplied arrays
                    // (InsufficientFunds / NoArrays are the harness's own vault bookkeeping)
                    let allowed = ["PartialFillError", "TickArraySequenceInvalidIndex", "InvalidTickArraySequence", "TickArrayIndexOutofBounds", "InsufficientFunds", "NoArrays"];
                    if !allowed.contains(&pe.as_str()) {
                        ctx.viol(format!("C20 swap: the program refuses the swap ({}) but the SDK produces {:?}", pe, q));
                    }
                    ctx.tag("c20_swap_program_err_sdk_ok");
                }
                (Err(_), Err(_)) => ctx.tag("c20_swap_both_err"),
            }
        }
        if let Some((c, r)) = static_twin {
            let strip = |d: String| d.rsplit_once(" | A").map(|x| x.0.to_string()).unwrap_or(d);
            // a failing timestamp check of the adaptive-fee variables has no static counterpart
            if res.as_ref().err().map(|e| e.as_str()) != Some("InvalidTimestamp") && (r != res || strip(c.digest()) != strip(w.digest())) {
                ctx.viol(format!("C14 control factor 0: the adaptive-fee pool gives {:?}, the same pool as a static-fee pool gives {:?}", res, r));
            }
            ctx.tag("c14_zero_control_compared");
        }
        crate::hist_oracle::after_op(w, &t, &res, &pre, ctx);
        match res {
            Ok(s) => format!("ok {}| {}", if s.is_empty() { String::new() } else { format!("{} ", s) }, w.digest()),
            Err(e) => format!("err {} | {}", e, w.digest()),
        }
    }
}
