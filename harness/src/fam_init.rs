//! C19 (+ C15) at instruction level: initialize_pool_v2 through the REAL entrypoint.
//!
//!   xinit <ts> <tierTs> <price> <order> <fee> <proto> <progA> <nativeA> <freezeA> <tlvA> <badgeA> <progB> <nativeB> <freezeB> <tlvB> <badgeB>
//!
//! order: 0 = mint keys in canonical order, 1 = swapped, 2 = the same mint twice (slot B then repeats slot A).
//! Each mint slot: SPL Token or Token-2022 (prog), the Token-2022 native mint or not, optional freeze authority,
//! a WELL-FORMED set of Token-2022 extensions built with the real crate (tlv = the bytes after the account-type
//! byte, hex), and what sits in the token-badge slot: 0 nothing · 1 the badge of (config, mint) · 2 the badge of
//! ANOTHER config passed instead (not at the badge address) · 3 program-owned data at the address recording
//! another config · 4 the right content under a foreign owner · 5 the badge with the
//! require-non-transferable-position attribute.
//! The whirlpool PDA is created by Anchor's `init`, the vaults by the system program and the real token
//! programs (Token-2022: GetAccountDataSize, InitializeImmutableOwner, InitializeAccount3).
//! Model: mint admission table (`isSupportedTokenMint`, proved `admit_sound`) + `initializePoolChecks`.
//! Oracle (C19): a pool that gets created has canonical mint order, in-bound price, the fee tier's spacing and
//! an in-bound fee / protocol fee rate, and both mints are admissible by the published table.
use crate::fam_math::{b, p128, pb, toks};
use crate::fixture::k;
use crate::rng::*;
use crate::svm::{Bank, Meta};
use crate::{Ctx, Family};
use ::whirlpool::state::*;
use anchor_lang::prelude::Pubkey;
use anchor_lang::{AccountDeserialize, AccountSerialize, InstructionData, ToAccountMetas};
use anchor_spl::token_2022::spl_token_2022;
use solana_program::program_option::COption;
use solana_program::program_pack::Pack;

pub fn register(v: &mut Vec<Box<dyn Family>>) {
    v.push(Box::new(XInit));
}

fn hex(b: &[u8]) -> String {
    if b.is_empty() {
        "-".into()
    } else {
        b.iter().map(|x| format!("{:02x}", x)).collect()
    }
}
fn unhex(s: &str) -> Vec<u8> {
    if s == "-" {
        return vec![];
    }
    (0..s.len() / 2).map(|i| u8::from_str_radix(&s[2 * i..2 * i + 2], 16).unwrap()).collect()
}

/// extension sets by number (Token-2022 `ExtensionType`); built into valid TLV data by the real crate
const EXT_SETS: &[&[u16]] = &[
    &[],
    &[1],         // TransferFeeConfig
    &[10],        // InterestBearingConfig
    &[18],        // MetadataPointer
    &[1, 18],     //
    &[3],         // MintCloseAuthority            (badge)
    &[12],        // PermanentDelegate             (badge)
    &[14],        // TransferHook                  (badge)
    &[6],         // DefaultAccountState           (badge / state rules)
    &[9],         // NonTransferable               (never)
    &[20],        // GroupPointer                  (not on the list)
    &[1, 12],     //
    &[3, 10, 18], //
];

fn build_tlv(set: &[u16], frozen_default: bool) -> Vec<u8> {
    use spl_token_2022::extension::{BaseStateWithExtensionsMut, ExtensionType, StateWithExtensionsMut};
    if set.is_empty() {
        return vec![];
    }
    let types: Vec<ExtensionType> = set.iter().map(|n| ExtensionType::try_from(*n).unwrap()).collect();
    let len = ExtensionType::try_calculate_account_len::<spl_token_2022::state::Mint>(&types).unwrap();
    let mut buf = vec![0u8; len];
    {
        let mut st = StateWithExtensionsMut::<spl_token_2022::state::Mint>::unpack_uninitialized(&mut buf).unwrap();
        for n in set {
            match *n {
                1 => {
                    st.init_extension::<spl_token_2022::extension::transfer_fee::TransferFeeConfig>(true).unwrap();
                }
                3 => {
                    st.init_extension::<spl_token_2022::extension::mint_close_authority::MintCloseAuthority>(true).unwrap();
                }
                6 => {
                    let e = st.init_extension::<spl_token_2022::extension::default_account_state::DefaultAccountState>(true).unwrap();
                    e.state = if frozen_default { 2 } else { 1 };
                }
                9 => {
                    st.init_extension::<spl_token_2022::extension::non_transferable::NonTransferable>(true).unwrap();
                }
                10 => {
                    st.init_extension::<spl_token_2022::extension::interest_bearing_mint::InterestBearingConfig>(true).unwrap();
                }
                12 => {
                    st.init_extension::<spl_token_2022::extension::permanent_delegate::PermanentDelegate>(true).unwrap();
                }
                14 => {
                    st.init_extension::<spl_token_2022::extension::transfer_hook::TransferHook>(true).unwrap();
                }
                18 => {
                    st.init_extension::<spl_token_2022::extension::metadata_pointer::MetadataPointer>(true).unwrap();
                }
                20 => {
                    st.init_extension::<spl_token_2022::extension::group_pointer::GroupPointer>(true).unwrap();
                }
                _ => {}
            }
        }
    }
    buf[166..].to_vec()
}

fn mint_account(prog22: bool, freeze: bool, tlv: &[u8]) -> Vec<u8> {
    let base = spl_token_2022::state::Mint {
        mint_authority: COption::Some(k(0xD9, 1)),
        supply: 1_000_000,
        decimals: 6,
        is_initialized: true,
        freeze_authority: if freeze { COption::Some(k(0xD9, 2)) } else { COption::None },
    };
    let mut d = vec![0u8; 82];
    spl_token_2022::state::Mint::pack(base, &mut d).unwrap();
    if prog22 && !tlv.is_empty() {
        d.resize(165, 0);
        d.push(1);
        d.extend_from_slice(tlv);
    }
    d
}

/// the published admission table, walked independently of the program
fn admissible(prog22: bool, native: bool, freeze: bool, badge: bool, tlv: &[u8]) -> Result<(), String> {
    if !prog22 {
        return Ok(());
    }
    if native {
        return Err("the Token-2022 native mint".into());
    }
    if freeze && !badge {
        return Err("freeze authority without token badge".into());
    }
    let supported = [1u16, 10, 19, 18, 25, 4, 16];
    let gated = [12u16, 14, 3, 26, 6];
    let mut c = 0usize;
    let mut types = vec![];
    let mut dstate = None;
    while c + 4 <= tlv.len() {
        let ty = u16::from_le_bytes([tlv[c], tlv[c + 1]]);
        if ty == 0 {
            break;
        }
        let len = u16::from_le_bytes([tlv[c + 2], tlv[c + 3]]) as usize;
        if ty == 6 && c + 4 < tlv.len() {
            dstate = Some(tlv[c + 4]);
        }
        types.push(ty);
        c += 4 + len;
    }
    for ty in &types {
        if supported.contains(ty) {
            continue;
        }
        if gated.contains(ty) {
            if !badge {
                return Err(format!("badge-gated extension {} without token badge", ty));
            }
            continue;
        }
        return Err(format!("unsupported extension {}", ty));
    }
    if types.contains(&6) && dstate != Some(1) && !freeze {
        return Err("non-default account state without freeze authority".into());
    }
    Ok(())
}

struct XInit;
impl Family for XInit {
    fn name(&self) -> &'static str {
        "xinit"
    }
    fn gen(&self, r: &mut Rng, _idx: u64) -> String {
        let ts = r.pick(&[1u64, 2, 8, 64, 128, 256, 32896]);
        let tier_ts = if r.chance(1, 16) { r.pick(&[1u64, 64, 65]) } else { ts };
        let price = match r.below(5) {
            0 => r.pick(&[1u128, 4295048015, 4295048016, 79226673515401279992447579055, 79226673515401279992447579056, u128::MAX]),
            _ => r.sqrt_price(),
        };
        let order = r.pick(&[0u64, 0, 0, 0, 0, 0, 0, 0, 0, 0, 1, 2]);
        let fee = r.pick(&[0u64, 100, 3000, 10000, 59999, 60000, 60000, 60000, 60001, 65535]);
        let proto = r.pick(&[0u64, 300, 1300, 2499, 2500, 2500, 2500, 2501, 65535]);
        let mint = |r: &mut Rng, may_native: bool| -> String {
            if may_native && r.chance(1, 14) {
                return format!("1 1 0 - {}", r.pick(&[0u64, 1]));
            }
            let prog22 = r.chance(2, 3);
            let freeze = r.chance(1, 4);
            let set = if prog22 { r.pick(EXT_SETS) } else { &[][..] };
            let tlv = build_tlv(set, r.chance(1, 2));
            let badge = r.pick(&[0u64, 0, 0, 0, 1, 1, 1, 1, 1, 1, 1, 1, 2, 3, 4, 5, 5, 5]);
            format!("{} 0 {} {} {}", b(prog22), b(freeze), hex(&tlv), badge)
        };
        let ma = mint(r, true);
        let mb = if order == 2 { ma.clone() } else { mint(r, false) };
        format!("xinit {} {} {} {} {} {} {} {}", ts, tier_ts, price, order, fee, proto, ma, mb)
    }
    fn run(&self, line: &str, ctx: &mut Ctx) -> String {
        match std::panic::catch_unwind(std::panic::AssertUnwindSafe(|| self.run_inner(line, ctx))) {
            Ok(s) => s,
            Err(_) => "err".to_string(),
        }
    }
}

impl XInit {
    fn run_inner(&self, line: &str, ctx: &mut Ctx) -> String {
        let t = toks(line);
        let ts: u16 = t[1].parse().unwrap();
        let tier_ts: u16 = t[2].parse().unwrap();
        let price = p128(t[3]);
        let order: u8 = t[4].parse().unwrap();
        let fee: u16 = t[5].parse().unwrap();
        let proto: u16 = t[6].parse().unwrap();
        // (token-2022, native, freeze authority, tlv, badge kind)
        let spec = |o: usize| (pb(t[o]), pb(t[o + 1]), pb(t[o + 2]), unhex(t[o + 3]), t[o + 4].parse::<u8>().unwrap());
        let (sa, sb) = (spec(7), spec(12));
        let pid = ::whirlpool::ID;
        let sysid = crate::svm::system_id();
        let mut bank = Bank::new(1_000_000);
        let cfg = k(0xD0, 1);
        let c = WhirlpoolsConfig { fee_authority: k(0xD8, 1), collect_protocol_fees_authority: k(0xD8, 2), reward_emissions_super_authority: k(0xD8, 3), default_protocol_fee_rate: proto, feature_flags: 0 };
        let mut d = vec![];
        c.try_serialize(&mut d).unwrap();
        d.resize(WhirlpoolsConfig::LEN, 0);
        bank.set(cfg, pid, 10_000_000, d);
        let tier = k(0xD1, 1);
        let ft = FeeTier { whirlpools_config: cfg, tick_spacing: tier_ts, default_fee_rate: fee };
        let mut d = vec![];
        ft.try_serialize(&mut d).unwrap();
        d.resize(FeeTier::LEN, 0);
        bank.set(tier, pid, 10_000_000, d);
        // the two mint keys realise `order`; a native slot is the Token-2022 native mint's address
        let native_id = spl_token_2022::native_mint::ID;
        let tokp = |p22: bool| if p22 { anchor_spl::token_2022::ID } else { anchor_spl::token::ID };
        let (lo, hi) = (k(0x81, 0x01), k(0x81, 0xFE));
        let (mint_a, mint_b) = match (order, sa.1, sb.1) {
            (2, true, _) => (native_id, native_id),
            (2, false, _) => (lo, lo),
            (0, true, _) => (native_id, hi),
            (0, _, true) => (lo, native_id),
            (0, _, _) => (lo, hi),
            (_, true, _) => (native_id, lo),
            (_, _, true) => (hi, native_id),
            _ => (hi, lo),
        };
        assert!(match order { 0 => mint_a < mint_b, 1 => mint_a > mint_b, _ => mint_a == mint_b });
        let (spec_a, spec_b) = (&sa, if order == 2 { &sa } else { &sb });
        bank.set(mint_a, tokp(spec_a.0), 5_000_000, mint_account(spec_a.0, spec_a.2, &spec_a.3));
        if order != 2 {
            bank.set(mint_b, tokp(spec_b.0), 5_000_000, mint_account(spec_b.0, spec_b.2, &spec_b.3));
        }
        let cfg2 = k(0xD0, 2);
        let badge_pda = |c: &Pubkey, m: &Pubkey| Pubkey::find_program_address(&[b"token_badge", c.as_ref(), m.as_ref()], &pid).0;
        let badge_data = |c: Pubkey, m: Pubkey, attr: bool| {
            let tb = TokenBadge { whirlpools_config: c, token_mint: m, attribute_require_non_transferable_position: attr };
            let mut d = vec![];
            tb.try_serialize(&mut d).unwrap();
            d.resize(TokenBadge::LEN, 0);
            d
        };
        let mut slot_badge = |bank: &mut Bank, m: Pubkey, kind: u8| -> Pubkey {
            let at = badge_pda(&cfg, &m);
            match kind {
                1 => bank.set(at, pid, 5_000_000, badge_data(cfg, m, false)),
                5 => bank.set(at, pid, 5_000_000, badge_data(cfg, m, true)),
                2 => {
                    let other = badge_pda(&cfg2, &m);
                    bank.set(other, pid, 5_000_000, badge_data(cfg2, m, false));
                    return other;
                }
                3 => bank.set(at, pid, 5_000_000, badge_data(cfg2, m, false)),
                4 => bank.set(at, k(0xD7, 7), 5_000_000, badge_data(cfg, m, false)),
                _ => {}
            }
            at
        };
        let badge_a = slot_badge(&mut bank, mint_a, spec_a.4);
        let badge_b = if order == 2 { badge_a } else { slot_badge(&mut bank, mint_b, spec_b.4) };
        let funder = k(0xD3, 1);
        bank.set(funder, sysid, 100_000_000_000, vec![]);
        let (va, vb) = (k(0xD2, 1), k(0xD2, 2));
        let pool = Pubkey::find_program_address(&[b"whirlpool", cfg.as_ref(), mint_a.as_ref(), mint_b.as_ref(), &ts.to_le_bytes()], &pid).0;
        bank.set_program(sysid);
        bank.set_program(anchor_spl::token::ID);
        bank.set_program(anchor_spl::token_2022::ID);
        let rent_id = anchor_lang::solana_program::sysvar::rent::ID;
        {
            let r = anchor_lang::solana_program::rent::Rent::default();
            let mut d = vec![];
            d.extend_from_slice(&r.lamports_per_byte_year.to_le_bytes());
            d.extend_from_slice(&r.exemption_threshold.to_le_bytes());
            d.push(r.burn_percent);
            bank.set(rent_id, anchor_lang::solana_program::sysvar::ID, 1_009_200, d);
        }
        let acc = ::whirlpool::accounts::InitializePoolV2 {
            whirlpools_config: cfg,
            token_mint_a: mint_a,
            token_mint_b: mint_b,
            token_badge_a: badge_a,
            token_badge_b: badge_b,
            funder,
            whirlpool: pool,
            token_vault_a: va,
            token_vault_b: vb,
            fee_tier: tier,
            token_program_a: tokp(spec_a.0),
            token_program_b: tokp(spec_b.0),
            system_program: sysid,
            rent: rent_id,
        };
        let metas: Vec<Meta> = acc.to_account_metas(None).iter().map(Meta::from).collect();
        let data = ::whirlpool::instruction::InitializePoolV2 { tick_spacing: ts, initial_sqrt_price: price }.data();
        let before = bank.clone();
        let (res, out) = bank.execute(&metas, &data);
        let conds_ok = order == 0 && price >= 4295048016 && price <= 79226673515401279992447579055 && ts == tier_ts && fee <= 60000 && proto <= 2500;
        let has_badge = |kind: u8| kind == 1 || kind == 5;
        let adm_a = admissible(spec_a.0, spec_a.1, spec_a.2, has_badge(spec_a.4), &spec_a.3);
        let adm_b = admissible(spec_b.0, spec_b.1, spec_b.2, has_badge(spec_b.4), &spec_b.3);
        let foreign_badge = spec_a.4 == 2 || spec_b.4 == 2;
        match res {
            Ok(()) => {
                ctx.tag("ok");
                ctx.nontrivial(line);
                if !conds_ok {
                    ctx.viol(format!("C19 a pool was created with out-of-bound / inconsistent parameters (order {}, price {}, spacing {} vs tier {}, fee {}, protocol fee {})", order, price, ts, tier_ts, fee, proto));
                }
                if foreign_badge {
                    ctx.viol("C15 initialize_pool_v2 accepted a token badge account that is not the badge of this config and mint".to_string());
                }
                if let Err(e) = &adm_a {
                    ctx.viol(format!("C19 a pool was created over mint A although: {}", e));
                }
                if let Err(e) = &adm_b {
                    ctx.viol(format!("C19 a pool was created over mint B although: {}", e));
                }
                match Whirlpool::try_deserialize(&mut &bank.data(&pool)[..]) {
                    Ok(w) => {
                        if w.whirlpools_config != cfg || w.token_mint_a != mint_a || w.token_mint_b != mint_b || w.token_vault_a != va || w.token_vault_b != vb || w.tick_spacing != ts || w.fee_rate != fee || w.protocol_fee_rate != proto || { w.sqrt_price } != price || w.liquidity != 0 {
                            ctx.viol("C19/C15 the created pool does not record the accounts and parameters it was created with".to_string());
                        }
                        if w.tick_current_index != ::whirlpool::math::tick_index_from_sqrt_price(&price) {
                            ctx.viol("C19 the created pool's tick index is not the tick of its price".to_string());
                        }
                        for (v, m, p22) in [(va, mint_a, spec_a.0), (vb, mint_b, spec_b.0)] {
                            let a = bank.get(&v);
                            if a.owner != tokp(p22) || a.data.len() < 165 || a.data[0..32] != m.to_bytes() || a.data[32..64] != pool.to_bytes() {
                                ctx.viol("C15 a vault of the created pool is not a token account of the pool's mint owned by the pool".to_string());
                            }
                        }
                        let nt = w.is_non_transferable_position_required();
                        if nt != (spec_a.4 == 5 || spec_b.4 == 5) {
                            ctx.viol("the created pool's non-transferable-position flag is not the attribute of its mints' badges".to_string());
                        }
                        format!("ok {} {} {} {} {}", w.fee_rate, w.protocol_fee_rate, { w.sqrt_price }, w.tick_current_index, b(nt))
                    }
                    Err(_) => {
                        ctx.viol("initialize_pool_v2 succeeded without creating the pool account".to_string());
                        "ok".to_string()
                    }
                }
            }
            Err(e) => {
                if bank.accts != before.accts {
                    ctx.viol("a failed initialize_pool_v2 changed account state".to_string());
                }
                let name = crate::ix::err_name(&e, &out.logs);
                ctx.tag(&format!("err_{}", name.chars().take(28).collect::<String>()));
                if std::env::var("WPH_LOGS").is_ok() {
                    eprintln!("xinit: {:?} {}\n{}", e, name, out.logs.join("\n"));
                }
                if conds_ok && !foreign_badge && adm_a.is_ok() && adm_b.is_ok() {
                    // everything the property asks for holds: the refusal must come from the token program (vault creation)
                    ctx.tag("refused_although_admissible");
                    if std::env::var("WPH_LOGS").is_ok() {
                        eprintln!("xinit refused: {} {:?}\n{}", line, e, out.logs.join("\n"));
                    }
                }
                format!("err {}", name)
            }
        }
    }
}
