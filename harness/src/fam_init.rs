//! C19 (+ C15) at instruction level: initialize_pool_v2 through the REAL entrypoint.
//!
//!   xinit <ts> <tierTs> <price> <order> <fee> <proto> <progA> <nativeA> <freezeA> <tlvA> <badgeA> <progB> <nativeB> <freezeB> <tlvB> <badgeB>
//!
//! order: 0 = mint keys in canonical order, 1 = swapped, 2 = the same mint twice (slot B then repeats slot A).
//! Each mint slot: SPL Token or Token-2022 (prog), the Token-2022 native mint or not, optional freeze authority,
//! a WELL-FORMED set of Token-2022 extensions built with the real crate (tlv = the bytes after the account-type
//! byte, hex), and what sits in the token-badge slot: 0 nothing · 1 the badge of (config, mint) · 2 the badge of
//! ANOTHER config passed instead (not at the badge address) · 3 program-owned data at the address recording
//! another config · 4 the right content under a foreign owner · 5 the badge with the
//! require-non-transferable-position attribute.
//! The whirlpool PDA is created by Anchor's `init`, the vaults by the system program and the real token
//! programs (Token-2022: GetAccountDataSize, InitializeImmutableOwner, InitializeAccount3).
//! Model: mint admission table (`isSupportedTokenMint`, proved `admit_sound`) + `initializePoolChecks`.
//! Oracle (C19): a pool that gets created has canonical mint order, in-bound price, the fee tier's spacing and
//! an in-bound fee / protocol fee rate, and both mints are admissible by the published table.
use crate::fam_math::{b, p128, pb, toks};
use crate::fixture::k;
use crate::rng::*;
use crate::svm::{Bank, Meta};
use crate::{Ctx, Family};
use ::whirlpool::state::*;
use anchor_lang::prelude::Pubkey;
use anchor_lang::{AccountDeserialize, AccountSerialize, Discriminator, InstructionData, ToAccountMetas};
use anchor_spl::token_2022::spl_token_2022;
use solana_program::program_option::COption;
use solana_program::program_pack::Pack;

pub fn register(v: &mut Vec<Box<dyn Family>>) {
    v.push(Box::new(XInit));
    v.push(Box::new(XInitAf));
}

pub fn hex(b: &[u8]) -> String {
    if b.is_empty() {
        "-".into()
    } else {
        b.iter().map(|x| format!("{:02x}", x)).collect()
    }
}
pub fn unhex(s: &str) -> Vec<u8> {
    if s == "-" {
        return vec![];
    }
    (0..s.len() / 2).map(|i| u8::from_str_radix(&s[2 * i..2 * i + 2], 16).unwrap()).collect()
}

/// extension sets by number (Token-2022 `ExtensionType`); built into valid TLV data by the real crate
pub const EXT_SETS: &[&[u16]] = &[
    &[],
    &[1],         // TransferFeeConfig
    &[10],        // InterestBearingConfig
    &[18],        // MetadataPointer
    &[1, 18],     //
    &[3],         // MintCloseAuthority            (badge)
    &[12],        // PermanentDelegate             (badge)
    &[14],        // TransferHook                  (badge)
    &[6],         // DefaultAccountState           (badge / state rules)
    &[9],         // NonTransferable               (never)
    &[20],        // GroupPointer                  (not on the list)
    &[1, 12],     //
    &[3, 10, 18], //
];

pub fn build_tlv(set: &[u16], frozen_default: bool) -> Vec<u8> {
    use spl_token_2022::extension::{BaseStateWithExtensionsMut, ExtensionType, StateWithExtensionsMut};
    if set.is_empty() {
        return vec![];
    }
    let types: Vec<ExtensionType> = set.iter().map(|n| ExtensionType::try_from(*n).unwrap()).collect();
    let len = ExtensionType::try_calculate_account_len::<spl_token_2022::state::Mint>(&types).unwrap();
    let mut buf = vec![0u8; len];
    {
        let mut st = StateWithExtensionsMut::<spl_token_2022::state::Mint>::unpack_uninitialized(&mut buf).unwrap();
        for n in set {
            match *n {
                1 => {
                    st.init_extension::<spl_token_2022::extension::transfer_fee::TransferFeeConfig>(true).unwrap();
                }
                3 => {
                    st.init_extension::<spl_token_2022::extension::mint_close_authority::MintCloseAuthority>(true).unwrap();
                }
                6 => {
                    let e = st.init_extension::<spl_token_2022::extension::default_account_state::DefaultAccountState>(true).unwrap();
                    e.state = if frozen_default { 2 } else { 1 };
                }
                9 => {
                    st.init_extension::<spl_token_2022::extension::non_transferable::NonTransferable>(true).unwrap();
                }
                10 => {
                    st.init_extension::<spl_token_2022::extension::interest_bearing_mint::InterestBearingConfig>(true).unwrap();
                }
                12 => {
                    st.init_extension::<spl_token_2022::extension::permanent_delegate::PermanentDelegate>(true).unwrap();
                }
                14 => {
                    st.init_extension::<spl_token_2022::extension::transfer_hook::TransferHook>(true).unwrap();
                }
                18 => {
                    st.init_extension::<spl_token_2022::extension::metadata_pointer::MetadataPointer>(true).unwrap();
                }
                20 => {
                    st.init_extension::<spl_token_2022::extension::group_pointer::GroupPointer>(true).unwrap();
                }
                _ => {}
            }
        }
    }
    buf[166..].to_vec()
}

pub fn mint_account(prog22: bool, freeze: bool, tlv: &[u8]) -> Vec<u8> {
    let base = spl_token_2022::state::Mint {
        mint_authority: COption::Some(k(0xD9, 1)),
        supply: 1_000_000,
        decimals: 6,
        is_initialized: true,
        freeze_authority: if freeze { COption::Some(k(0xD9, 2)) } else { COption::None },
    };
    let mut d = vec![0u8; 82];
    spl_token_2022::state::Mint::pack(base, &mut d).unwrap();
    if prog22 && !tlv.is_empty() {
        d.resize(165, 0);
        d.push(1);
        d.extend_from_slice(tlv);
    }
    d
}

/// the published admission table, walked independently of the program
pub fn admissible(prog22: bool, native: bool, freeze: bool, badge: bool, tlv: &[u8]) -> Result<(), String> {
    if !prog22 {
        return Ok(());
    }
    if native {
        return Err("the Token-2022 native mint".into());
    }
    if freeze && !badge {
        return Err("freeze authority without token badge".into());
    }
    let supported = [1u16, 10, 19, 18, 25, 4, 16];
    let gated = [12u16, 14, 3, 26, 6];
    let mut c = 0usize;
    let mut types = vec![];
    let mut dstate = None;
    while c + 4 <= tlv.len() {
        let ty = u16::from_le_bytes([tlv[c], tlv[c + 1]]);
        if ty == 0 {
            break;
        }
        let len = u16::from_le_bytes([tlv[c + 2], tlv[c + 3]]) as usize;
        if ty == 6 && c + 4 < tlv.len() {
            dstate = Some(tlv[c + 4]);
        }
        types.push(ty);
        c += 4 + len;
    }
    for ty in &types {
        if supported.contains(ty) {
            continue;
        }
        if gated.contains(ty) {
            if !badge {
                return Err(format!("badge-gated extension {} without token badge", ty));
            }
            continue;
        }
        return Err(format!("unsupported extension {}", ty));
    }
    if types.contains(&6) && dstate != Some(1) && !freeze {
        return Err("non-default account state without freeze authority".into());
    }
    Ok(())
}

/// (token-2022, native, freeze authority, tlv, badge kind)
type MintSpec = (bool, bool, bool, Vec<u8>, u8);

fn tokp(p22: bool) -> Pubkey {
    if p22 {
        anchor_spl::token_2022::ID
    } else {
        anchor_spl::token::ID
    }
}

fn gen_mint(r: &mut Rng, may_native: bool, plain_bias: bool) -> String {
    if may_native && r.chance(1, 14) {
        return format!("1 1 0 - {}", r.pick(&[0u64, 1]));
    }
    let prog22 = if plain_bias { r.chance(1, 3) } else { r.chance(2, 3) };
    let freeze = r.chance(1, 4);
    let set = if prog22 { r.pick(EXT_SETS) } else { &[][..] };
    let tlv = build_tlv(set, r.chance(1, 2));
    let badge = r.pick(&[0u64, 0, 0, 0, 1, 1, 1, 1, 1, 1, 1, 1, 2, 3, 4, 5, 5, 5]);
    format!("{} 0 {} {} {}", b(prog22), b(freeze), hex(&tlv), badge)
}

/// the world every pool-creating instruction starts from: a config (and a second one), the two mints with what
/// sits in their badge slots, a funder, two vault keypairs, the programs and the Rent sysvar
struct InitWorld {
    bank: Bank,
    cfg: Pubkey,
    mint_a: Pubkey,
    mint_b: Pubkey,
    badge_a: Pubkey,
    badge_b: Pubkey,
    funder: Pubkey,
    va: Pubkey,
    vb: Pubkey,
    rent_id: Pubkey,
    spec_a: MintSpec,
    spec_b: MintSpec,
}

fn parse_spec(t: &[&str], o: usize) -> MintSpec {
    (pb(t[o]), pb(t[o + 1]), pb(t[o + 2]), unhex(t[o + 3]), t[o + 4].parse::<u8>().unwrap())
}

fn build_world(order: u8, proto: u16, sa: MintSpec, sb: MintSpec, now: i64) -> InitWorld {
    let pid = ::whirlpool::ID;
    let sysid = crate::svm::system_id();
    let mut bank = Bank::new(now);
    let cfg = k(0xD0, 1);
    let c = WhirlpoolsConfig { fee_authority: k(0xD8, 1), collect_protocol_fees_authority: k(0xD8, 2), reward_emissions_super_authority: k(0xD8, 3), default_protocol_fee_rate: proto, feature_flags: 0 };
    let mut d = vec![];
    c.try_serialize(&mut d).unwrap();
    d.resize(WhirlpoolsConfig::LEN, 0);
    bank.set(cfg, pid, 10_000_000, d);
    // the two mint keys realise `order`; a native slot is the Token-2022 native mint's address
    let native_id = spl_token_2022::native_mint::ID;
    let (lo, hi) = (k(0x81, 0x01), k(0x81, 0xFE));
    let (mint_a, mint_b) = match (order, sa.1, sb.1) {
        (2, true, _) => (native_id, native_id),
        (2, false, _) => (lo, lo),
        (0, true, _) => (native_id, hi),
        (0, _, true) => (lo, native_id),
        (0, _, _) => (lo, hi),
        (_, true, _) => (native_id, lo),
        (_, _, true) => (hi, native_id),
        _ => (hi, lo),
    };
    assert!(match order {
        0 => mint_a < mint_b,
        1 => mint_a > mint_b,
        _ => mint_a == mint_b,
    });
    let (spec_a, spec_b) = (sa.clone(), if order == 2 { sa.clone() } else { sb.clone() });
    bank.set(mint_a, tokp(spec_a.0), 5_000_000, mint_account(spec_a.0, spec_a.2, &spec_a.3));
    if order != 2 {
        bank.set(mint_b, tokp(spec_b.0), 5_000_000, mint_account(spec_b.0, spec_b.2, &spec_b.3));
    }
    let cfg2 = k(0xD0, 2);
    let badge_pda = |c: &Pubkey, m: &Pubkey| Pubkey::find_program_address(&[b"token_badge", c.as_ref(), m.as_ref()], &pid).0;
    let badge_data = |c: Pubkey, m: Pubkey, attr: bool| {
        let tb = TokenBadge { whirlpools_config: c, token_mint: m, attribute_require_non_transferable_position: attr };
        let mut d = vec![];
        tb.try_serialize(&mut d).unwrap();
        d.resize(TokenBadge::LEN, 0);
        d
    };
    let slot_badge = |bank: &mut Bank, m: Pubkey, kind: u8| -> Pubkey {
        let at = badge_pda(&cfg, &m);
        match kind {
            1 => bank.set(at, pid, 5_000_000, badge_data(cfg, m, false)),
            5 => bank.set(at, pid, 5_000_000, badge_data(cfg, m, true)),
            2 => {
                let other = badge_pda(&cfg2, &m);
                bank.set(other, pid, 5_000_000, badge_data(cfg2, m, false));
                return other;
            }
            3 => bank.set(at, pid, 5_000_000, badge_data(cfg2, m, false)),
            4 => bank.set(at, k(0xD7, 7), 5_000_000, badge_data(cfg, m, false)),
            _ => {}
        }
        at
    };
    let badge_a = slot_badge(&mut bank, mint_a, spec_a.4);
    let badge_b = if order == 2 { badge_a } else { slot_badge(&mut bank, mint_b, spec_b.4) };
    let funder = k(0xD3, 1);
    bank.set(funder, sysid, 100_000_000_000, vec![]);
    let (va, vb) = (k(0xD2, 1), k(0xD2, 2));
    bank.set_program(sysid);
    bank.set_program(anchor_spl::token::ID);
    bank.set_program(anchor_spl::token_2022::ID);
    let rent_id = anchor_lang::solana_program::sysvar::rent::ID;
    {
        let r = anchor_lang::solana_program::rent::Rent::default();
        let mut d = vec![];
        d.extend_from_slice(&r.lamports_per_byte_year.to_le_bytes());
        d.extend_from_slice(&r.exemption_threshold.to_le_bytes());
        d.push(r.burn_percent);
        bank.set(rent_id, anchor_lang::solana_program::sysvar::ID, 1_009_200, d);
    }
    InitWorld { bank, cfg, mint_a, mint_b, badge_a, badge_b, funder, va, vb, rent_id, spec_a, spec_b }
}

/// C19 / C15 oracles on a pool that was created; returns (fee rate, protocol fee rate, price, tick, nt flag)
#[allow(clippy::too_many_arguments)]
fn judge_created(w0: &InitWorld, bank: &Bank, pool: &Pubkey, what: &str, ts: u16, fee: u16, proto: u16, price: u128, conds_ok: bool, ctx: &mut Ctx) -> Option<(u16, u16, u128, i32, bool)> {
    let has_badge = |kind: u8| kind == 1 || kind == 5;
    let (sa, sb) = (&w0.spec_a, &w0.spec_b);
    if !conds_ok {
        ctx.viol(format!("C19 {}: a pool was created with out-of-bound / inconsistent parameters (price {}, spacing {}, fee {}, protocol fee {})", what, price, ts, fee, proto));
    }
    if sa.4 == 2 || sb.4 == 2 {
        ctx.viol(format!("C15 {} accepted a token badge account that is not the badge of this config and mint", what));
    }
    if let Err(e) = admissible(sa.0, sa.1, sa.2, has_badge(sa.4), &sa.3) {
        ctx.viol(format!("C19 {}: a pool was created over mint A although: {}", what, e));
    }
    if let Err(e) = admissible(sb.0, sb.1, sb.2, has_badge(sb.4), &sb.3) {
        ctx.viol(format!("C19 {}: a pool was created over mint B although: {}", what, e));
    }
    match Whirlpool::try_deserialize(&mut &bank.data(pool)[..]) {
        Ok(w) => {
            if w.whirlpools_config != w0.cfg || w.token_mint_a != w0.mint_a || w.token_mint_b != w0.mint_b || w.token_vault_a != w0.va || w.token_vault_b != w0.vb || w.tick_spacing != ts || w.fee_rate != fee || w.protocol_fee_rate != proto || { w.sqrt_price } != price || w.liquidity != 0 {
                ctx.viol(format!("C19/C15 {}: the created pool does not record the accounts and parameters it was created with", what));
            }
            if w.tick_current_index != ::whirlpool::math::tick_index_from_sqrt_price(&price) {
                ctx.viol("C19 the created pool's tick index is not the tick of its price".to_string());
            }
            for (v, m, p22) in [(w0.va, w0.mint_a, sa.0), (w0.vb, w0.mint_b, sb.0)] {
                let a = bank.get(&v);
                if a.owner != tokp(p22) || a.data.len() < 165 || a.data[0..32] != m.to_bytes() || a.data[32..64] != pool.to_bytes() {
                    ctx.viol("C15 a vault of the created pool is not a token account of the pool's mint owned by the pool".to_string());
                }
            }
            let nt = w.is_non_transferable_position_required();
            if nt != (sa.4 == 5 || sb.4 == 5) {
                ctx.viol("the created pool's non-transferable-position flag is not the attribute of its mints' badges".to_string());
            }
            Some((w.fee_rate, w.protocol_fee_rate, { w.sqrt_price }, w.tick_current_index, nt))
        }
        Err(_) => {
            ctx.viol(format!("{} succeeded without creating the pool account", what));
            None
        }
    }
}

fn would_be_admissible(w0: &InitWorld) -> bool {
    let has_badge = |kind: u8| kind == 1 || kind == 5;
    let (sa, sb) = (&w0.spec_a, &w0.spec_b);
    sa.4 != 2 && sb.4 != 2 && admissible(sa.0, sa.1, sa.2, has_badge(sa.4), &sa.3).is_ok() && admissible(sb.0, sb.1, sb.2, has_badge(sb.4), &sb.3).is_ok()
}

struct XInit;
impl Family for XInit {
    fn name(&self) -> &'static str {
        "xinit"
    }
    fn gen(&self, r: &mut Rng, _idx: u64) -> String {
        let ts = r.pick(&[1u64, 2, 8, 64, 128, 256, 32896]);
        let tier_ts = if r.chance(1, 16) { r.pick(&[1u64, 64, 65]) } else { ts };
        let price = match r.below(5) {
            0 => r.pick(&[1u128, 4295048015, 4295048016, 79226673515401279992447579055, 79226673515401279992447579056, u128::MAX]),
            _ => r.sqrt_price(),
        };
        let order = r.pick(&[0u64, 0, 0, 0, 0, 0, 0, 0, 0, 0, 1, 2, 3]);
        let fee = r.pick(&[0u64, 100, 3000, 10000, 59999, 60000, 60000, 60000, 60001, 65535]);
        let proto = r.pick(&[0u64, 300, 1300, 2499, 2500, 2500, 2500, 2501, 65535]);
        let ma = gen_mint(r, true, false);
        let mb = if order == 2 { ma.clone() } else { gen_mint(r, false, false) };
        format!("xinit {} {} {} {} {} {} {} {}", ts, tier_ts, price, order, fee, proto, ma, mb)
    }
    fn run(&self, line: &str, ctx: &mut Ctx) -> String {
        match std::panic::catch_unwind(std::panic::AssertUnwindSafe(|| self.run_inner(line, ctx))) {
            Ok(s) => s,
            Err(_) => "err".to_string(),
        }
    }
}

impl XInit {
    fn run_inner(&self, line: &str, ctx: &mut Ctx) -> String {
        let t = toks(line);
        let ts: u16 = t[1].parse().unwrap();
        let tier_ts: u16 = t[2].parse().unwrap();
        let price = p128(t[3]);
        let order: u8 = t[4].parse().unwrap();
        let fee: u16 = t[5].parse().unwrap();
        let proto: u16 = t[6].parse().unwrap();
        let pid = ::whirlpool::ID;
        // order 3: canonical mint order, but the account offered as the pool is NOT at the pool's derived address
        let wrong_pool = order == 3;
        let order = if wrong_pool { 0 } else { order };
        let mut w0 = build_world(order, proto, parse_spec(&t, 7), parse_spec(&t, 12), 1_000_000);
        let tier = k(0xD1, 1);
        let ft = FeeTier { whirlpools_config: w0.cfg, tick_spacing: tier_ts, default_fee_rate: fee };
        let mut d = vec![];
        ft.try_serialize(&mut d).unwrap();
        d.resize(FeeTier::LEN, 0);
        w0.bank.set(tier, pid, 10_000_000, d);
        let pool = if wrong_pool { k(0x99, 4) } else { Pubkey::find_program_address(&[b"whirlpool", w0.cfg.as_ref(), w0.mint_a.as_ref(), w0.mint_b.as_ref(), &ts.to_le_bytes()], &pid).0 };
        let acc = ::whirlpool::accounts::InitializePoolV2 {
            whirlpools_config: w0.cfg,
            token_mint_a: w0.mint_a,
            token_mint_b: w0.mint_b,
            token_badge_a: w0.badge_a,
            token_badge_b: w0.badge_b,
            funder: w0.funder,
            whirlpool: pool,
            token_vault_a: w0.va,
            token_vault_b: w0.vb,
            fee_tier: tier,
            token_program_a: tokp(w0.spec_a.0),
            token_program_b: tokp(w0.spec_b.0),
            system_program: crate::svm::system_id(),
            rent: w0.rent_id,
        };
        let metas: Vec<Meta> = acc.to_account_metas(None).iter().map(Meta::from).collect();
        let data = ::whirlpool::instruction::InitializePoolV2 { tick_spacing: ts, initial_sqrt_price: price }.data();
        let mut bank = w0.bank.clone();
        let (res, out) = bank.execute(&metas, &data);
        let conds_ok = order == 0 && !wrong_pool && price >= 4295048016 && price <= 79226673515401279992447579055 && ts == tier_ts && fee <= 60000 && proto <= 2500;
        match res {
            Ok(()) => {
                ctx.tag("ok");
                ctx.nontrivial(line);
                if wrong_pool {
                    ctx.viol("C15 a pool was created at an address that is not the pool's address for its config, mints and spacing".to_string());
                }
                match judge_created(&w0, &bank, &pool, "initialize_pool_v2", ts, fee, proto, price, conds_ok, ctx) {
                    Some((f, p, pr, tk, nt)) => format!("ok {} {} {} {} {}", f, p, pr, tk, b(nt)),
                    None => "ok".to_string(),
                }
            }
            Err(e) => {
                if bank.accts != w0.bank.accts {
                    ctx.viol("a failed initialize_pool_v2 changed account state".to_string());
                }
                let name = crate::ix::err_name(&e, &out.logs);
                ctx.tag(&format!("err_{}", name.chars().take(28).collect::<String>()));
                if std::env::var("WPH_LOGS").is_ok() {
                    eprintln!("xinit: {:?} {}\n{}", e, name, out.logs.join("\n"));
                }
                if conds_ok && would_be_admissible(&w0) {
                    // everything the property asks for holds: the refusal must come from the token program (vault creation)
                    ctx.tag("refused_although_admissible");
                }
                format!("err {}", name)
            }
        }
    }
}

// ------------------------------------------------------------------------------------------------
//   xinitaf <price> <order> <proto> <now> <te | -> <authMode> <permissioned> <ts> <fee> <fp dp rf cf mv gs th> <slot A> <slot B>
//
// initialize_pool_with_adaptive_fee through the real entrypoint: the whirlpool AND its Oracle are created by
// Anchor's `init`; the adaptive-fee tier (permissioned = it names an initialize-pool authority) carries the
// spacing, the base fee rate and the seven adaptive-fee constants, valid or not.
// authMode: 0 the tier's authority signs (any key for a permission-less tier) · 1 a stranger signs · 2 the key in
// the authority slot does not sign.  te = requested trade-enable time.
// Oracles (C19, C14, C17): a pool that gets created satisfies everything `xinit` asks, its Oracle records the
// pool, the requested trade-enable time (0 if none) — accepted only from a permissioned tier, ≤ 72 h ahead, ≤ 30 s
// back — and the tier's constants, which satisfy the published validity rules (checked independently), with the
// adaptive-fee variables zero.
// ------------------------------------------------------------------------------------------------
struct XInitAf;

fn constants_valid(ts: u64, c: &[u64; 7]) -> bool {
    let (fp, dp, rf, cf, mv, gs, th) = (c[0], c[1], c[2], c[3], c[4], c[5], c[6]);
    fp >= 1 && dp > fp && cf < 100_000 && mv.checked_mul(gs).map_or(false, |x| x <= u32::MAX as u64) && rf < 10_000 && gs >= 1 && gs <= ts && ts % gs == 0 && th >= 1 && th <= ts * 88
}

impl Family for XInitAf {
    fn name(&self) -> &'static str {
        "xinitaf"
    }
    fn gen(&self, r: &mut Rng, _idx: u64) -> String {
        let ts = r.pick(&[1u64, 2, 8, 64, 128, 256, 32896]);
        let price = match r.below(8) {
            0 => r.pick(&[4295048015u128, 4295048016, 79226673515401279992447579055, 79226673515401279992447579056]),
            _ => r.sqrt_price(),
        };
        let order = r.pick(&[0u64, 0, 0, 0, 0, 0, 0, 0, 0, 0, 0, 0, 1, 2]);
        let fee = r.pick(&[0u64, 100, 3000, 10000, 60000, 60000, 60001]);
        let proto = r.pick(&[0u64, 300, 2500, 2500, 2501]);
        let now = r.pick(&[0u64, 100, 1_000_000, 1_700_000_000]);
        let perm = r.chance(3, 4);
        let te = match r.below(16) {
            0..=6 => "-".to_string(),
            7 | 8 => now.to_string(),
            9 | 10 => (now + r.pick(&[1u64, 3600, 259_199, 259_200])).to_string(),
            11 => (now + r.pick(&[259_201u64, 1_000_000])).to_string(),
            12 | 13 => now.saturating_sub(r.pick(&[1u64, 29, 30])).to_string(),
            14 => now.saturating_sub(r.pick(&[31u64, 100_000])).to_string(),
            _ => r.pick(&[0u64, u64::MAX]).to_string(),
        };
        let auth = r.pick(&[0u8, 0, 0, 0, 0, 0, 0, 0, 0, 0, 1, 1, 2, 3, 4]);
        // constants: mostly valid for this spacing, each rule broken now and then
        let divisors: Vec<u64> = (1..=ts.min(64)).filter(|d| ts % d == 0).collect();
        let gs = if ts == 32896 { r.pick(&[1u64, 2, 64, 257, 32896]) } else { r.pick(&divisors) };
        let mut c = [r.pick(&[1u64, 30, 60]), 0, r.pick(&[0u64, 500, 9999]), r.pick(&[0u64, 4000, 99999]), r.pick(&[0u64, 350_000, (u32::MAX as u64) / gs]), gs, 1 + r.below((ts * 88).min(65535))];
        c[1] = c[0] + r.pick(&[1u64, 600]);
        if r.chance(1, 5) {
            match r.below(8) {
                0 => c[0] = 0,
                1 => c[1] = c[0],
                2 => c[2] = 10_000,
                3 => c[3] = 100_000,
                4 => c[4] = if gs >= 2 { r.pick(&[(u32::MAX as u64) / gs + 1, u32::MAX as u64]) } else { c[4] },
                5 => c[5] = if r.chance(1, 2) { 0 } else { (ts + 1).min(65535) },
                6 => c[6] = if r.chance(1, 2) { 0 } else { (ts * 88 + 1).min(65535) },
                _ => c[5] = if ts >= 3 { ts - 1 } else { 0 },
            }
        }
        let ma = gen_mint(r, true, true);
        let mb = if order == 2 { ma.clone() } else { gen_mint(r, false, true) };
        format!("xinitaf {} {} {} {} {} {} {} {} {} {} {} {} {} {} {} {} {} {}", price, order, proto, now, te, auth, b(perm), ts, fee, c[0], c[1], c[2], c[3], c[4], c[5], c[6], ma, mb)
    }
    fn run(&self, line: &str, ctx: &mut Ctx) -> String {
        match std::panic::catch_unwind(std::panic::AssertUnwindSafe(|| self.run_inner(line, ctx))) {
            Ok(s) => s,
            Err(_) => "err".to_string(),
        }
    }
}

impl XInitAf {
    fn run_inner(&self, line: &str, ctx: &mut Ctx) -> String {
        let t = toks(line);
        let price = p128(t[1]);
        let order: u8 = t[2].parse().unwrap();
        let proto: u16 = t[3].parse().unwrap();
        let now: u64 = t[4].parse().unwrap();
        let te: Option<u64> = if t[5] == "-" { None } else { Some(t[5].parse().unwrap()) };
        let auth_mode: u8 = t[6].parse().unwrap();
        let perm = pb(t[7]);
        let ts: u16 = t[8].parse().unwrap();
        let fee: u16 = t[9].parse().unwrap();
        let mut c = [0u64; 7];
        for i in 0..7 {
            c[i] = t[10 + i].parse().unwrap();
        }
        let pid = ::whirlpool::ID;
        let sysid = crate::svm::system_id();
        let mut w0 = build_world(order, proto, parse_spec(&t, 17), parse_spec(&t, 22), now as i64);
        let tier_auth = k(0xD4, 1);
        let stranger = k(0xD4, 2);
        for kk in [tier_auth, stranger] {
            w0.bank.set(kk, sysid, 1_000_000, vec![]);
        }
        let fee_tier_index: u16 = 1024 + (ts % 1000);
        let tier = k(0xD1, 2);
        let aft = AdaptiveFeeTier {
            whirlpools_config: w0.cfg,
            fee_tier_index,
            tick_spacing: ts,
            initialize_pool_authority: if perm { tier_auth } else { Pubkey::default() },
            delegated_fee_authority: Pubkey::default(),
            default_base_fee_rate: fee,
            filter_period: c[0] as u16,
            decay_period: c[1] as u16,
            reduction_factor: c[2] as u16,
            adaptive_fee_control_factor: c[3] as u32,
            max_volatility_accumulator: c[4] as u32,
            tick_group_size: c[5] as u16,
            major_swap_threshold_ticks: c[6] as u16,
        };
        let mut d = vec![];
        aft.try_serialize(&mut d).unwrap();
        d.resize(AdaptiveFeeTier::LEN, 0);
        w0.bank.set(tier, pid, 10_000_000, d);
        // authMode 3 / 4: the account offered as the pool / as the Oracle is NOT at its derived address
        let pool = if auth_mode == 3 { k(0x99, 5) } else { Pubkey::find_program_address(&[b"whirlpool", w0.cfg.as_ref(), w0.mint_a.as_ref(), w0.mint_b.as_ref(), &fee_tier_index.to_le_bytes()], &pid).0 };
        let oracle = if auth_mode == 4 { k(0x99, 6) } else { Pubkey::find_program_address(&[b"oracle", pool.as_ref()], &pid).0 };
        let signer_key = if auth_mode == 1 { stranger } else { tier_auth };
        let acc = ::whirlpool::accounts::InitializePoolWithAdaptiveFee {
            whirlpools_config: w0.cfg,
            token_mint_a: w0.mint_a,
            token_mint_b: w0.mint_b,
            token_badge_a: w0.badge_a,
            token_badge_b: w0.badge_b,
            funder: w0.funder,
            initialize_pool_authority: signer_key,
            whirlpool: pool,
            oracle,
            token_vault_a: w0.va,
            token_vault_b: w0.vb,
            adaptive_fee_tier: tier,
            token_program_a: tokp(w0.spec_a.0),
            token_program_b: tokp(w0.spec_b.0),
            system_program: sysid,
            rent: w0.rent_id,
        };
        let mut metas: Vec<Meta> = acc.to_account_metas(None).iter().map(Meta::from).collect();
        if auth_mode == 2 {
            for m in metas.iter_mut() {
                if m.key == signer_key {
                    m.signer = false;
                }
            }
        }
        let data = ::whirlpool::instruction::InitializePoolWithAdaptiveFee { initial_sqrt_price: price, trade_enable_timestamp: te }.data();
        let mut bank = w0.bank.clone();
        let (res, out) = bank.execute(&metas, &data);
        let te_ok = match te {
            None => true,
            Some(x) => perm && if x > now { x - now <= 72 * 3600 } else { now - x <= 30 },
        };
        let conds_ok = order == 0 && price >= 4295048016 && price <= 79226673515401279992447579055 && fee <= 60000 && proto <= 2500 && ts > 0;
        match res {
            Ok(()) => {
                ctx.tag("ok");
                ctx.nontrivial(line);
                if auth_mode == 2 || (perm && auth_mode == 1) {
                    ctx.viol(format!("C04 initialize_pool_with_adaptive_fee on a permissioned tier succeeded without the tier's authority signing (mode {})", auth_mode));
                }
                if auth_mode >= 3 {
                    ctx.viol(format!("C15 initialize_pool_with_adaptive_fee created the {} at an address that is not its derived address", if auth_mode == 3 { "pool" } else { "Oracle" }));
                }
                if !te_ok {
                    ctx.viol(format!("C17/C14 a pool was created with trade-enable time {:?} at clock {} (permissioned tier: {})", te, now, perm));
                }
                if !constants_valid(ts as u64, &c) {
                    ctx.viol(format!("C19 a pool was created with adaptive-fee constants {:?} that break the validity rules for spacing {}", c, ts));
                }
                let od = bank.data(&oracle);
                let mut te_rec = u64::MAX;
                if bank.get(&oracle).owner != pid || od.len() != Oracle::LEN || od[0..8] != *Oracle::DISCRIMINATOR {
                    ctx.viol("C14 the created pool has no Oracle account of the program".to_string());
                } else {
                    let o: &Oracle = bytemuck::from_bytes(&od[8..8 + std::mem::size_of::<Oracle>()]);
                    te_rec = o.trade_enable_timestamp;
                    let k_ = o.adaptive_fee_constants;
                    let v = o.adaptive_fee_variables;
                    let same = k_.filter_period as u64 == c[0] && k_.decay_period as u64 == c[1] && k_.reduction_factor as u64 == c[2] && k_.adaptive_fee_control_factor as u64 == c[3] && k_.max_volatility_accumulator as u64 == c[4] && k_.tick_group_size as u64 == c[5] && k_.major_swap_threshold_ticks as u64 == c[6];
                    if o.whirlpool != pool || te_rec != te.unwrap_or(0) || !same {
                        ctx.viol("C14 the created Oracle does not record its pool, the requested trade-enable time and the tier's constants".to_string());
                    }
                    if v.last_reference_update_timestamp != 0 || v.last_major_swap_timestamp != 0 || v.volatility_reference != 0 || v.tick_group_index_reference != 0 || v.volatility_accumulator != 0 {
                        ctx.viol("C14 the created Oracle's adaptive-fee variables are not zero".to_string());
                    }
                }
                match judge_created(&w0, &bank, &pool, "initialize_pool_with_adaptive_fee", ts, fee, proto, price, conds_ok, ctx) {
                    Some((f, p, pr, tk, nt)) => format!("ok {} {} {} {} {} {}", f, p, pr, tk, b(nt), te_rec),
                    None => "ok".to_string(),
                }
            }
            Err(e) => {
                if bank.accts != w0.bank.accts {
                    ctx.viol("a failed initialize_pool_with_adaptive_fee changed account state".to_string());
                }
                let name = crate::ix::err_name(&e, &out.logs);
                ctx.tag(&format!("err_{}", name.chars().take(28).collect::<String>()));
                if std::env::var("WPH_LOGS").is_ok() {
                    eprintln!("xinitaf: {:?} {}\n{}", e, name, out.logs.join("\n"));
                }
                if conds_ok && te_ok && constants_valid(ts as u64, &c) && auth_mode == 0 && would_be_admissible(&w0) {
                    ctx.tag("refused_although_admissible");
                }
                format!("err {}", name)
            }
        }
    }
}
