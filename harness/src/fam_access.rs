//! Function-level family `posauth` (C04): the three position-authority checks
//! (verify_position_authority_interface, verify_position_authority, pino_verify_position_authority)
//! on real token-account bytes, against the model and the property itself.
use crate::fam_math::*;
use crate::rng::*;
use crate::{Ctx, Family};
use ::whirlpool::pinocchio::verif_export as pino;
use anchor_lang::prelude::*;
use anchor_spl::token::spl_token;
use anchor_spl::token::spl_token::solana_program::program_pack::Pack;

pub fn register(v: &mut Vec<Box<dyn Family>>) {
    v.push(Box::new(PosAuth));
    v.push(Box::new(Loaders));
}

fn anchor_err_name(e: anchor_lang::error::Error) -> String {
    match e {
        anchor_lang::error::Error::AnchorError(a) => a.error_name.clone(),
        anchor_lang::error::Error::ProgramError(p) => format!("ProgramError({:?})", p.program_error),
    }
}

/// `ldta <owner_ok> <writable> <disc 0 fixed|1 dynamic|2 other|3 short> <whirlpool_ok> <mut>`:
/// the tick-array loaders of both implementations on a candidate account (C15)
struct Loaders;
impl Family for Loaders {
    fn name(&self) -> &'static str {
        "ldta"
    }
    fn exhaustive(&self) -> Option<u64> {
        Some(64)
    }
    fn gen(&self, _r: &mut Rng, idx: u64) -> String {
        format!("ldta {} {} {} {} {}", idx & 1, (idx >> 1) & 1, (idx >> 2) & 3, (idx >> 4) & 1, (idx >> 5) & 1)
    }
    fn run(&self, line: &str, ctx: &mut Ctx) -> String {
        use ::whirlpool::state::{load_tick_array, load_tick_array_mut, DynamicTickArray, FixedTickArray};
        use anchor_lang::Discriminator;
        let t = toks(line);
        let (owner_ok, writable, disc, wp_ok, mutable) = (pb(t[1]), pb(t[2]), t[3].parse::<u8>().unwrap(), pb(t[4]), pb(t[5]));
        let pool = key(7);
        let other_pool = key(8);
        const N: usize = 10020;
        let mut data = [0u8; N];
        let len = match disc {
            0 => {
                data[..8].copy_from_slice(FixedTickArray::DISCRIMINATOR);
                data[8 + 4 + 88 * 113..8 + 4 + 88 * 113 + 32].copy_from_slice(&(if wp_ok { pool } else { other_pool }).to_bytes());
                9988
            }
            1 => {
                data[..8].copy_from_slice(DynamicTickArray::DISCRIMINATOR);
                data[12..44].copy_from_slice(&(if wp_ok { pool } else { other_pool }).to_bytes());
                10004
            }
            2 => {
                data[..8].copy_from_slice(&[9u8; 8]);
                data[12..44].copy_from_slice(&pool.to_bytes());
                9988
            }
            _ => 5,
        };
        let owner = if owner_ok { ::whirlpool::ID } else { key(99) };
        let a: String = {
            let k = key(70);
            let mut lam = 1u64;
            let mut d = data[..len].to_vec();
            d.resize(len.max(10020), 0); // slack for the dynamic loader's MAX_LEN view
            let dl = &mut d[..];
            let info = AccountInfo::new(&k, false, writable, &mut lam, dl, &owner, false, 0);
            // present exactly `len` bytes to the loader
            let info = if len < 10020 {
                let ptr = info.data.borrow_mut().as_mut_ptr();
                let sl = unsafe { std::slice::from_raw_parts_mut(ptr, len) };
                *info.data.borrow_mut() = sl;
                info
            } else {
                info
            };
            let r = if mutable { load_tick_array_mut(&info, &pool).map(|_| ()) } else { load_tick_array(&info, &pool).map(|_| ()) };
            match r {
                Ok(()) => "ok".into(),
                Err(e) => format!("err {}", anchor_err_name(e)),
            }
        };
        let p: String = {
            let mut raw = RawAccount::<N>::new(key(70).to_bytes(), owner.to_bytes(), false, writable, data);
            raw.data_len = len as u64;
            let info = raw.info();
            let pk = pool.to_bytes();
            let r = if mutable {
                // through the handlers' own entry point (both slots the same account: the lower-array path)
                pino::whirlpool::tick_array::loader::TickArraysMut::load(&info, &info, &pk).map(|_| ())
            } else {
                pino::whirlpool::tick_array::loader::load_tick_array(&info, &pk).map(|_| ())
            };
            match r {
                Ok(()) => "ok".into(),
                Err(pino::UnifiedError::Anchor(e)) => format!("err {}", anchor_err_name(e)),
                Err(pino::UnifiedError::Pinocchio(e)) => format!("err PinocchioError({:?})", e),
            }
        };
        if a != p {
            ctx.viol(format!("C15/C12 Anchor loader says `{}` but the Pinocchio loader says `{}`", a, p));
        }
        for (nm, r) in [("Anchor", &a), ("Pinocchio", &p)] {
            if r == "ok" && !(owner_ok && disc <= 1 && wp_ok && (!mutable || writable)) {
                ctx.viol(format!("C15 {} tick-array loader accepted an account with owner_ok={} discriminator_kind={} whirlpool_ok={} writable={}", nm, owner_ok, disc, wp_ok, writable));
            }
        }
        ctx.nontrivial(line);
        ctx.tag(a.split(' ').last().unwrap());
        a
    }
}

fn key(n: u64) -> Pubkey {
    Pubkey::new_from_array([n as u8 + 1; 32])
}

#[repr(C)]
pub struct RawAccount<const N: usize> {
    borrow_state: u8,
    is_signer: u8,
    is_writable: u8,
    executable: u8,
    resize_delta: i32,
    key: [u8; 32],
    owner: [u8; 32],
    lamports: u64,
    pub data_len: u64,
    data: [u8; N],
}

impl<const N: usize> RawAccount<N> {
    pub fn new(key: [u8; 32], owner: [u8; 32], is_signer: bool, is_writable: bool, data: [u8; N]) -> Self {
        Self { borrow_state: 0xff, is_signer: is_signer as u8, is_writable: is_writable as u8, executable: 0, resize_delta: 0, key, owner, lamports: 1_000_000, data_len: N as u64, data }
    }
    pub fn info(&mut self) -> pinocchio::account_info::AccountInfo {
        // AccountInfo is a single raw pointer to the runtime account layout
        let mut slot = std::mem::MaybeUninit::<pinocchio::account_info::AccountInfo>::uninit();
        unsafe {
            (slot.as_mut_ptr() as *mut *mut Self).write(self as *mut Self);
            slot.assume_init()
        }
    }
}

struct PosAuth;
impl Family for PosAuth {
    fn name(&self) -> &'static str {
        "posauth"
    }
    fn gen(&self, r: &mut Rng, _idx: u64) -> String {
        let owner = r.below(3);
        let dlg = if r.chance(1, 2) { "-".to_string() } else { r.below(3).to_string() };
        let damt = r.pick(&[0u64, 1, 1, 2, 5]);
        let amt = r.pick(&[0u64, 1, 1, 2]);
        format!("posauth {} {} {} {} {} {}", owner, dlg, damt, amt, r.below(4), b(r.chance(2, 3)))
    }
    fn run(&self, line: &str, ctx: &mut Ctx) -> String {
        let t = toks(line);
        let owner: u64 = t[1].parse().unwrap();
        let dlg: Option<u64> = if t[2] == "-" { None } else { Some(t[2].parse().unwrap()) };
        let (damt, amt): (u64, u64) = (t[3].parse().unwrap(), t[4].parse().unwrap());
        let akey: u64 = t[5].parse().unwrap();
        let signer = pb(t[6]);
        // token account bytes
        let acc = spl_token::state::Account {
            mint: key(50),
            owner: key(owner),
            amount: amt,
            delegate: match dlg {
                Some(d) => spl_token::solana_program::program_option::COption::Some(key(d)),
                None => spl_token::solana_program::program_option::COption::None,
            },
            state: spl_token::state::AccountState::Initialized,
            is_native: spl_token::solana_program::program_option::COption::None,
            delegated_amount: damt,
            close_authority: spl_token::solana_program::program_option::COption::None,
        };
        let mut data = [0u8; 165];
        spl_token::state::Account::pack(acc, &mut data).unwrap();
        // --- Anchor
        let anchor_res: String = {
            let tk = key(60);
            let mut lam = 1u64;
            let mut d = data.to_vec();
            let tprog = spl_token::ID;
            let tinfo = AccountInfo::new(&tk, false, false, &mut lam, &mut d, &tprog, false, 0);
            let ak = key(akey);
            let mut lam2 = 1u64;
            let mut d2: Vec<u8> = vec![];
            let sysp = Pubkey::default();
            let ainfo = AccountInfo::new(&ak, signer, false, &mut lam2, &mut d2, &sysp, false, 0);
            let ta = InterfaceAccount::<anchor_spl::token_interface::TokenAccount>::try_from(&tinfo).unwrap();
            let ta1 = Account::<anchor_spl::token::TokenAccount>::try_from(&tinfo).unwrap();
            match Signer::try_from(&ainfo) {
                Err(_) => "rej".to_string(),
                Ok(sg) => {
                    let a = ::whirlpool::util::verify_position_authority_interface(&ta, &sg).is_ok();
                    let b1 = ::whirlpool::util::verify_position_authority(&ta1, &sg).is_ok();
                    if a != b1 {
                        ctx.viol(format!("C04 verify_position_authority ({}) and _interface ({}) disagree", b1, a));
                    }
                    if a { "ok".to_string() } else { "rej".to_string() }
                }
            }
        };
        // --- Pinocchio
        let pino_res: String = {
            let tm = unsafe { &*(data.as_ptr() as *const pino::token::MemoryMappedTokenAccount) };
            let mut raw = RawAccount::<0>::new(key(akey).to_bytes(), [0u8; 32], signer, false, []);
            let info = raw.info();
            if pino::util_shared::pino_verify_position_authority(tm, &info).is_ok() { "ok".into() } else { "rej".into() }
        };
        if pino_res != anchor_res {
            ctx.viol(format!("C04/C12 pino_verify_position_authority says {} but the Anchor check says {}", pino_res, anchor_res));
        }
        let accept = anchor_res == "ok" || pino_res == "ok";
        if accept {
            ctx.nontrivial(line);
            let legit = signer && (akey == owner || (dlg == Some(akey) && damt == 1));
            if !legit {
                ctx.viol(format!(
                    "C04 position authority accepted although signer={} key={} owner={} delegate={:?} delegated_amount={}",
                    signer, akey, owner, dlg, damt
                ));
            }
        }
        ctx.tag(&anchor_res);
        anchor_res
    }
}
