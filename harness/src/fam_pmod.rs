//! C12: one modify-liquidity on an ARBITRARY (not necessarily reachable) pool / position / tick state,
//! executed by the Anchor managers and by the Pinocchio port on identical account bytes.
//! Oracle: same result, same error, byte-identical whirlpool / position / tick-array accounts, same
//! tick-array size and rent decisions.  Output (from the Anchor run, read back from the bytes) is
//! compared with the Lean model.
//!
//!   pmod ts cur price liq fgA fgB rewardTs (init emis growth)x3  lower upper pliq cpA owedA cpB owedB (cp owed)x3
//!        tl(8) tu(8) varL varU sign mag now
use crate::fam_math::{b, p128, p64, pb, toks};
use crate::hist::{anchor_err_name, pino_err_name, tau_code, ArrayAcc, World, DYN_MAX};
use crate::rng::*;
use crate::{Ctx, Family};
use ::whirlpool::manager::liquidity_manager::{calculate_liquidity_token_deltas, calculate_modify_liquidity, sync_modify_liquidity_values};
use ::whirlpool::pinocchio::verif_export as pino;
use ::whirlpool::state::*;
use anchor_lang::{AccountDeserialize, AccountSerialize, Discriminator};
use std::cell::RefCell;

pub fn register(v: &mut Vec<Box<dyn Family>>) {
    v.push(Box::new(PMod));
}

struct PMod;

#[derive(Clone, Copy, Default)]
struct T8 {
    init: bool,
    net: i128,
    gross: u128,
    fa: u128,
    fb: u128,
    r: [u128; 3],
}
impl T8 {
    fn show(&self) -> String {
        format!("{} {} {} {} {} {} {} {}", b(self.init), self.net, self.gross, self.fa, self.fb, self.r[0], self.r[1], self.r[2])
    }
    fn parse(t: &[&str]) -> T8 {
        T8 { init: pb(t[0]), net: t[1].parse().unwrap(), gross: p128(t[2]), fa: p128(t[3]), fb: p128(t[4]), r: [p128(t[5]), p128(t[6]), p128(t[7])] }
    }
    fn upd(&self) -> TickUpdate {
        TickUpdate { initialized: self.init, liquidity_net: self.net, liquidity_gross: self.gross, fee_growth_outside_a: self.fa, fee_growth_outside_b: self.fb, reward_growths_outside: self.r }
    }
    fn of(t: &Tick) -> T8 {
        T8 { init: t.initialized, net: t.liquidity_net, gross: t.liquidity_gross, fa: t.fee_growth_outside_a, fb: t.fee_growth_outside_b, r: t.reward_growths_outside }
    }
}

fn rand_growth(r: &mut Rng) -> u128 {
    match r.below(4) {
        0 => r.pick(&[0u128, 1, u128::MAX, u128::MAX - 1, 1 << 64, 1 << 127]),
        1 => r.next128(),
        _ => r.log_u128(128),
    }
}

fn rand_tick8(r: &mut Rng, canonical: bool) -> T8 {
    if r.chance(2, 5) {
        if canonical || r.chance(3, 4) {
            return T8::default();
        }
        // an uninitialized slot of a FIXED array holding stale data (not produced by the program)
        return T8 { init: false, net: r.log_u128(100) as i128, gross: r.log_u128(100), fa: rand_growth(r), fb: rand_growth(r), r: [rand_growth(r), 0, 0] };
    }
    let gross = match r.below(8) {
        0 => r.pick(&[1u128, 2, u128::MAX, u128::MAX - 1, i128::MAX as u128, (i128::MAX as u128) + 1]),
        _ => r.liquidity().max(1),
    };
    let net = match r.below(8) {
        0 => r.pick(&[i128::MAX, i128::MIN, i128::MIN + 1, -1, 0, 1]),
        1..=3 => -((r.liquidity() >> 1) as i128),
        _ => (r.liquidity() >> 1) as i128,
    };
    T8 { init: true, net, gross, fa: rand_growth(r), fb: rand_growth(r), r: [rand_growth(r), rand_growth(r), rand_growth(r)] }
}

fn new_array(start: i32, dynamic: bool) -> ArrayAcc {
    if dynamic {
        let mut data = vec![0u8; DYN_MAX + 16];
        data[..8].copy_from_slice(DynamicTickArray::DISCRIMINATOR);
        data[8..12].copy_from_slice(&start.to_le_bytes());
        ArrayAcc { data: RefCell::new(data), dynamic }
    } else {
        let arr = FixedTickArray { start_tick_index: start, ..Default::default() };
        let mut data = FixedTickArray::DISCRIMINATOR.to_vec();
        data.extend_from_slice(bytemuck::bytes_of(&arr));
        ArrayAcc { data: RefCell::new(data), dynamic }
    }
}
pub fn clone_acc(a: &ArrayAcc) -> ArrayAcc {
    ArrayAcc { data: RefCell::new(a.data.borrow().clone()), dynamic: a.dynamic }
}
pub fn used_bytes(a: &ArrayAcc) -> Vec<u8> {
    let d = a.data.borrow();
    if a.dynamic {
        let n = u128::from_le_bytes(d[44..60].try_into().unwrap()).count_ones() as usize;
        d[..148 + 112 * n].to_vec()
    } else {
        d.clone()
    }
}

pub type PathOut = Result<(u64, u64, (i64, i64), (i64, i64)), String>;

pub fn run_path(use_pino: bool, wp_bytes: &mut Vec<u8>, pos_bytes: &mut Vec<u8>, lower_copy: &ArrayAcc, upper_copy: &Option<ArrayAcc>, delta: i128, now: u64) -> PathOut {
    if use_pino {
        let wpm = unsafe { &mut *(wp_bytes.as_mut_ptr() as *mut pino::whirlpool::MemoryMappedWhirlpool) };
        let pm = unsafe { &mut *(pos_bytes.as_mut_ptr() as *mut pino::whirlpool::MemoryMappedPosition) };
        let lower = unsafe { World::pino_view(lower_copy) };
        let update = match upper_copy {
            None => pino::manager_liquidity_manager::pino_calculate_modify_liquidity(wpm, pm, &*lower, &*lower, delta, now),
            Some(u) => {
                let upper = unsafe { World::pino_view(u) };
                pino::manager_liquidity_manager::pino_calculate_modify_liquidity(wpm, pm, &*lower, &*upper, delta, now)
            }
        }
        .map_err(pino_err_name)?;
        let tl = tau_code(&update.tick_array_lower_update);
        let tu = tau_code(&update.tick_array_upper_update);
        match upper_copy {
            None => pino::manager_liquidity_manager::pino_sync_modify_liquidity_values(wpm, pm, lower, None, &update, now),
            Some(u) => {
                let upper = unsafe { World::pino_view(u) };
                pino::manager_liquidity_manager::pino_sync_modify_liquidity_values(wpm, pm, lower, Some(upper), &update, now)
            }
        }
        .map_err(pino_err_name)?;
        let r = pino::manager_liquidity_manager::pino_calculate_liquidity_token_deltas(wpm.tick_current_index(), wpm.sqrt_price(), pm, delta).map_err(pino_err_name)?;
        Ok((r.0, r.1, tl, tu))
    } else {
        let mut w = Whirlpool::try_deserialize(&mut &wp_bytes[..]).unwrap();
        let mut pp = Position::try_deserialize(&mut &pos_bytes[..]).unwrap();
        let update = {
            let lower = World::anchor_view(lower_copy);
            match upper_copy {
                None => calculate_modify_liquidity(&w, &pp, &*lower, &*lower, delta, now),
                Some(u) => {
                    let upper = World::anchor_view(u);
                    calculate_modify_liquidity(&w, &pp, &*lower, &*upper, delta, now)
                }
            }
        }
        .map_err(anchor_err_name)?;
        let tl = tau_code(&update.tick_array_lower_update);
        let tu = tau_code(&update.tick_array_upper_update);
        {
            let mut lower = World::anchor_view(lower_copy);
            match upper_copy {
                None => sync_modify_liquidity_values(&mut w, &mut pp, &mut *lower, None, &update, now),
                Some(u) => {
                    let mut upper = World::anchor_view(u);
                    sync_modify_liquidity_values(&mut w, &mut pp, &mut *lower, Some(&mut *upper), &update, now)
                }
            }
            .map_err(anchor_err_name)?;
        }
        let r = calculate_liquidity_token_deltas(w.tick_current_index, w.sqrt_price, &pp, delta).map_err(anchor_err_name)?;
        let mut d = vec![];
        w.try_serialize(&mut d).unwrap();
        wp_bytes.copy_from_slice(&d);
        let mut d = vec![];
        pp.try_serialize(&mut d).unwrap();
        pos_bytes.copy_from_slice(&d);
        Ok((r.0, r.1, tl, tu))
    }
}

impl Family for PMod {
    fn name(&self) -> &'static str {
        "pmod"
    }
    fn gen(&self, r: &mut Rng, _idx: u64) -> String {
        let ts = if r.chance(3, 4) { r.pick(&[1u16, 2, 8, 64, 128, 256]) } else { r.tick_spacing() };
        let tsi = ts as i32;
        let (lo_b, hi_b) = ((MIN_TICK / tsi) * tsi, (MAX_TICK / tsi) * tsi);
        let pick = |r: &mut Rng| -> i32 {
            match r.below(6) {
                0 => lo_b,
                1 => hi_b,
                _ => (r.tick() / tsi) * tsi,
            }
        };
        let (mut lower, mut upper) = (pick(r), pick(r));
        if r.chance(1, 3) {
            // same array
            upper = (lower + tsi * (1 + r.below(40) as i32)).min(hi_b);
        }
        if lower > upper {
            std::mem::swap(&mut lower, &mut upper);
        }
        if lower == upper {
            if upper < hi_b {
                upper += tsi;
            } else {
                lower -= tsi;
            }
        }
        if r.chance(1, 40) && ts > 1 {
            lower += 1; // not usable: TickNotFound from both
        }
        let cur = match r.below(5) {
            0 => lower,
            1 => upper,
            2 => upper - 1,
            3 => lower - 1,
            _ => r.tick(),
        };
        let price = if r.chance(2, 3) { ::whirlpool::math::sqrt_price_from_tick_index(cur.clamp(MIN_TICK, MAX_TICK)) } else { r.sqrt_price() };
        let liq = r.liquidity();
        let reward_ts = r.below(1 << 33);
        let nrew = r.below(4);
        let mut s = format!("pmod {} {} {} {} {} {} {}", ts, cur, price, liq, rand_growth(r), rand_growth(r), reward_ts);
        for i in 0..3 {
            let init = i < nrew;
            let bits = if r.chance(1, 8) { 128 } else { 90 };
            let emis = if init && r.chance(3, 4) { r.log_u128(bits) } else { 0 };
            s += &format!(" {} {} {}", b(init), emis, if init { rand_growth(r) } else { 0 });
        }
        let pliq = if r.chance(1, 4) { 0 } else { r.liquidity() >> r.below(3) };
        s += &format!(" {} {} {} {} {} {} {}", lower, upper, pliq, rand_growth(r), r.u64_amount(), rand_growth(r), r.u64_amount());
        for _ in 0..3 {
            s += &format!(" {} {}", rand_growth(r), r.u64_amount());
        }
        let tia = 88 * tsi;
        let same = lower.div_euclid(tia) == upper.div_euclid(tia);
        let var_l = r.chance(1, 2);
        let var_u = if same { var_l } else { r.chance(1, 2) };
        let mut tl = rand_tick8(r, var_l);
        let mut tu = rand_tick8(r, var_u);
        // a position with liquidity implies initialized bounds holding at least that much
        if pliq > 0 && r.chance(4, 5) {
            for t in [&mut tl, &mut tu] {
                if !t.init {
                    *t = T8 { init: true, net: 0, gross: pliq, fa: rand_growth(r), fb: rand_growth(r), r: [rand_growth(r); 3] };
                } else if t.gross < pliq {
                    t.gross = pliq;
                }
            }
        }
        s += &format!(" {} {}", tl.show(), tu.show());
        let positive = r.chance(1, 2);
        let mag = match r.below(10) {
            0 => pliq,
            1 => tl.gross,
            2 => tu.gross,
            3 => r.pick(&[0u128, 1, i128::MAX as u128, u128::MAX >> 1]),
            4..=6 if !positive && pliq > 0 => 1 + r.next128() % pliq,
            _ => r.liquidity() >> r.below(3),
        }
        .min(i128::MAX as u128);
        let mag = if !positive && r.chance(7, 10) {
            let mut cap = pliq.min(tl.gross).min(tu.gross);
            if cur >= lower && cur < upper {
                cap = cap.min(liq);
            }
            if cap > 0 {
                if r.chance(1, 5) {
                    cap
                } else {
                    1 + r.next128() % cap
                }
            } else {
                mag
            }
        } else {
            mag
        }
        .min(i128::MAX as u128);
        let now = match r.below(16) {
            0 | 1 => reward_ts,
            2 => reward_ts.saturating_sub(1 + r.below(100)),
            3 | 4 => reward_ts + r.below(1 << 34),
            _ => reward_ts + r.below(100_000),
        };
        s += &format!(" {} {} {} {} {}", b(var_l), b(var_u), b(positive), mag, now);
        s
    }
    fn run(&self, line: &str, ctx: &mut Ctx) -> String {
        let t = toks(line);
        let t = &t[1..];
        let ts: u16 = t[0].parse().unwrap();
        let key = anchor_lang::prelude::Pubkey::new_from_array([9u8; 32]);
        let mut w = Whirlpool { tick_spacing: ts, tick_current_index: t[1].parse().unwrap(), sqrt_price: p128(t[2]), liquidity: p128(t[3]), fee_growth_global_a: p128(t[4]), fee_growth_global_b: p128(t[5]), reward_last_updated_timestamp: p64(t[6]), ..Default::default() };
        for i in 0..3 {
            if pb(t[7 + 3 * i]) {
                w.reward_infos[i].mint = anchor_lang::prelude::Pubkey::new_from_array([1 + i as u8; 32]);
            }
            w.reward_infos[i].emissions_per_second_x64 = p128(t[8 + 3 * i]);
            w.reward_infos[i].growth_global_x64 = p128(t[9 + 3 * i]);
        }
        let p = &t[16..29];
        let (lower, upper): (i32, i32) = (p[0].parse().unwrap(), p[1].parse().unwrap());
        let mut pos = Position { whirlpool: key, tick_lower_index: lower, tick_upper_index: upper, liquidity: p128(p[2]), fee_growth_checkpoint_a: p128(p[3]), fee_owed_a: p64(p[4]), fee_growth_checkpoint_b: p128(p[5]), fee_owed_b: p64(p[6]), ..Default::default() };
        for i in 0..3 {
            pos.reward_infos[i].growth_inside_checkpoint = p128(p[7 + 2 * i]);
            pos.reward_infos[i].amount_owed = p64(p[8 + 2 * i]);
        }
        let tl = T8::parse(&t[29..37]);
        let tu = T8::parse(&t[37..45]);
        let (var_l, var_u, positive) = (pb(t[45]), pb(t[46]), pb(t[47]));
        let mag = p128(t[48]);
        let now = p64(t[49]);
        let delta: i128 = if positive { mag as i128 } else { -(mag as i128) };
        let tia = 88 * ts as i32;
        let (ls, us) = (lower.div_euclid(tia) * tia, upper.div_euclid(tia) * tia);
        let lower_arr = new_array(ls, var_l);
        let upper_arr = if ls == us { None } else { Some(new_array(us, var_u)) };
        // place the two ticks (ignore failures: an unusable bound is part of the input space)
        {
            let mut a = World::anchor_view(&lower_arr);
            if tl.init || !lower_arr.dynamic {
                let _ = a.update_tick(lower, ts, &tl.upd());
            }
        }
        {
            let target = upper_arr.as_ref().unwrap_or(&lower_arr);
            let mut a = World::anchor_view(target);
            if tu.init || !target.dynamic {
                let _ = a.update_tick(upper, ts, &tu.upd());
            }
        }
        let mut wp_bytes = vec![];
        w.try_serialize(&mut wp_bytes).unwrap();
        let mut pos_bytes = vec![];
        pos.try_serialize(&mut pos_bytes).unwrap();

        // Anchor run
        let (mut wa, mut pa, la, ua) = (wp_bytes.clone(), pos_bytes.clone(), clone_acc(&lower_arr), upper_arr.as_ref().map(clone_acc));
        let ra = run_path(false, &mut wa, &mut pa, &la, &ua, delta, now);
        // Pinocchio run
        let (mut wpn, mut ppn, lp, up) = (wp_bytes.clone(), pos_bytes.clone(), clone_acc(&lower_arr), upper_arr.as_ref().map(clone_acc));
        let rp = run_path(true, &mut wpn, &mut ppn, &lp, &up, delta, now);

        if ra != rp {
            ctx.viol(format!("C12 modify-liquidity: Anchor gives {:?}, Pinocchio gives {:?}", ra, rp));
        }
        if ra.is_ok() && rp.is_ok() {
            if wa != wpn {
                ctx.viol("C12 modify-liquidity: whirlpool account bytes differ between the Anchor and the Pinocchio run".to_string());
            }
            if pa != ppn {
                ctx.viol("C12 modify-liquidity: position account bytes differ between the Anchor and the Pinocchio run".to_string());
            }
            if used_bytes(&la) != used_bytes(&lp) || ua.as_ref().map(used_bytes) != up.as_ref().map(used_bytes) {
                ctx.viol("C12 modify-liquidity: tick-array account bytes differ between the Anchor and the Pinocchio run".to_string());
            }
        }
        match ra {
            Err(e) => {
                ctx.tag(&format!("err-{}", e));
                format!("err {}", e)
            }
            Ok((da, db, sl, su)) => {
                ctx.tag(if positive { "ok-increase" } else { "ok-decrease" });
                ctx.nontrivial(line);
                let w2 = Whirlpool::try_deserialize(&mut &wa[..]).unwrap();
                let p2 = Position::try_deserialize(&mut &pa[..]).unwrap();
                let tl2 = T8::of(&World::anchor_view(&la).get_tick(lower, ts).unwrap());
                let tu2 = T8::of(&World::anchor_view(ua.as_ref().unwrap_or(&la)).get_tick(upper, ts).unwrap());
                if tl2.init != tl.init {
                    ctx.tag("lower-toggled");
                }
                if tu2.init != tu.init {
                    ctx.tag("upper-toggled");
                }
                let mut s = format!("ok {} {} {} {}", w2.liquidity, w2.reward_infos[0].growth_global_x64, w2.reward_infos[1].growth_global_x64, w2.reward_infos[2].growth_global_x64);
                s += &format!(" {} {} {} {} {}", p2.liquidity, p2.fee_growth_checkpoint_a, p2.fee_owed_a, p2.fee_growth_checkpoint_b, p2.fee_owed_b);
                for i in 0..3 {
                    s += &format!(" {} {}", p2.reward_infos[i].growth_inside_checkpoint, p2.reward_infos[i].amount_owed);
                }
                s += &format!(" {} {} {} {} {} {} {} {}", tl2.show(), tu2.show(), da, db, sl.0, sl.1, su.0, su.1);
                if w2.reward_last_updated_timestamp != now {
                    ctx.viol("C12/C11 reward_last_updated_timestamp not advanced to now".to_string());
                }
                s
            }
        }
    }
}
