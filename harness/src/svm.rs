//! N — native executor: runs the program's REAL `entrypoint` (the Pinocchio-routed and the Anchor
//! instructions alike) on the host, on a buffer in the BPF-loader input format, with the syscalls the
//! handlers need served by stubs:
//!   * Clock / Rent sysvars      -> values chosen by the harness
//!   * CPI (`invoke_signed`)     -> the REAL spl-token / spl-token-2022 processors (linked as libraries),
//!                                  a small System program (CreateAccount / Transfer / Allocate / Assign),
//!                                  memo = no-op; signer privileges are checked (PDA seeds of the caller)
//!   * logs / events             -> collected
//! The host arms of `solana-invoke` and `pinocchio` are routed to these stubs by the vendored copies in
//! harness/vendor (search "HOST HOOK").  A failed instruction changes nothing (as the runtime).
//! After a successful instruction the runtime's own checks are applied: lamports conserved, read-only
//! accounts unchanged, only the owner program changed account data.
use anchor_lang::prelude::{AccountInfo, AccountMeta, Pubkey};
use anchor_lang::solana_program::entrypoint::ProgramResult;
use anchor_lang::solana_program::instruction::Instruction;
use anchor_lang::solana_program::program_error::ProgramError;
use std::cell::{Cell, RefCell};
use std::collections::BTreeMap;

extern "C" {
    /// programs/whirlpool/src/entrypoint.rs
    fn entrypoint(input: *mut u8) -> u64;
}

#[derive(Clone, Debug, PartialEq)]
pub struct Acct {
    pub owner: Pubkey,
    pub lamports: u64,
    pub data: Vec<u8>,
    pub executable: bool,
}

#[derive(Clone)]
pub struct Bank {
    pub accts: BTreeMap<Pubkey, Acct>,
    pub now: i64,
    pub epoch: u64,
}

#[derive(Clone, Debug)]
pub struct Meta {
    pub key: Pubkey,
    pub signer: bool,
    pub writable: bool,
}
impl From<&AccountMeta> for Meta {
    fn from(m: &AccountMeta) -> Meta {
        Meta { key: m.pubkey, signer: m.is_signer, writable: m.is_writable }
    }
}

#[derive(Debug, Clone, PartialEq)]
pub enum ExecError {
    /// the program returned this code (custom program errors are plain u32 values)
    Code(u64),
    /// the program (or a CPI) aborted
    Abort(String),
    /// the program succeeded but broke a runtime rule
    Runtime(String),
}

#[derive(Default, Debug, Clone)]
pub struct ExecOut {
    pub logs: Vec<String>,
    pub events: Vec<Vec<u8>>,
    /// token-program CPIs performed: (program, instruction tag, amount if a transfer, source, destination)
    pub transfers: Vec<(Pubkey, u8, u64, Pubkey, Pubkey)>,
}

thread_local! {
    static CLOCK: Cell<(i64, u64)> = const { Cell::new((0, 0)) };
    static OUT: RefCell<ExecOut> = RefCell::new(ExecOut::default());
    static CPI_FAILED: RefCell<Option<u64>> = const { RefCell::new(None) };
    static CALLER: Cell<Pubkey> = const { Cell::new(Pubkey::new_from_array([0u8; 32])) };
    /// the program whose code is running (the callee during a CPI): owner of the return data it sets
    static CURRENT_PROGRAM: Cell<Pubkey> = const { Cell::new(Pubkey::new_from_array([0u8; 32])) };
    static RETURN_DATA: RefCell<Option<(Pubkey, Vec<u8>)>> = const { RefCell::new(None) };
}

const MAX_PERMITTED_DATA_INCREASE: usize = 10240;
const NON_DUP: u8 = 0xff;

pub fn system_id() -> Pubkey {
    anchor_lang::solana_program::system_program::ID
}

// ------------------------------------------------------------------------------------------------
// syscall stubs
// ------------------------------------------------------------------------------------------------
struct Stubs;
impl solana_program::program_stubs::SyscallStubs for Stubs {
    fn sol_log(&self, message: &str) {
        OUT.with(|o| o.borrow_mut().logs.push(message.to_string()));
    }
    fn sol_log_data(&self, fields: &[&[u8]]) {
        OUT.with(|o| {
            for f in fields {
                o.borrow_mut().events.push(f.to_vec());
            }
        });
    }
    fn sol_get_clock_sysvar(&self, var_addr: *mut u8) -> u64 {
        let (ts, epoch) = CLOCK.with(|c| c.get());
        unsafe {
            *(var_addr as *mut anchor_lang::solana_program::clock::Clock) =
                anchor_lang::solana_program::clock::Clock { slot: 1, epoch_start_timestamp: 0, epoch, leader_schedule_epoch: epoch, unix_timestamp: ts };
        }
        0
    }
    fn sol_get_rent_sysvar(&self, var_addr: *mut u8) -> u64 {
        unsafe {
            *(var_addr as *mut anchor_lang::solana_program::rent::Rent) = anchor_lang::solana_program::rent::Rent::default();
        }
        0
    }
    fn sol_invoke_signed(&self, instruction: &Instruction, account_infos: &[AccountInfo], signers_seeds: &[&[&[u8]]]) -> ProgramResult {
        cpi(instruction, account_infos, signers_seeds)
    }
    fn sol_set_return_data(&self, data: &[u8]) {
        let pid = CURRENT_PROGRAM.with(|c| c.get());
        RETURN_DATA.with(|r| *r.borrow_mut() = Some((pid, data.to_vec())));
    }
    fn sol_get_return_data(&self) -> Option<(Pubkey, Vec<u8>)> {
        RETURN_DATA.with(|r| r.borrow().clone())
    }
}

fn host_set_return_data(data: &[u8]) {
    let pid = CURRENT_PROGRAM.with(|c| c.get());
    RETURN_DATA.with(|r| *r.borrow_mut() = Some((pid, data.to_vec())));
}

fn host_get_return_data() -> Option<(Pubkey, Vec<u8>)> {
    RETURN_DATA.with(|r| r.borrow().clone())
}

fn host_invoke(instruction: &Instruction, account_infos: &[AccountInfo], signers_seeds: &[&[&[u8]]]) -> ProgramResult {
    cpi(instruction, account_infos, signers_seeds)
}

fn pino_sysvar_get(name: &str, dst: *mut u8) -> u64 {
    let (ts, epoch) = CLOCK.with(|c| c.get());
    unsafe {
        match name {
            "sol_get_clock_sysvar" => {
                // slot, epoch_start_timestamp, epoch, leader_schedule_epoch, unix_timestamp (5 x 8 bytes)
                let p = dst as *mut u64;
                *p = 1;
                *(p.add(1) as *mut i64) = 0;
                *p.add(2) = epoch;
                *p.add(3) = epoch;
                *(p.add(4) as *mut i64) = ts;
                0
            }
            "sol_get_rent_sysvar" => {
                let r = anchor_lang::solana_program::rent::Rent::default();
                *(dst as *mut u64) = r.lamports_per_byte_year;
                *(dst.add(8) as *mut f64) = r.exemption_threshold;
                *dst.add(16) = r.burn_percent;
                0
            }
            _ => 1,
        }
    }
}

fn pino_log(message: &str) {
    OUT.with(|o| o.borrow_mut().logs.push(message.to_string()));
}

/// CPI issued through pinocchio: rebuild solana AccountInfos over the SAME memory and dispatch
fn pino_invoke(ix: &pinocchio::instruction::Instruction, accounts: &[pinocchio::instruction::Account], signers: &[pinocchio::instruction::Signer]) {
    let program_id = Pubkey::new_from_array(*ix.program_id);
    let metas: Vec<AccountMeta> = ix
        .accounts
        .iter()
        .map(|m| AccountMeta { pubkey: Pubkey::new_from_array(*m.pubkey), is_signer: m.is_signer, is_writable: m.is_writable })
        .collect();
    let sol_ix = Instruction { program_id, accounts: metas, data: ix.data.to_vec() };
    let mut infos: Vec<AccountInfo> = vec![];
    for a in accounts {
        let (key, lamports, data_len, data, owner, is_signer, is_writable, executable) = a.host_parts();
        unsafe {
            infos.push(AccountInfo {
                key: &*(key as *const Pubkey),
                lamports: std::rc::Rc::new(RefCell::new(&mut *(lamports as *mut u64))),
                data: std::rc::Rc::new(RefCell::new(std::slice::from_raw_parts_mut(data as *mut u8, data_len as usize))),
                owner: &*(owner as *const Pubkey),
                rent_epoch: 0,
                is_signer,
                is_writable,
                executable,
            });
        }
    }
    let seed_vecs: Vec<Vec<&[u8]>> = signers.iter().map(|s| s.host_seeds().iter().map(|x| &**x).collect()).collect();
    let seed_refs: Vec<&[&[u8]]> = seed_vecs.iter().map(|v| &v[..]).collect();
    if let Err(e) = cpi(&sol_ix, &infos, &seed_refs) {
        // the runtime aborts the whole instruction when a CPI fails.  The host cannot unwind through the
        // `extern "C"` entrypoint, so the failure is recorded and the instruction is failed after it returns
        // (everything it did is discarded, as for any failed instruction).
        CPI_FAILED.with(|c| {
            if c.borrow().is_none() {
                *c.borrow_mut() = Some(u64::from(e));
            }
        });
    }
}

pub fn set_clock(ts: i64, epoch: u64) {
    CLOCK.with(|c| c.set((ts, epoch)));
}

pub fn install() {
    static ONCE: std::sync::Once = std::sync::Once::new();
    ONCE.call_once(|| {
        solana_program::program_stubs::set_syscall_stubs(Box::new(Stubs));
        solana_invoke::set_host_invoke(host_invoke);
        solana_cpi::set_host_set_return_data(host_set_return_data);
        solana_cpi::set_host_get_return_data(host_get_return_data);
        solana_msg::set_host_log(pino_log);
        pinocchio::host::set_hooks(pino_sysvar_get, pino_invoke, pino_log);
    });
}

// ------------------------------------------------------------------------------------------------
// CPI dispatcher
// ------------------------------------------------------------------------------------------------
fn cpi(ix: &Instruction, infos: &[AccountInfo], signers_seeds: &[&[&[u8]]]) -> ProgramResult {
    let caller = CALLER.with(|c| c.get());
    let pda_signers: Vec<Pubkey> = signers_seeds.iter().filter_map(|seeds| Pubkey::create_program_address(seeds, &caller).ok()).collect();
    // order the accounts as the instruction lists them, with the privileges the instruction asks for
    let mut ordered: Vec<AccountInfo> = vec![];
    for m in &ix.accounts {
        let info = infos.iter().find(|a| *a.key == m.pubkey).ok_or(ProgramError::NotEnoughAccountKeys)?;
        // the runtime merges the privileges of duplicate entries of one account (is_signer |= .., is_writable |= ..):
        // e.g. spl-token's mint_to(owner = X, signers = [X]) lists X once read-only and once as signer
        let want_signer = ix.accounts.iter().any(|x| x.pubkey == m.pubkey && x.is_signer);
        let want_writable = ix.accounts.iter().any(|x| x.pubkey == m.pubkey && x.is_writable);
        let can_sign = info.is_signer || pda_signers.contains(&m.pubkey);
        if want_signer && !can_sign {
            return Err(ProgramError::MissingRequiredSignature); // privilege escalation
        }
        if want_writable && !info.is_writable {
            return Err(ProgramError::Custom(0xE5CA_1A7E)); // writable privilege escalated
        }
        let mut c = info.clone();
        c.is_signer = want_signer;
        c.is_writable = want_writable;
        ordered.push(c);
    }
    let pid = ix.program_id;
    if pid == anchor_spl::token::ID || pid == anchor_spl::token_2022::ID {
        let tag = *ix.data.first().unwrap_or(&255);
        // Transfer (3): src, dst, auth.  TransferChecked (12) / TransferCheckedWithFee (26,1): src, mint, dst, auth
        let rec = match tag {
            3 if ix.data.len() >= 9 && ordered.len() >= 2 => Some((u64::from_le_bytes(ix.data[1..9].try_into().unwrap()), *ordered[0].key, *ordered[1].key)),
            12 if ix.data.len() >= 9 && ordered.len() >= 3 => Some((u64::from_le_bytes(ix.data[1..9].try_into().unwrap()), *ordered[0].key, *ordered[2].key)),
            _ => None,
        };
        let prev = CURRENT_PROGRAM.with(|c| c.replace(pid));
        RETURN_DATA.with(|r| *r.borrow_mut() = None);
        let r = if pid == anchor_spl::token::ID {
            anchor_spl::token::spl_token::processor::Processor::process(&pid, &ordered, &ix.data)
        } else {
            anchor_spl::token_2022::spl_token_2022::processor::Processor::process(&pid, &ordered, &ix.data)
        };
        CURRENT_PROGRAM.with(|c| c.set(prev));
        if r.is_ok() {
            if let Some((amount, src, dst)) = rec {
                OUT.with(|o| o.borrow_mut().transfers.push((pid, tag, amount, src, dst)));
            }
        }
        return r;
    }
    if pid == anchor_spl::memo::ID {
        OUT.with(|o| o.borrow_mut().logs.push(format!("memo: {}", String::from_utf8_lossy(&ix.data))));
        return Ok(());
    }
    if pid == system_id() {
        return system_program(&ordered, &ix.data);
    }
    if pid == anchor_spl::associated_token::ID {
        return ata_program(&ordered, &ix.data);
    }
    if pid == anchor_spl::metadata::ID {
        return metadata_program(&ordered, &ix.data);
    }
    Err(ProgramError::IncorrectProgramId)
}

/// A small associated-token-account program (no processor crate is available offline):
/// Create (empty data or tag 0) / CreateIdempotent (tag 1) with accounts
/// [funder (signer, writable), associated account (writable), wallet, mint, system program, token program].
/// The address must be the PDA of (wallet, token program, mint); the account is created rent exempt with the
/// size the REAL token program asks for (Token-2022: GetAccountDataSize with ImmutableOwner), assigned to
/// the token program and initialized by the REAL token program (InitializeImmutableOwner, InitializeAccount3).
fn ata_program(a: &[AccountInfo], data: &[u8]) -> ProgramResult {
    let idempotent = match data.first() {
        None | Some(0) => false,
        Some(1) => true,
        _ => return Err(ProgramError::InvalidInstructionData),
    };
    if a.len() < 6 {
        return Err(ProgramError::NotEnoughAccountKeys);
    }
    let (funder, ata, wallet, mint, _system, token_prog) = (&a[0], &a[1], &a[2], &a[3], &a[4], &a[5]);
    let ata_id = anchor_spl::associated_token::ID;
    let (expected, _) = Pubkey::find_program_address(&[wallet.key.as_ref(), token_prog.key.as_ref(), mint.key.as_ref()], &ata_id);
    if expected != *ata.key {
        return Err(ProgramError::InvalidSeeds);
    }
    if *ata.owner != system_id() || !ata.data_is_empty() {
        return if idempotent && *ata.owner == *token_prog.key { Ok(()) } else { Err(ProgramError::IllegalOwner) };
    }
    if *mint.owner != *token_prog.key {
        return Err(ProgramError::IllegalOwner);
    }
    if !funder.is_signer {
        return Err(ProgramError::MissingRequiredSignature);
    }
    let is22 = *token_prog.key == anchor_spl::token_2022::ID;
    let tp = *token_prog.key;
    let run = |ix: Instruction, infos: &[AccountInfo]| -> ProgramResult {
        let prev = CURRENT_PROGRAM.with(|c| c.replace(tp));
        let r = if is22 {
            anchor_spl::token_2022::spl_token_2022::processor::Processor::process(&tp, infos, &ix.data)
        } else {
            anchor_spl::token::spl_token::processor::Processor::process(&tp, infos, &ix.data)
        };
        CURRENT_PROGRAM.with(|c| c.set(prev));
        r
    };
    let space: usize = if is22 {
        use anchor_spl::token_2022::spl_token_2022::extension::ExtensionType;
        RETURN_DATA.with(|r| *r.borrow_mut() = None);
        let ix = anchor_spl::token_2022::spl_token_2022::instruction::get_account_data_size(&tp, mint.key, &[ExtensionType::ImmutableOwner])?;
        run(ix, &[mint.clone()])?;
        let rd = RETURN_DATA.with(|r| r.borrow().clone()).ok_or(ProgramError::InvalidInstructionData)?;
        u64::from_le_bytes(rd.1.as_slice().try_into().map_err(|_| ProgramError::InvalidInstructionData)?) as usize
    } else {
        165
    };
    let lamports = anchor_lang::solana_program::rent::Rent::default().minimum_balance(space);
    if **funder.lamports.borrow() < lamports {
        return Err(ProgramError::InsufficientFunds);
    }
    **funder.lamports.borrow_mut() -= lamports;
    **ata.lamports.borrow_mut() += lamports;
    ata.realloc(space, true)?;
    ata.assign(&tp);
    if is22 {
        let ix = anchor_spl::token_2022::spl_token_2022::instruction::initialize_immutable_owner(&tp, ata.key)?;
        run(ix, &[ata.clone()])?;
        let ix = anchor_spl::token_2022::spl_token_2022::instruction::initialize_account3(&tp, ata.key, mint.key, wallet.key)?;
        run(ix, &[ata.clone(), mint.clone()])
    } else {
        let ix = anchor_spl::token::spl_token::instruction::initialize_account3(&tp, ata.key, mint.key, wallet.key)?;
        run(ix, &[ata.clone(), mint.clone()])
    }
}

/// A stand-in for the Metaplex token-metadata program (no processor crate is available offline), enough for
/// CreateMetadataAccountV3 as the whirlpool program issues it: accounts
/// [metadata (writable), mint, mint authority (signer), payer (signer, writable), update authority, system program, (rent)].
/// It checks what the real program checks of these accounts — the metadata address is the program's PDA for the mint,
/// the mint authority is the mint's and signs, the payer signs, the metadata account is new — and records the
/// instruction: the created account is owned by the metadata program and holds
/// `key (4) | update authority | mint | the instruction data as sent`.
fn metadata_program(a: &[AccountInfo], data: &[u8]) -> ProgramResult {
    if a.len() < 6 || data.first() != Some(&33) {
        return Err(ProgramError::InvalidInstructionData); // 33 = CreateMetadataAccountV3
    }
    let (metadata, mint, mint_auth, payer, update_auth) = (&a[0], &a[1], &a[2], &a[3], &a[4]);
    let pid = anchor_spl::metadata::ID;
    let (expected, _) = Pubkey::find_program_address(&[b"metadata", pid.as_ref(), mint.key.as_ref()], &pid);
    if expected != *metadata.key {
        return Err(ProgramError::InvalidSeeds);
    }
    if !mint_auth.is_signer || !payer.is_signer {
        return Err(ProgramError::MissingRequiredSignature);
    }
    if *metadata.owner != system_id() || !metadata.data_is_empty() {
        return Err(ProgramError::AccountAlreadyInitialized);
    }
    {
        let md = mint.try_borrow_data()?;
        if *mint.owner != anchor_spl::token::ID || md.len() < 82 || md[0..4] != 1u32.to_le_bytes() || md[4..36] != mint_auth.key.to_bytes() {
            return Err(ProgramError::Custom(0x4D45_5441)); // not the mint's authority
        }
    }
    let mut body = vec![4u8];
    body.extend_from_slice(update_auth.key.as_ref());
    body.extend_from_slice(mint.key.as_ref());
    body.extend_from_slice(data);
    let lamports = 890_880 + 6_960 * body.len() as u64;
    if **payer.lamports.borrow() < lamports {
        return Err(ProgramError::InsufficientFunds);
    }
    **payer.lamports.borrow_mut() -= lamports;
    **metadata.lamports.borrow_mut() += lamports;
    metadata.realloc(body.len(), true)?;
    metadata.try_borrow_mut_data()?.copy_from_slice(&body);
    metadata.assign(&pid);
    Ok(())
}

fn system_program(a: &[AccountInfo], data: &[u8]) -> ProgramResult {
    if data.len() < 4 {
        return Err(ProgramError::InvalidInstructionData);
    }
    let tag = u32::from_le_bytes(data[0..4].try_into().unwrap());
    let u64_at = |o: usize| -> Result<u64, ProgramError> { data.get(o..o + 8).map(|b| u64::from_le_bytes(b.try_into().unwrap())).ok_or(ProgramError::InvalidInstructionData) };
    let key_at = |o: usize| -> Result<Pubkey, ProgramError> { data.get(o..o + 32).map(|b| Pubkey::new_from_array(b.try_into().unwrap())).ok_or(ProgramError::InvalidInstructionData) };
    let transfer = |from: &AccountInfo, to: &AccountInfo, lamports: u64| -> ProgramResult {
        if !from.is_signer {
            return Err(ProgramError::MissingRequiredSignature);
        }
        if !from.data_is_empty() || *from.owner != system_id() {
            return Err(ProgramError::InvalidArgument);
        }
        if **from.lamports.borrow() < lamports {
            return Err(ProgramError::InsufficientFunds);
        }
        **from.lamports.borrow_mut() -= lamports;
        **to.lamports.borrow_mut() += lamports;
        Ok(())
    };
    match tag {
        0 => {
            // CreateAccount { lamports, space, owner }
            let (lamports, space, owner) = (u64_at(4)?, u64_at(12)?, key_at(20)?);
            let (from, to) = (a.first().ok_or(ProgramError::NotEnoughAccountKeys)?, a.get(1).ok_or(ProgramError::NotEnoughAccountKeys)?);
            if !to.is_signer {
                return Err(ProgramError::MissingRequiredSignature);
            }
            if **to.lamports.borrow() > 0 || !to.data_is_empty() || *to.owner != system_id() {
                return Err(ProgramError::AccountAlreadyInitialized);
            }
            transfer(from, to, lamports)?;
            to.realloc(space as usize, true)?;
            to.assign(&owner);
            Ok(())
        }
        1 => {
            let owner = key_at(4)?;
            let acc = a.first().ok_or(ProgramError::NotEnoughAccountKeys)?;
            if !acc.is_signer {
                return Err(ProgramError::MissingRequiredSignature);
            }
            acc.assign(&owner);
            Ok(())
        }
        2 => {
            let lamports = u64_at(4)?;
            transfer(a.first().ok_or(ProgramError::NotEnoughAccountKeys)?, a.get(1).ok_or(ProgramError::NotEnoughAccountKeys)?, lamports)
        }
        8 => {
            let space = u64_at(4)?;
            let acc = a.first().ok_or(ProgramError::NotEnoughAccountKeys)?;
            if !acc.is_signer {
                return Err(ProgramError::MissingRequiredSignature);
            }
            if !acc.data_is_empty() || *acc.owner != system_id() {
                return Err(ProgramError::AccountAlreadyInitialized);
            }
            acc.realloc(space as usize, true)?;
            Ok(())
        }
        _ => Err(ProgramError::InvalidInstructionData),
    }
}

// ------------------------------------------------------------------------------------------------
// the executor
// ------------------------------------------------------------------------------------------------
impl Bank {
    pub fn new(now: i64) -> Bank {
        Bank { accts: BTreeMap::new(), now, epoch: 100 }
    }
    pub fn set(&mut self, key: Pubkey, owner: Pubkey, lamports: u64, data: Vec<u8>) {
        self.accts.insert(key, Acct { owner, lamports, data, executable: false });
    }
    pub fn set_program(&mut self, key: Pubkey) {
        self.accts.insert(key, Acct { owner: Pubkey::new_from_array([2u8; 32]), lamports: 1, data: vec![], executable: true });
    }
    pub fn get(&self, key: &Pubkey) -> Acct {
        self.accts.get(key).cloned().unwrap_or(Acct { owner: system_id(), lamports: 0, data: vec![], executable: false })
    }
    pub fn data(&self, key: &Pubkey) -> Vec<u8> {
        self.get(key).data
    }

    /// run one instruction of the whirlpool program
    pub fn execute(&mut self, metas: &[Meta], data: &[u8]) -> (Result<(), ExecError>, ExecOut) {
        install();
        let program_id = ::whirlpool::ID;
        CLOCK.with(|c| c.set((self.now, self.epoch)));
        CALLER.with(|c| c.set(program_id));
        OUT.with(|o| *o.borrow_mut() = ExecOut::default());
        CPI_FAILED.with(|c| *c.borrow_mut() = None);
        // ---- serialize
        let mut first: BTreeMap<Pubkey, usize> = BTreeMap::new();
        let mut buf: Vec<u8> = vec![];
        let mut offsets: Vec<Option<usize>> = vec![]; // offset of the account record (after the marker byte) for non-dups
        buf.extend_from_slice(&(metas.len() as u64).to_le_bytes());
        // privileges of a key are the union over its occurrences
        let priv_of = |k: &Pubkey| -> (bool, bool) { metas.iter().filter(|m| m.key == *k).fold((false, false), |acc, m| (acc.0 || m.signer, acc.1 || m.writable)) };
        for (i, m) in metas.iter().enumerate() {
            if let Some(j) = first.get(&m.key) {
                buf.push(*j as u8);
                buf.extend_from_slice(&[0u8; 7]);
                offsets.push(None);
                continue;
            }
            first.insert(m.key, i);
            let a = self.get(&m.key);
            let (signer, writable) = priv_of(&m.key);
            offsets.push(Some(buf.len()));
            buf.push(NON_DUP);
            buf.push(signer as u8);
            buf.push(writable as u8);
            buf.push(a.executable as u8);
            buf.extend_from_slice(&[0u8; 4]);
            buf.extend_from_slice(m.key.as_ref());
            buf.extend_from_slice(a.owner.as_ref());
            buf.extend_from_slice(&a.lamports.to_le_bytes());
            buf.extend_from_slice(&(a.data.len() as u64).to_le_bytes());
            buf.extend_from_slice(&a.data);
            buf.extend_from_slice(&vec![0u8; MAX_PERMITTED_DATA_INCREASE]);
            while buf.len() % 8 != 0 {
                buf.push(0);
            }
            buf.extend_from_slice(&0u64.to_le_bytes()); // rent epoch
        }
        buf.extend_from_slice(&(data.len() as u64).to_le_bytes());
        buf.extend_from_slice(data);
        buf.extend_from_slice(program_id.as_ref());
        // 8-byte aligned copy
        let mut aligned: Vec<u64> = vec![0u64; buf.len() / 8 + 2];
        let base = aligned.as_mut_ptr() as *mut u8;
        unsafe { std::ptr::copy_nonoverlapping(buf.as_ptr(), base, buf.len()) };
        // ---- run
        let rc = std::panic::catch_unwind(std::panic::AssertUnwindSafe(|| unsafe { entrypoint(base) }));
        let out = OUT.with(|o| o.borrow().clone());
        let cpi_failed = CPI_FAILED.with(|c| c.borrow_mut().take());
        let rc = match rc {
            _ if cpi_failed.is_some() => Err(ExecError::Code(cpi_failed.unwrap())),
            Ok(0) => Ok(()),
            Ok(c) => Err(ExecError::Code(c)),
            Err(p) => {
                let msg = p.downcast_ref::<String>().cloned().or_else(|| p.downcast_ref::<&str>().map(|s| s.to_string())).unwrap_or_else(|| "panic".to_string());
                Err(ExecError::Abort(msg))
            }
        };
        if rc.is_err() {
            return (rc, out);
        }
        // ---- read back + runtime rules
        let bytes = unsafe { std::slice::from_raw_parts(base, buf.len()) };
        let mut updates: Vec<(Pubkey, Acct, bool)> = vec![];
        let (mut lam_before, mut lam_after) = (0u128, 0u128);
        for (i, m) in metas.iter().enumerate() {
            let off = match offsets[i] {
                Some(o) => o,
                None => continue,
            };
            let before = self.get(&m.key);
            let owner = Pubkey::new_from_array(bytes[off + 40..off + 72].try_into().unwrap());
            let lamports = u64::from_le_bytes(bytes[off + 72..off + 80].try_into().unwrap());
            let len = u64::from_le_bytes(bytes[off + 80..off + 88].try_into().unwrap()) as usize;
            if len > before.data.len() + MAX_PERMITTED_DATA_INCREASE {
                return (Err(ExecError::Runtime(format!("account {} grew by more than 10240 bytes", m.key))), out);
            }
            let ndata = bytes[off + 88..off + 88 + len].to_vec();
            let after = Acct { owner, lamports, data: ndata, executable: before.executable };
            lam_before += before.lamports as u128;
            lam_after += after.lamports as u128;
            let (_, writable) = priv_of(&m.key);
            if !writable && after != before {
                return (Err(ExecError::Runtime(format!("read-only account {} was modified", m.key))), out);
            }
            if after.data != before.data && before.owner != program_id && before.owner != anchor_spl::token::ID && before.owner != anchor_spl::token_2022::ID && before.owner != system_id() {
                return (Err(ExecError::Runtime(format!("data of account {} changed but it is owned by {}", m.key, before.owner))), out);
            }
            updates.push((m.key, after, writable));
        }
        if lam_before != lam_after {
            return (Err(ExecError::Runtime(format!("lamports not conserved: {} -> {}", lam_before, lam_after))), out);
        }
        for (k, a, w) in updates {
            if w {
                self.accts.insert(k, a);
            }
        }
        (Ok(()), out)
    }
}
