import WP.Model.SwapLoop
/-
  Generic induction principle for the swap loop: a predicate on the loop state that every
  successful iteration (`swapStep`) preserves is preserved by the whole loop.
-/
namespace WP

theorem swapLoop_induct (c : SwapCtx) (P : SwapSt → Prop)
    (hstep : ∀ s s' nai nti ntp tgt, P s → swapStep c s nai nti ntp tgt = .ok s' → P s') :
    ∀ (fuel : Nat) (s s' : SwapSt) (inner : Option (Nat × Int × Nat × Nat)),
      P s → swapLoop c fuel s inner = .ok s' → P s' := by
  intro fuel
  induction fuel with
  | zero => intro s s' inner _ h; simp [swapLoop] at h
  | succ n ih =>
    intro s s' inner inv h
    cases inner with
    | none =>
      simp only [swapLoop] at h
      split at h
      · split at h
        · simp at h
        · exact ih s s' _ inv h
      · simp only [Except.ok.injEq] at h
        subst h; exact inv
    | some v =>
      obtain ⟨nai, nti, ntp, tgt⟩ := v
      simp only [swapLoop] at h
      split at h
      · simp at h
      · rename_i s1 hs1
        have inv1 := hstep s s1 nai nti ntp tgt inv hs1
        split at h
        · exact ih s1 s' none inv1 h
        · exact ih s1 s' _ inv1 h

end WP
