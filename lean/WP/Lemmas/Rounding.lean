import Mathlib.Tactic.Linarith
import Mathlib.Tactic.Ring
import Mathlib.Algebra.Order.Ring.Nat
/-  Rounding lemmas for natural-number division (ceil / floor characterisations). -/
namespace WP

/-- exact ceiling division -/
def cdiv (n d : Nat) : Nat := (n + d - 1) / d

theorem cdiv_le_iff {n d k : Nat} (hd : 0 < d) : cdiv n d ≤ k ↔ n ≤ k * d := by
  unfold cdiv
  rw [← Nat.lt_succ_iff, Nat.div_lt_iff_lt_mul hd]
  constructor
  · intro h; have : n + d - 1 < k * d + d := by rw [Nat.succ_mul] at h; exact h
    omega
  · intro h; rw [Nat.succ_mul]; omega

theorem lt_cdiv_iff {n d k : Nat} (hd : 0 < d) : k < cdiv n d ↔ k * d < n := by
  rw [← not_le, cdiv_le_iff hd, not_le]

theorem le_cdiv_mul {n d : Nat} (hd : 0 < d) : n ≤ cdiv n d * d := (cdiv_le_iff hd).mp (le_refl _)

theorem floor_le_cdiv (n d : Nat) (hd : 0 < d) : n / d ≤ cdiv n d := by
  unfold cdiv
  exact Nat.div_le_div_right (by omega)

theorem cdiv_le_floor_succ (n d : Nat) (hd : 0 < d) : cdiv n d ≤ n / d + 1 := by
  rw [cdiv_le_iff hd]
  have := Nat.lt_succ_iff.mpr (le_refl (n / d))
  have h2 : n < (n / d + 1) * d := by
    have := Nat.lt_mul_div_succ n hd
    rw [Nat.mul_comm] at this; exact this
  omega

/-- the `if n % d > 0 then n / d + 1 else n / d` idiom of the program is the exact ceiling -/
theorem roundUp_eq_cdiv (n d : Nat) (hd : 0 < d) :
    (if n % d > 0 then n / d + 1 else n / d) = cdiv n d := by
  have hdm := Nat.div_add_mod n d
  split
  · rename_i h
    apply le_antisymm
    · rw [Nat.succ_le_iff, lt_cdiv_iff hd]
      have : d * (n / d) < n := by omega
      rw [Nat.mul_comm]; exact this
    · exact cdiv_le_floor_succ n d hd
  · rename_i h
    have h0 : n % d = 0 := by omega
    apply le_antisymm
    · exact floor_le_cdiv n d hd
    · rw [cdiv_le_iff hd]
      have : d * (n / d) = n := by omega
      rw [Nat.mul_comm]; omega

theorem cdiv_mono_left {a b d : Nat} (h : a ≤ b) : cdiv a d ≤ cdiv b d := by
  unfold cdiv; exact Nat.div_le_div_right (by omega)

theorem cdiv_zero (d : Nat) (hd : 0 < d) : cdiv 0 d = 0 := by
  unfold cdiv; simp; omega

end WP

namespace WP
theorem cdiv_mul_right (k d : Nat) (hd : 0 < d) : cdiv (k * d) d = k := by
  apply le_antisymm
  · rw [cdiv_le_iff hd]
  · by_contra hc
    have : cdiv (k * d) d + 1 ≤ k := by omega
    have h1 := le_cdiv_mul (n := k * d) hd
    have h2 : (cdiv (k * d) d + 1) * d ≤ k * d := Nat.mul_le_mul_right _ this
    have h3 : (cdiv (k * d) d + 1) * d = cdiv (k * d) d * d + d := by ring
    omega
end WP
