/-
  Basic vocabulary of the model: the program's error codes (names as in
  programs/whirlpool/src/errors.rs), `R = Except Err`, and fixed-width helpers.
  No Mathlib import anywhere under WP/Model (the driver is linked as a `lean_exe`).
-/
namespace WP

inductive Err where
  | DivideByZero | MulDivOverflow | MultiplicationShiftRightOverflow | MultiplicationOverflow
  | NumberCastError | NumberDownCastError | TokenMaxExceeded | TokenMinSubceeded | SqrtPriceOutOfBounds
  | LiquidityOverflow | LiquidityUnderflow | LiquidityNetError | LiquidityTooHigh | LiquidityZero
  | InvalidTickIndex | TickNotFound | InvalidTickArraySequence | TickArraySequenceInvalidIndex
  | TickArrayIndexOutofBounds | InvalidTickSpacing | InvalidSqrtPriceLimitDirection
  | ZeroTradableAmount | AmountOutBelowMinimum | AmountInAboveMaximum | AmountCalcOverflow
  | AmountRemainingOverflow | PartialFillError | InvalidTimestamp | InvalidTimestampConversion
  | FeeRateMaxExceeded | ProtocolFeeRateMaxExceeded | RewardVaultAmountInsufficient
  | InvalidRewardIndex | RewardNotInitialized | ClosePositionNotEmpty | InvalidStartTick
  | DifferentWhirlpoolTickArrayAccount | InvalidBundleIndex | BundledPositionAlreadyOpened
  | BundledPositionAlreadyClosed | PositionBundleNotDeletable | TransferFeeCalculationError
  | InvalidAdaptiveFeeConstants | TradeIsNotEnabled | SameTickRangeNotAllowed
  | FullRangeOnlyPool | InvalidTradeEnableTimestamp | InvalidIntermediaryMint
  | DuplicateTwoHopPool | IntermediateTokenAmountMismatch | SqrtPriceOutOfBoundsLimit
  | UnsupportedTokenMint | OperationNotAllowedOnLockedPosition | PositionAlreadyLocked
  | TokenMinSubceededThreshold | InsufficientFunds | NoSuchPosition | PositionExists | NoArrays
  | InvalidTokenMintOrder | AdaptiveFeeConstantsUnchanged | Panic | Other
  deriving DecidableEq, Repr, Inhabited

abbrev R := Except Err

def Err.name (e : Err) : String :=
  let s := toString (repr e)
  -- `WP.Err.Foo` -> `Foo`
  match s.splitOn "." with
  | [] => s
  | l => l.getLast!

def U64_MAX : Nat := 18446744073709551615
def U128_MAX : Nat := 340282366920938463463374607431768211455
def TWO64 : Nat := 18446744073709551616
def TWO128 : Nat := 340282366920938463463374607431768211456
def TWO256 : Nat := TWO128 * TWO128

/-- `u128::checked_mul` -/
def checkedMul128 (a b : Nat) (e : Err) : R Nat :=
  if a * b ≤ U128_MAX then .ok (a * b) else .error e

/-- `x.try_into::<u64>()` of a u128 with `?` through `From<TryFromIntError>` -/
def toU64 (x : Nat) : R Nat := if x ≤ U64_MAX then .ok x else .error .NumberCastError

end WP
