import WP.Model.DynArray
/-
  The Pinocchio tick-offset routine (pinocchio/state/whirlpool/tick_array/mod.rs
  `check_is_usable_tick_and_get_offset`): in-bounds check, then a division-free shift-subtract loop
  (divisor = ts·64, ts·32, …, ts; multiplier = 64, 32, …, 1), usable iff the remainder is 0.
  And `Tick::check_is_valid_start_tick`, which every initialized tick array's start index passed.
-/
namespace WP
open WP.Gen

/-- the `while divisor >= tick_spacing` loop; `fuel` only makes the definition total -/
def pinoLoop : Nat → Nat → Nat → Nat → Nat → Nat → Nat × Nat
  | 0, _, rem, off, _, _ => (rem, off)
  | fuel + 1, ts, rem, off, divisor, mult =>
    if divisor ≥ ts then
      if rem ≥ divisor then pinoLoop fuel ts (rem - divisor) (off + mult) (divisor / 2) (mult / 2)
      else pinoLoop fuel ts rem off (divisor / 2) (mult / 2)
    else (rem, off)

/-- `check_is_out_of_bounds` -/
def outOfBounds (t : Int) : Bool := !(decide (MIN_TICK_INDEX ≤ t) && decide (t ≤ MAX_TICK_INDEX))

/-- `check_is_usable_tick_and_get_offset` -/
def pinoUsableOffset (start tick : Int) (ts : Nat) : Option Nat :=
  if !inBounds start tick ts || outOfBounds tick then none
  else
    let r := pinoLoop 32 ts (tick - start).natAbs 0 (ts * 64) 64
    if r.1 = 0 then some r.2 else none

/-- `Tick::check_is_valid_start_tick` (Rust `%` is the truncating remainder, `Int.tmod`) -/
def validStartTick (t : Int) (ts : Nat) : Bool :=
  let tia : Int := (TICK_ARRAY_SIZE : Int) * ts
  if outOfBounds t then
    if t > MIN_TICK_INDEX then false
    else decide (t = MIN_TICK_INDEX - (Int.tmod MIN_TICK_INDEX tia + tia))
  else decide (Int.tmod t tia = 0)

end WP
