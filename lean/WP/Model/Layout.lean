/-
  Byte layouts of account types: a type is a primitive of a given size, an array, or a named struct
  (all with alignment 1: Borsh, #[repr(C, packed)] and #[repr(C)] structs over byte arrays).
  `layout` lists the primitive leaves with their offsets; u8 arrays are one `bytes` leaf.
-/
namespace WP

inductive Ty where
  | prim (kind : String) (size : Nat)
  | arr (t : Ty) (n : Nat)
  | struct (name : String)
  deriving Repr, Inhabited

inductive PathElem where
  | field (name : String)
  | idx (i : Nat)
  deriving Repr, DecidableEq

structure Leaf where
  path : List PathElem
  kind : String
  offset : Nat
  size : Nat
  deriving Repr, DecidableEq

abbrev StructEnv := List (String × List (String × Ty))

def lookupStruct (env : StructEnv) (n : String) : Option (List (String × Ty)) :=
  match env with
  | [] => none
  | (k, v) :: r => if k == n then some v else lookupStruct r n

/-- leaves (path, kind, size) in declaration order.  `fuel` bounds the nesting depth; running out of
    fuel or meeting an unknown struct yields a leaf of kind "?" so that no comparison succeeds by accident -/
def flatten (env : StructEnv) : Nat → List PathElem → Ty → List (List PathElem × String × Nat)
  | 0, path, _ => [(path, "?", 0)]
  | _ + 1, path, .prim k s => [(path, k, s)]
  | f + 1, path, .arr t n =>
    match t with
    | .prim "u8" 1 => [(path, "bytes", n)]
    | _ => (List.range n).flatMap fun i => flatten env f (path ++ [.idx i]) t
  | f + 1, path, .struct n =>
    match lookupStruct env n with
    | none => [(path, "?", 0)]
    | some fs => fs.flatMap fun ft => flatten env f (path ++ [.field ft.1]) ft.2

def withOffsets (start : Nat) : List (List PathElem × String × Nat) → List Leaf
  | [] => []
  | (p, k, s) :: r => { path := p, kind := k, offset := start, size := s } :: withOffsets (start + s) r

def layout (env : StructEnv) (name : String) (start : Nat := 0) : List Leaf :=
  withOffsets start (flatten env 6 [] (.struct name))

def totalSize (l : List Leaf) : Nat :=
  match l.getLast? with
  | none => 0
  | some x => x.offset + x.size

end WP
