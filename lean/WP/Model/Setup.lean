import WP.Model.Admission
import WP.Model.PinoOffset
/-
  The initialisers as instructions (accounts struct, then handler), for well-formed accounts:
  initialize_config, initialize_fee_tier, initialize_adaptive_fee_tier, initialize_reward(_v2),
  initialize_tick_array, initialize_dynamic_tick_array.
  `auth`: 0 the required authority signs · 1 a stranger signs in its slot · 2 the key in the slot does not sign.
-/
namespace WP
open WP.Gen

/-- `initialize_config`: only an admin key may fund it; the default protocol fee rate is bounded -/
def initializeConfigIx (admin : Bool) (proto : Nat) : Except String Nat :=
  if !admin then .error "ConstraintRaw"
  else match updateProtocolFeeRate proto with
    | .error e => .error e.name
    | .ok p => .ok p

/-- `initialize_fee_tier` (`taken`: the tier address already holds an account; `wrongAddr`: the account offered
    for creation is not at the address derived from config and spacing) -/
def initializeFeeTierIx (auth : Nat) (taken wrongAddr : Bool) (ts fee : Nat) : Except String (Nat × Nat) :=
  if auth = 2 then .error "AccountNotSigner"
  else if wrongAddr then .error "ConstraintSeeds"
  else if taken then .error "AccountAlreadyInitialized"
  else if auth = 1 then .error "ConstraintAddress"
  else if ts = 0 then .error "InvalidTickSpacing"
  else match updateFeeRate fee with
    | .error e => .error e.name
    | .ok f => .ok (ts, f)

/-- `initialize_adaptive_fee_tier` -/
def initializeAdaptiveFeeTierIx (auth : Nat) (taken wrongAddr : Bool) (idx ts fee : Nat) (c : AfConstants) : Except String (Nat × Nat) :=
  if auth = 2 then .error "AccountNotSigner"
  else if wrongAddr then .error "ConstraintSeeds"
  else if taken then .error "AccountAlreadyInitialized"
  else if auth = 1 then .error "ConstraintAddress"
  else if idx = ts then .error "InvalidFeeTierIndex"
  else if ts = 0 then .error "InvalidTickSpacing"
  else match updateFeeRate fee with
    | .error e => .error e.name
    | .ok f => if !validateConstants ts c then .error "InvalidAdaptiveFeeConstants" else .ok (ts, f)

/-- `initialize_reward` (v2 = false: SPL Token mints only, no admission) / `initialize_reward_v2`, on a pool whose
    first `ninit` rewards are initialized -/
def initializeRewardIx (v2 : Bool) (auth idx ninit : Nat) (m : MintIn) : Except String Nat :=
  if auth = 2 then .error "AccountNotSigner"
  else if !v2 && m.token2022 then .error "AccountOwnedByWrongProgram"
  else if auth = 1 then .error "ConstraintAddress"
  else if v2 && m.badge = 2 then .error "ConstraintSeeds"
  else
    match (if v2 then verifySupportedTokenMint m else .ok ()) with
    | .error e => .error e
    | .ok _ =>
      -- `Whirlpool::initialize_reward`: the index must be the lowest uninitialized one
      if idx ≥ 3 ∨ ninit ≥ 3 ∨ idx ≠ ninit then .error "InvalidRewardIndex" else .ok idx

/-- what sits at a tick array's address before the initialiser runs -/
inductive TarrPre where
  | nothing | fixed | dynamic | foreign
  | wrongAddress      -- the account offered is not at the address derived from pool and start index
  deriving DecidableEq, Repr

inductive TarrOut where
  | createdFixed | createdDynamic | existing
  deriving DecidableEq, Repr

/-- `initialize_tick_array` (dynamic = false) / `initialize_dynamic_tick_array(start, idempotent)` -/
def initializeTickArrayIx (dynamic idem : Bool) (pre : TarrPre) (start : Int) (ts : Nat) : Except String TarrOut :=
  if pre = .wrongAddress then .error "ConstraintSeeds"
  else if !dynamic then
    if pre ≠ .nothing then .error "AccountAlreadyInitialized"
    else if !validStartTick start ts then .error "InvalidStartTick"
    else .ok .createdFixed
  else
    match pre with
    | .wrongAddress => .error "ConstraintSeeds"
    | .foreign => .error "AccountOwnedByWrongProgram"
    | .fixed | .dynamic => if idem then .ok .existing else .error "AccountDiscriminatorAlreadySet"
    | .nothing => if !validStartTick start ts then .error "InvalidStartTick" else .ok .createdDynamic

/-- `initialize_config_extension` -/
def initializeConfigExtensionIx (auth : Nat) (taken wrongAddr : Bool) : Except String Unit :=
  if auth = 2 then .error "AccountNotSigner"
  else if wrongAddr then .error "ConstraintSeeds"
  else if taken then .error "AccountAlreadyInitialized"
  else if auth = 1 then .error "ConstraintAddress"
  else .ok ()

/-- `initialize_token_badge`: `feature` = the config's TOKEN_BADGE flag, `taken` = a badge already sits at the
    address, `otherExt` = the extension account passed belongs to another config (its badge authority signs) -/
def initializeTokenBadgeIx (auth : Nat) (feature taken otherExt : Bool) : Except String Unit :=
  if auth = 2 then .error "AccountNotSigner"
  else if taken then .error "AccountAlreadyInitialized"
  else if otherExt then .error "ConstraintHasOne"
  else if auth = 1 then .error "ConstraintAddress"
  else if !feature then .error "FeatureIsNotEnabled"
  else .ok ()

/-- `delete_token_badge` -/
def deleteTokenBadgeIx (auth : Nat) (feature present : Bool) : Except String Unit :=
  if auth = 2 then .error "AccountNotSigner"
  else if !present then .error "AccountNotInitialized"
  else if auth = 1 then .error "ConstraintAddress"
  else if !feature then .error "FeatureIsNotEnabled"
  else .ok ()

/-- `initialize_pool` (v1): SPL Token mints only, no admission table -/
def initializePoolV1 (keyA keyB : Nat) (t22a t22b : Bool) (price ts tierTs fee proto : Nat) : Except String PoolD :=
  if t22a || t22b then .error "AccountOwnedByWrongProgram"
  else if tierTs ≠ ts then .error "ConstraintRaw"
  else match initializePoolChecks keyA keyB price ts fee proto with
    | .error e => .error e.name
    | .ok p => .ok p

end WP
