import WP.Model.Pool
/-
  Model of position lifecycle helpers: validate_tick_range_for_whirlpool (state/position.rs and the
  Pinocchio copy), Position::reset_position_range, is_position_empty,
  resolve_one_sided_position_ticks (util/shared.rs), PositionBundle bitmap (state/position_bundle.rs).
-/
namespace WP
open WP.Gen

def I32_MIN : Int := -2147483648
def I32_MAX : Int := 2147483647

/-- `Tick::full_range_indexes` (i32 division truncates toward zero) -/
def fullRangeIndexes (ts : Nat) : Int × Int :=
  (Int.tdiv MIN_TICK_INDEX ts * ts, Int.tdiv MAX_TICK_INDEX ts * ts)

/-- `validate_tick_range_for_whirlpool` -/
def validateTickRange (ts : Nat) (lo hi : Int) : R Unit :=
  if !(isUsableTick lo ts) || !(isUsableTick hi ts) || decide (lo ≥ hi) then .error .InvalidTickIndex
  else if ts ≥ FULL_RANGE_ONLY_TICK_SPACING_THRESHOLD &&
      (decide (lo ≠ (fullRangeIndexes ts).1) || decide (hi ≠ (fullRangeIndexes ts).2)) then .error .FullRangeOnlyPool
  else .ok ()

/-- `Position::is_position_empty` (Pinocchio: with `keep_owed` only the liquidity must be zero) -/
def isPositionEmpty (p : PositionD) (keepOwed : Bool) : Bool :=
  if keepOwed then p.liq == 0
  else p.liq == 0 && p.owedA == 0 && p.owedB == 0 && p.rewards.all (·.owed == 0)

/-- `reset_position_range` -/
def resetPositionRange (ts : Nat) (p : PositionD) (newLo newHi : Int) (keepOwed : Bool) : R PositionD :=
  if !isPositionEmpty p keepOwed then .error .ClosePositionNotEmpty
  else if newLo = p.lower && newHi = p.upper then .error .SameTickRangeNotAllowed
  else
    match validateTickRange ts newLo newHi with
    | .error e => .error e
    | .ok _ => .ok { p with lower := newLo, upper := newHi, cpA := 0, cpB := 0,
                            rewards := p.rewards.map fun r => { r with checkpoint := 0 } }

/-- `snap_tick_up` / `snap_tick_down` (rem_euclid) -/
def snapUp (a ts : Int) : Int := if a % ts = 0 then a else a + (ts - a % ts)
def snapDown (a ts : Int) : Int := a - a % ts

/-- the derived lower bound: first usable tick at or above the price -/
def resolveLower (ts price : Nat) : R Int :=
  let pt := ti price
  let anchor := if sp pt = price then pt else pt + 1
  if snapUp anchor ts > MAX_TICK_INDEX then .error .InvalidTickIndex else .ok (snapUp anchor ts)

/-- the derived upper bound: last usable tick at or below the price -/
def resolveUpper (ts price : Nat) : R Int :=
  if snapDown (ti price) ts < MIN_TICK_INDEX then .error .InvalidTickIndex else .ok (snapDown (ti price) ts)

/-- `resolve_one_sided_position_ticks` -/
def resolveOneSided (lo hi : Int) (ts price : Nat) : R (Int × Int) :=
  if (lo ≠ I32_MIN ∧ hi ≠ I32_MAX) ∨ ts ≥ FULL_RANGE_ONLY_TICK_SPACING_THRESHOLD then .ok (lo, hi)
  else if lo = I32_MIN ∧ hi = I32_MAX then .error .InvalidTickIndex
  else if lo = I32_MIN then
    match resolveLower ts price with
    | .error e => .error e
    | .ok l => .ok (l, hi)
  else
    match resolveUpper ts price with
    | .error e => .error e
    | .ok u => .ok (lo, u)

/-- position bundle bitmap: 32 bytes -/
def bundleBit (bm : List Nat) (idx : Nat) : Bool := (bm.getD (idx / 8) 0 / 2 ^ (idx % 8)) % 2 = 1

def bundleUpdate (bm : List Nat) (idx : Nat) (open_ : Bool) : R (List Nat) :=
  if idx ≥ 256 then .error .InvalidBundleIndex
  else
    let opened := bundleBit bm idx
    if open_ && opened then .error .BundledPositionAlreadyOpened
    else if !open_ && !opened then .error .BundledPositionAlreadyClosed
    else .ok (bm.set (idx / 8) (Nat.xor (bm.getD (idx / 8) 0) (2 ^ (idx % 8))))

def bundleDeletable (bm : List Nat) : Bool := bm.all (· == 0)

end WP
