import WP.Gen.Consts
import WP.Gen.TickConsts
/-
  Model of programs/whirlpool/src/math/tick_math.rs.
  Written in a kernel-friendly style (`cond`, `Nat.beq`, `Nat.land`, `Nat.shiftRight`,
  `Nat.mul`: all GMP-accelerated in the kernel) because C09 enumerates it over every tick.
  The 38 ladder literals and the 4 log constants come from WP.Gen (regenerated from source).
-/
namespace WP
open WP.Gen

/-- `if tick & m != 0 { ratio = mul_shift_96(ratio, c) }` -/
@[inline] def rung96 (t m r c : Nat) : Nat :=
  cond (Nat.beq (Nat.land t m) 0) r (Nat.shiftRight (Nat.mul r c) 96)

/-- `if abs_tick & m != 0 { ratio = (ratio * c) >> 64 }` -/
@[inline] def rung64 (t m r c : Nat) : Nat :=
  cond (Nat.beq (Nat.land t m) 0) r (Nat.shiftRight (Nat.mul r c) 64)

/-- `get_sqrt_price_positive_tick`, before the final `>> 32` -/
def spPosRaw (t : Nat) : Nat :=
  let r := cond (Nat.beq (Nat.land t 1) 0) POS_EVEN POS_ODD
  let r := rung96 t 2 r POS_1
  let r := rung96 t 4 r POS_2
  let r := rung96 t 8 r POS_3
  let r := rung96 t 16 r POS_4
  let r := rung96 t 32 r POS_5
  let r := rung96 t 64 r POS_6
  let r := rung96 t 128 r POS_7
  let r := rung96 t 256 r POS_8
  let r := rung96 t 512 r POS_9
  let r := rung96 t 1024 r POS_10
  let r := rung96 t 2048 r POS_11
  let r := rung96 t 4096 r POS_12
  let r := rung96 t 8192 r POS_13
  let r := rung96 t 16384 r POS_14
  let r := rung96 t 32768 r POS_15
  let r := rung96 t 65536 r POS_16
  let r := rung96 t 131072 r POS_17
  let r := rung96 t 262144 r POS_18
  r

def spPos (t : Nat) : Nat := Nat.shiftRight (spPosRaw t) 32

/-- `get_sqrt_price_negative_tick` on `abs_tick` -/
def spNeg (t : Nat) : Nat :=
  let r := cond (Nat.beq (Nat.land t 1) 0) NEG_EVEN NEG_ODD
  let r := rung64 t 2 r NEG_1
  let r := rung64 t 4 r NEG_2
  let r := rung64 t 8 r NEG_3
  let r := rung64 t 16 r NEG_4
  let r := rung64 t 32 r NEG_5
  let r := rung64 t 64 r NEG_6
  let r := rung64 t 128 r NEG_7
  let r := rung64 t 256 r NEG_8
  let r := rung64 t 512 r NEG_9
  let r := rung64 t 1024 r NEG_10
  let r := rung64 t 2048 r NEG_11
  let r := rung64 t 4096 r NEG_12
  let r := rung64 t 8192 r NEG_13
  let r := rung64 t 16384 r NEG_14
  let r := rung64 t 32768 r NEG_15
  let r := rung64 t 65536 r NEG_16
  let r := rung64 t 131072 r NEG_17
  let r := rung64 t 262144 r NEG_18
  r

/-- `sqrt_price_from_tick_index` -/
def sp (t : Int) : Nat :=
  match t with
  | Int.ofNat n => spPos n
  | Int.negSucc n => spNeg (n + 1)

/-- one iteration of the log2 loop on the normalised mantissa `r ∈ [2^63, 2^64)`:
    returns (new r, is_r_more_than_two) -/
@[inline] def log2Step (r : Nat) : Nat × Nat :=
  let r2 := Nat.mul r r
  let m := Nat.shiftRight r2 127
  (Nat.shiftRight r2 (63 + m), m)

/-- `n` iterations starting at bit `2^k`, accumulating `bit * is_r_more_than_two` -/
def log2Iter : Nat → Nat → Nat → Nat → Nat
  | 0, _, _, acc => acc
  | n + 1, r, bit, acc =>
    let s := log2Step r
    log2Iter n s.1 (Nat.shiftRight bit 1) (acc + bit * s.2)

/-- the mantissa normalisation `r = p >> (msb-63)` or `p << (63-msb)` -/
def normMantissa (p : Nat) : Nat :=
  let msb := Nat.log2 p
  cond (Nat.ble 64 msb) (Nat.shiftRight p (msb - 63)) (Nat.shiftLeft p (63 - msb))

/-- `log2p_x32` of `tick_index_from_sqrt_price` (for `p > 0`) -/
def log2pX32 (p : Nat) : Int :=
  let msb := Nat.log2 p
  let intPart : Int := ((msb : Int) - 64) * 4294967296
  let frac64 := log2Iter BIT_PRECISION (normMantissa p) 9223372036854775808 0
  intPart + (Nat.shiftRight frac64 32 : Nat)

def logbpX64 (p : Nat) : Int := log2pX32 p * LOG_B_2_X32

/-- arithmetic `>> 64` on i128 = floor division by 2^64 -/
def sar64 (x : Int) : Int := x / 18446744073709551616

def tickLow (p : Nat) : Int := sar64 (logbpX64 p - LOG_B_P_ERR_MARGIN_LOWER_X64)
def tickHigh (p : Nat) : Int := sar64 (logbpX64 p + LOG_B_P_ERR_MARGIN_UPPER_X64)

/-- `tick_index_from_sqrt_price` -/
def ti (p : Nat) : Int :=
  let lo := tickLow p
  let hi := tickHigh p
  if lo = hi then lo else if sp hi ≤ p then hi else lo

end WP
