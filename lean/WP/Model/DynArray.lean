import WP.Model.SwapLoop
/-
  Byte-level model of the dynamic tick array (state/dynamic_tick_array.rs `DynamicTickArrayLoader`
  and pinocchio/state/whirlpool/tick_array/dynamic_tick_array.rs `MemoryMappedDynamicTickArray`),
  and of the fixed tick array it must behave like.
  The tick data area is a byte list: per slot either [0] or 1 :: 112 payload bytes, in slot order,
  followed by padding.  `rotR` / `rotL` are `<[u8]>::rotate_right / rotate_left`.
-/
namespace WP

def DYN_TICK_LEN : Nat := 112

/-- little-endian bytes of `x` (n bytes) -/
def leBytes : Nat → Nat → List Nat
  | 0, _ => []
  | n + 1, x => (x % 256) :: leBytes n (x / 256)

def leVal : List Nat → Nat
  | [] => 0
  | b :: r => b + 256 * leVal r

def encI128 (x : Int) : Nat := if x ≥ 0 then x.toNat else (x + (TWO128 : Int)).toNat
def decI128 (n : Nat) : Int := if n ≥ TWO128 / 2 then (n : Int) - TWO128 else n

/-- Borsh encoding of `DynamicTickData` (112 bytes) -/
def encTick (t : TickData) : List Nat :=
  leBytes 16 (encI128 t.net) ++ leBytes 16 t.gross ++ leBytes 16 t.fgoA ++ leBytes 16 t.fgoB ++
    leBytes 16 (t.rgo.getD 0 0) ++ leBytes 16 (t.rgo.getD 1 0) ++ leBytes 16 (t.rgo.getD 2 0)

def decTick (b : List Nat) : TickData :=
  { initialized := true, net := decI128 (leVal (b.take 16)), gross := leVal ((b.drop 16).take 16),
    fgoA := leVal ((b.drop 32).take 16), fgoB := leVal ((b.drop 48).take 16),
    rgo := [leVal ((b.drop 64).take 16), leVal ((b.drop 80).take 16), leVal ((b.drop 96).take 16)] }

def rotR (n : Nat) (s : List Nat) : List Nat := s.drop (s.length - n) ++ s.take (s.length - n)
def rotL (n : Nat) (s : List Nat) : List Nat := s.drop n ++ s.take n

structure DynArr where
  start : Int
  bitmap : Nat
  data : List Nat
  deriving Repr

/-- `(tick_bitmap & ((1 << i) - 1)).count_ones()` -/
def popBelow (bm i : Nat) : Nat := (List.range i).countP fun k => bm.testBit k

/-- `byte_offset` -/
def byteOffset (bm i : Nat) : Nat := popBelow bm i * (DYN_TICK_LEN + 1) + (i - popBelow bm i)

/-- `check_in_array_bounds` -/
def inBounds (start t : Int) (ts : Nat) : Bool :=
  decide (t ≥ start) && decide (t < start + (TICK_ARRAY_SIZE : Int) * ts)

/-- slot of a tick index, with the checks shared by get_tick / update_tick:
    in array bounds, usable tick (else TickNotFound) -/
def slotOf (start : Int) (tickIndex : Int) (ts : Nat) : R Nat :=
  if !inBounds start tickIndex ts || !isUsableTick tickIndex ts then .error .TickNotFound
  else if ts = 0 then .error .InvalidTickSpacing
  else if (tickIndex - start) / (ts : Int) < 0 then .error .TickNotFound
  else .ok ((tickIndex - start) / (ts : Int)).toNat

/-- write `bytes` at `off` -/
def writeAt (d : List Nat) (off : Nat) (bytes : List Nat) : List Nat :=
  d.take off ++ bytes ++ d.drop (off + bytes.length)

/-- the part of `get_tick` after the slot lookup -/
def DynArr.getAt (a : DynArr) (i : Nat) : R TickData :=
  let off := byteOffset a.bitmap i
  let tag := a.data.getD off 0
  if tag = 0 then .ok {}
  else if tag = 1 then .ok (decTick ((a.data.drop (off + 1)).take DYN_TICK_LEN))
  else .error .Other      -- Borsh: unexpected variant index

/-- `get_tick` of the dynamic array -/
def DynArr.getTick (a : DynArr) (tickIndex : Int) (ts : Nat) : R TickData :=
  match slotOf a.start tickIndex ts with
  | .error e => .error e
  | .ok i => a.getAt i

/-- the part of `update_tick` after the slot lookup -/
def DynArr.updateAt (a : DynArr) (i : Nat) (u : TickData) : R DynArr :=
  let off := byteOffset a.bitmap i
  let tag := a.data.getD off 0
  if tag ≠ 0 && tag ≠ 1 then .error .Other
  else
    let wasInit := decide (tag = 1)
    let data1 :=
      if !wasInit && u.initialized then a.data.take off ++ rotR DYN_TICK_LEN (a.data.drop off)
      else if wasInit && !u.initialized then a.data.take off ++ rotL DYN_TICK_LEN (a.data.drop off)
      else a.data
    let bm1 :=
      if !wasInit && u.initialized then a.bitmap ||| (2 ^ i)
      else if wasInit && !u.initialized then a.bitmap &&& ((TWO128 - 1) ^^^ 2 ^ i)
      else a.bitmap
    let bytes := if u.initialized then 1 :: encTick u else [0]
    .ok { a with data := writeAt data1 off bytes, bitmap := bm1 }

/-- `update_tick` of the dynamic array -/
def DynArr.updateTick (a : DynArr) (tickIndex : Int) (ts : Nat) (u : TickData) : R DynArr :=
  match slotOf a.start tickIndex ts with
  | .error e => .error e
  | .ok i => a.updateAt i u

/-- Pinocchio `get_tick` after the slot lookup: any non-zero tag byte is read as initialized -/
def DynArr.getAtP (a : DynArr) (i : Nat) : R TickData :=
  let off := byteOffset a.bitmap i
  let tag := a.data.getD off 0
  if tag = 0 then .ok {}
  else .ok (decTick ((a.data.drop (off + 1)).take DYN_TICK_LEN))

/-- Pinocchio `update_tick` after the slot lookup: `tick_initialized = ticks[byte_offset] != 0` -/
def DynArr.updateAtP (a : DynArr) (i : Nat) (u : TickData) : R DynArr :=
  let off := byteOffset a.bitmap i
  let tag := a.data.getD off 0
  let wasInit := !decide (tag = 0)
  let data1 :=
    if !wasInit && u.initialized then a.data.take off ++ rotR DYN_TICK_LEN (a.data.drop off)
    else if wasInit && !u.initialized then a.data.take off ++ rotL DYN_TICK_LEN (a.data.drop off)
    else a.data
  let bm1 :=
    if !wasInit && u.initialized then a.bitmap ||| (2 ^ i)
    else if wasInit && !u.initialized then a.bitmap &&& ((TWO128 - 1) ^^^ 2 ^ i)
    else a.bitmap
  let bytes := if u.initialized then 1 :: encTick u else [0]
  .ok { a with data := writeAt data1 off bytes, bitmap := bm1 }

/-- `get_next_init_tick_index` of the dynamic array (bitmap scan) -/
def DynArr.nextInit (a : DynArr) (tickIndex : Int) (ts : Nat) (aToB : Bool) : R (Option Int) :=
  let span : Int := (TICK_ARRAY_SIZE : Int) * ts
  let lower := if !aToB then a.start - ts else a.start
  let upper := if !aToB then a.start + span - ts else a.start + span
  if !(tickIndex ≥ lower && tickIndex < upper) then .error .InvalidTickArraySequence
  else if ts = 0 then .error .InvalidTickSpacing
  else
    let off : Int := (tickIndex - a.start) / (ts : Int)
    let off := if aToB then off else off + 1
    if off < 0 || off ≥ TICK_ARRAY_SIZE then .ok none
    else
      let cands := if aToB then (List.range (off.toNat + 1)).reverse else (List.range (TICK_ARRAY_SIZE - off.toNat)).map (· + off.toNat)
      match cands.find? (fun k => a.bitmap.testBit k) with
      | none => .ok none
      | some k => .ok (some (a.start + (k : Int) * ts))

/-- the fixed tick array: 88 slots -/
structure FixArr where
  start : Int
  ticks : List TickData      -- length 88
  deriving Repr

def FixArr.getTick (a : FixArr) (tickIndex : Int) (ts : Nat) : R TickData :=
  match slotOf a.start tickIndex ts with
  | .error e => .error e
  | .ok i => .ok (a.ticks.getD i {})

def FixArr.updateTick (a : FixArr) (tickIndex : Int) (ts : Nat) (u : TickData) : R FixArr :=
  match slotOf a.start tickIndex ts with
  | .error e => .error e
  | .ok i => .ok { a with ticks := a.ticks.set i u }

def FixArr.nextInit (a : FixArr) (tickIndex : Int) (ts : Nat) (aToB : Bool) : R (Option Int) :=
  let span : Int := (TICK_ARRAY_SIZE : Int) * ts
  let lower := if !aToB then a.start - ts else a.start
  let upper := if !aToB then a.start + span - ts else a.start + span
  if !(tickIndex ≥ lower && tickIndex < upper) then .error .InvalidTickArraySequence
  else if ts = 0 then .error .InvalidTickSpacing
  else
    let off : Int := (tickIndex - a.start) / (ts : Int)
    let off := if aToB then off else off + 1
    if off < 0 || off ≥ TICK_ARRAY_SIZE then .ok none
    else
      let cands := if aToB then (List.range (off.toNat + 1)).reverse else (List.range (TICK_ARRAY_SIZE - off.toNat)).map (· + off.toNat)
      match cands.find? (fun k => (a.ticks.getD k {}).initialized) with
      | none => .ok none
      | some k => .ok (some (a.start + (k : Int) * ts))

/-- `region`: length of the tick-data view — 9952 for the Anchor loader (MAX_LEN bytes viewed from
    after the discriminator), 9944 for the Pinocchio struct -/
def DynArr.new (start : Int) (region : Nat := 113 * 88 + 8) : DynArr := { start := start, bitmap := 0, data := List.replicate region 0 }
def FixArr.new (start : Int) : FixArr := { start := start, ticks := List.replicate 88 {} }

/-- the account's used length: 8 (discriminator) + 52 (header) + 88 tags + 112 per initialized tick -/
def DynArr.usedLen (a : DynArr) : Nat := 148 + 112 * popBelow a.bitmap 88

end WP
