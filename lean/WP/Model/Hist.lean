import WP.Model.SwapLoop
import WP.Model.Packaging
/-
  History-level state machine: a pool, its abstract tick map, positions, vault balances and clock,
  with the operations the instruction handlers perform (manager call + token movement), and the
  canonical digest compared with the implementation after every operation.
-/
namespace WP
open WP.Gen

structure HistState where
  pool : PoolD
  ticks : TickMap := []
  positions : List (Nat × PositionD) := []
  vaultA : Nat := 0
  vaultB : Nat := 0
  rewardVaults : List Nat := [0, 0, 0]
  now : Nat := 0
  af : Option AfInfo := none
  deriving Repr

def posGet (l : List (Nat × PositionD)) (id : Nat) : Option PositionD :=
  match l with
  | [] => none
  | (k, v) :: rest => if k = id then some v else posGet rest id

def posSet (l : List (Nat × PositionD)) (id : Nat) (v : PositionD) : List (Nat × PositionD) :=
  match l with
  | [] => [(id, v)]
  | (k, w) :: rest => if k = id then (id, v) :: rest else if id < k then (id, v) :: (k, w) :: rest else (k, w) :: posSet rest id v

/-- replace the (first) entry of an existing id -/
def posReplace (l : List (Nat × PositionD)) (id : Nat) (v : PositionD) : List (Nat × PositionD) :=
  match l with
  | [] => []
  | (k, w) :: rest => if k = id then (id, v) :: rest else (k, w) :: posReplace rest id v

def I128_MAX : Nat := 170141183460469231731687303715884105727

inductive HistOp where
  | openPos (id : Nat) (lower upper : Int)
  | modify (id : Nat) (amount : Nat) (positive : Bool)
  | upd (id : Nat)
  | cfees (id : Nat)
  | cproto
  | clock (now : Nat)
  | swap (amount limit : Nat) (isInput aToB : Bool) (arrays : List Int)
  | reward (i : Nat) (emissions topup : Nat)
  | crew (id : Nat) (i : Nat)
  deriving Repr

def SWAP_FUEL : Nat := 4000000   -- ≥ 2 × (887 272 tick groups of size 1 + crossings): an adaptive-fee swap with group size 1 takes one iteration per tick

/-- one operation; returns the new state and the op-specific outputs -/
def histStep (s : HistState) (op : HistOp) : R (HistState × List Nat) :=
  match op with
  | .openPos id lower upper =>
    let ts := s.pool.ts
    if !(isUsableTick lower ts && isUsableTick upper ts && decide (lower < upper)) then .error .InvalidTickIndex
    else if ts ≥ FULL_RANGE_ONLY_TICK_SPACING_THRESHOLD &&
        !(decide (lower = Int.tdiv MIN_TICK_INDEX ts * ts) && decide (upper = Int.tdiv MAX_TICK_INDEX ts * ts)) then .error .FullRangeOnlyPool
    else if (posGet s.positions id).isSome then .error .PositionExists
    else .ok ({ s with positions := posSet s.positions id { lower := lower, upper := upper } }, [])
  | .modify id amount positive =>
    if amount = 0 then .error .LiquidityZero
    else if amount > I128_MAX then .error .LiquidityTooHigh
    else
      match posGet s.positions id with
      | none => .error .NoSuchPosition
      | some pos =>
        let delta : Int := if positive then (amount : Int) else -(amount : Int)
        match calculateModifyLiquidity s.pool pos (s.ticks.get pos.lower) (s.ticks.get pos.upper) delta s.now with
        | .error e => .error e
        | .ok u =>
          let pool := { s.pool with rewards := u.rewards, liq := u.poolLiq, rewardTs := s.now }
          let ticks := (s.ticks.set pos.lower u.tickLower).set pos.upper u.tickUpper
          match calculateLiquidityTokenDeltas pool.tick pool.price pos.lower pos.upper delta with
          | .error e => .error e
          | .ok (da, db) =>
            if positive then
              .ok ({ s with pool := pool, ticks := ticks, positions := posReplace s.positions id u.position,
                            vaultA := s.vaultA + da, vaultB := s.vaultB + db }, [da, db])
            else if da > s.vaultA || db > s.vaultB then .error .InsufficientFunds
            else
              .ok ({ s with pool := pool, ticks := ticks, positions := posReplace s.positions id u.position,
                            vaultA := s.vaultA - da, vaultB := s.vaultB - db }, [da, db])
  | .upd id =>
    match posGet s.positions id with
    | none => .error .NoSuchPosition
    | some pos =>
      match calculateModifyLiquidity s.pool pos (s.ticks.get pos.lower) (s.ticks.get pos.upper) 0 s.now with
      | .error e => .error e
      | .ok u =>
        .ok ({ s with pool := { s.pool with rewards := u.rewards, rewardTs := s.now },
                      positions := posReplace s.positions id u.position }, [])
  | .cfees id =>
    match posGet s.positions id with
    | none => .error .NoSuchPosition
    | some pos =>
      if pos.owedA > s.vaultA || pos.owedB > s.vaultB then .error .InsufficientFunds
      else .ok ({ s with positions := posReplace s.positions id { pos with owedA := 0, owedB := 0 },
                         vaultA := s.vaultA - pos.owedA, vaultB := s.vaultB - pos.owedB }, [pos.owedA, pos.owedB])
  | .cproto =>
    if s.pool.pfA > s.vaultA || s.pool.pfB > s.vaultB then .error .InsufficientFunds
    else .ok ({ s with pool := { s.pool with pfA := 0, pfB := 0 }, vaultA := s.vaultA - s.pool.pfA, vaultB := s.vaultB - s.pool.pfB },
              [s.pool.pfA, s.pool.pfB])
  | .clock now => .ok ({ s with now := now }, [])
  | .swap amount limit isInput aToB arrays =>
    if arrays.isEmpty then .error .NoArrays
    else
      match swap s.pool s.ticks arrays amount limit isInput aToB s.now s.af SWAP_FUEL with
      | .error e => .error e
      | .ok u =>
        if aToB && u.amountB > s.vaultB then .error .InsufficientFunds
        else if !aToB && u.amountA > s.vaultA then .error .InsufficientFunds
        else
          let pool := updateAfterSwap s.pool u aToB s.now
          let af := match u.afInfo with | some i => some i | none => s.af
          let (va, vb) := if aToB then (s.vaultA + u.amountA, s.vaultB - u.amountB) else (s.vaultA - u.amountA, s.vaultB + u.amountB)
          .ok ({ s with pool := pool, ticks := u.ticks, af := af, vaultA := va, vaultB := vb },
               [u.amountA, u.amountB, u.lpFee, u.protoFee])
  | .reward _ _ _ => .error .Other   -- handled by histReward (partial commits)
  | .crew id i =>
    if i ≥ 3 then .error .InvalidRewardIndex
    else
      match posGet s.positions id with
      | none => .error .NoSuchPosition
      | some pos =>
        let owed := (pos.rewards.getD i {}).owed
        let vault := min (s.rewardVaults.getD i 0) U64_MAX
        let (transfer, left) := if owed > vault then (vault, owed - vault) else (owed, 0)
        let rewards := pos.rewards.set i { (pos.rewards.getD i {}) with owed := left }
        .ok ({ s with positions := posReplace s.positions id { pos with rewards := rewards },
                      rewardVaults := s.rewardVaults.set i (s.rewardVaults.getD i 0 - transfer) }, [transfer])

/-- initialize-reward + fund vault + set-emissions; the first two persist even if the last fails -/
def histReward (s : HistState) (i emissions topup : Nat) : HistState × R Unit :=
  if i ≥ 3 then (s, .error .InvalidRewardIndex)
  else
    let r := s.pool.rewards.getD i {}
    let initR : R HistState :=
      if r.initialized then .ok s
      else
        -- lowest uninitialized index must be i
        let lowest := (List.range 3).find? fun k => !(s.pool.rewards.getD k {}).initialized
        if lowest = some i then .ok { s with pool := { s.pool with rewards := s.pool.rewards.set i { r with initialized := true } } }
        else .error .InvalidRewardIndex
    match initR with
    | .error e => (s, .error e)
    | .ok s1 =>
      let s2 := { s1 with rewardVaults := s1.rewardVaults.set i (s1.rewardVaults.getD i 0 + topup) }
      match checkedMulShiftRightRoundUpIf 86400 emissions false with
      | .error e => (s2, .error e)
      | .ok perDay =>
        if s2.rewardVaults.getD i 0 < perDay then (s2, .error .RewardVaultAmountInsufficient)
        else
          match nextRewardInfos s2.pool s2.now with
          | .error e => (s2, .error e)
          | .ok next =>
            let next := next.set i { (next.getD i {}) with emissions := emissions }
            ({ s2 with pool := { s2.pool with rewards := next, rewardTs := s2.now } }, .ok ())

def joinSp (l : List String) : String := String.intercalate " " l

def digest (s : HistState) : String :=
  let p := s.pool
  let pS := joinSp (["P", toString p.liq, toString p.price, toString p.tick, toString p.pfA, toString p.pfB, toString p.fgA,
                     toString p.fgB, toString p.rewardTs] ++
                    p.rewards.map fun r => s!"{if r.initialized then 1 else 0}:{r.emissions}:{r.growth}")
  let vS := joinSp (["V", toString s.vaultA, toString s.vaultB] ++ s.rewardVaults.map toString)
  let tS := joinSp ("T" :: (s.ticks.filter fun (_, t) => t != {}).map fun (i, t) =>
    s!"{i}:{if t.initialized then 1 else 0}:{t.net}:{t.gross}:{t.fgoA}:{t.fgoB}:{t.rgo.getD 0 0}:{t.rgo.getD 1 0}:{t.rgo.getD 2 0}")
  let qS := joinSp ("Q" :: s.positions.map fun (id, q) =>
    s!"{id}:{q.lower}:{q.upper}:{q.liq}:{q.cpA}:{q.owedA}:{q.cpB}:{q.owedB}" ++
      String.join (q.rewards.map fun r => s!":{r.checkpoint}:{r.owed}"))
  let aS := match s.af with
    | none => "A -"
    | some a => s!"A {a.variables.lastRefUpdateTs} {a.variables.lastMajorSwapTs} {a.variables.volRef} {a.variables.groupIndexRef} {a.variables.volAcc}"
  s!"{pS} | {vS} | {tS} | {qS} | {aS}"

def errName (e : Err) : String := e.name

def parseOp (toks : List String) : Option HistOp :=
  match toks with
  | ["open", id, lo, hi] => do pure (.openPos (← id.toNat?) (← lo.toInt?) (← hi.toInt?))
  | ["inc", id, l, _] => do pure (.modify (← id.toNat?) (← l.toNat?) true)
  | ["dec", id, l, _] => do pure (.modify (← id.toNat?) (← l.toNat?) false)
  | ["upd", id] => do pure (.upd (← id.toNat?))
  | ["cfees", id] => do pure (.cfees (← id.toNat?))
  | ["cproto"] => some .cproto
  | ["clock", n] => do pure (.clock (← n.toNat?))
  | "swap" :: amt :: lim :: ein :: dir :: _n :: starts => do
      let ein ← (if ein == "1" then some true else if ein == "0" then some false else none)
      let dir ← (if dir == "1" then some true else if dir == "0" then some false else none)
      pure (.swap (← amt.toNat?) (← lim.toNat?) ein dir (← starts.mapM String.toInt?))
  | ["reward", i, e, t] => do pure (.reward (← i.toNat?) (← e.toNat?) (← t.toNat?))
  | ["crew", id, i] => do pure (.crew (← id.toNat?) (← i.toNat?))
  | _ => none

def parseInit (toks : List String) : Option HistState :=
  match toks with
  | [ts, fee, proto, price, fgA, fgB, r0, r1, r2, now, _mode] => do
    let price ← price.toNat?
    let now ← now.toNat?
    let rw (x : String) : Option RewardInfo := do
      let g ← x.toNat?
      pure { growth := g, initialized := g != 0 }
    pure { pool := { ts := (← ts.toNat?), feeRate := (← fee.toNat?), protoRate := (← proto.toNat?), price := price, tick := ti price,
                     fgA := (← fgA.toNat?), fgB := (← fgB.toNat?), rewardTs := now, rewards := [← rw r0, ← rw r1, ← rw r2] },
           now := now }
  | _ => none

/-- process one `H …` line: returns the new state (if any) and the output line -/
def natArgsI (l : List String) : Option (List Int) := l.mapM String.toInt?

def parseSupplied (t : String) : Option Supplied :=
  match t.splitOn ":" with
  | [a, k] => do
    let a ← a.toInt?
    if k == "s" || k == "c" then pure (.own a)
    else if k == "u" then pure (.uninit a)
    else if k == "x" then pure .foreign
    else if k == "o" then pure .other
    else none
  | _ => none

/-- `pswap amount limit ein dir n (start:kind)*`: a swap through the account-packaging layer; the
    sequence is whatever `buildSeq` derives from the supplied accounts -/
def pswapOp (s : HistState) (toks : List String) : Option (R HistOp) :=
  match toks with
  | amt :: lim :: ein :: dir :: _n :: entries => do
      let ein ← (if ein == "1" then some true else if ein == "0" then some false else none)
      let dir ← (if dir == "1" then some true else if dir == "0" then some false else none)
      let accts ← entries.mapM parseSupplied
      let amt ← amt.toNat?
      let lim ← lim.toNat?
      match buildSeq s.pool.tick s.pool.ts dir accts with
      | .error e => pure (.error e)
      | .ok seq => pure (.ok (.swap amt lim ein dir seq))
  | _ => none

def histLine (st : Option HistState) (toks : List String) : Option HistState × String :=
  match toks with
  | "init" :: rest =>
    match parseInit rest with
    | some s => (some s, "ok | " ++ digest s)
    | none => (st, "bad-op")
  | _ =>
    match st with
    | none => (st, "bad-op")
    | some s =>
      match (match toks with | "af" :: rest => some rest | _ => none) with
      | some rest =>
        match natArgsI rest with
        | some [fp, dp, rf, cf, mx, gs, mj, lr, lm, vr, gr, va] =>
          let c : AfConstants := { filterPeriod := fp.toNat, decayPeriod := dp.toNat, reductionFactor := rf.toNat, controlFactor := cf.toNat,
                                   maxVolAcc := mx.toNat, groupSize := gs.toNat, majorSwapThresholdTicks := mj.toNat }
          if !validateConstants s.pool.ts c then (some s, s!"err InvalidAdaptiveFeeConstants | " ++ digest s)
          else
            let v : AfVariables := { lastRefUpdateTs := lr.toNat, lastMajorSwapTs := lm.toNat, volRef := vr.toNat, groupIndexRef := gr, volAcc := va.toNat }
            let s' := { s with af := some { constants := c, variables := v } }
            (some s', "ok | " ++ digest s')
        | _ => (st, "bad-op")
      | none =>
      let parsed : Option (R HistOp) := match toks with
        | "pswap" :: rest => pswapOp s rest
        | _ => (parseOp toks).map .ok
      match parsed with
      | none => (st, "bad-op")
      | some (.error er) => (some s, s!"err {errName er} | " ++ digest s)
      | some (.ok (.reward i e t)) =>
        let (s', r) := histReward s i e t
        match r with
        | .ok _ => (some s', "ok | " ++ digest s')
        | .error er => (some s', s!"err {errName er} | " ++ digest s')
      | some (.ok op) =>
        match histStep s op with
        | .ok (s', outs) =>
          let o := if outs.isEmpty then "" else joinSp (outs.map toString) ++ " "
          (some s', s!"ok {o}| " ++ digest s')
        | .error er => (some s, s!"err {errName er} | " ++ digest s)

end WP
