import WP.Model.Hist
import WP.Model.Access
import WP.Model.Position
import WP.Model.Admission
import WP.Model.DynArray
import WP.Model.PinoOffset
import WP.Model.Sdk
import WP.Model.TransferFee
import WP.Model.Setup
import WP.Model.SdkSwap
import WP.Model.PinoModify
import WP.Gen.AnchorSpecs
/-
  Line-protocol driver: one operation per line on stdin, one canonical result line on stdout.
  `ok <fields…>` | `err <ErrorName>` | `bad-op`.  See DESIGN.md Appendix B.
-/
namespace WP

def showR (r : R String) : String :=
  match r with
  | .ok s => "ok " ++ s
  | .error e => "err " ++ e.name

def b01 (s : String) : Option Bool := if s == "1" then some true else if s == "0" then some false else none

def natArgs (l : List String) : Option (List Nat) := l.mapM String.toNat?

def hexVal (c : Char) : Option Nat :=
  if '0' ≤ c ∧ c ≤ '9' then some (c.toNat - '0'.toNat)
  else if 'a' ≤ c ∧ c ≤ 'f' then some (c.toNat - 'a'.toNat + 10) else none

def parseHex : List Char → Option (List Nat)
  | [] => some []
  | [_] => none
  | a :: b :: rest => do
    let x ← hexVal a; let y ← hexVal b; let r ← parseHex rest
    pure ((x * 16 + y) :: r)

def showDelta (r : R AmountDelta) : String :=
  match r with
  | .ok (.valid v) => s!"ok valid {v}"
  | .ok (.exceedsMax e) => s!"ok exceeds {e.name}"
  | .error e => "err " ++ e.name

def stepPure (toks : List String) : Option String :=
  match toks with
  | ["sp", t] => do let t ← t.toInt?; pure s!"ok {sp t}"
  | ["ti", p] => do let p ← p.toNat?; pure s!"ok {ti p}"
  | ["tilh", p] => do let p ← p.toNat?; pure s!"ok {tickLow p} {tickHigh p}"
  | ["da", p0, p1, l, up] => do
      let p0 ← p0.toNat?; let p1 ← p1.toNat?; let l ← l.toNat?; let up ← b01 up
      pure (showDelta (tryGetAmountDeltaA p0 p1 l up))
  | ["db", p0, p1, l, up] => do
      let p0 ← p0.toNat?; let p1 ← p1.toNat?; let l ← l.toNat?; let up ← b01 up
      pure (showDelta (tryGetAmountDeltaB p0 p1 l up))
  | ["nsp", p, l, amt, ein, dir] => do
      let p ← p.toNat?; let l ← l.toNat?; let amt ← amt.toNat?; let ein ← b01 ein; let dir ← b01 dir
      pure (showR ((getNextSqrtPrice p l amt ein dir).map toString))
  | ["step", rem, rate, l, cur, tgt, ein, dir] => do
      let rem ← rem.toNat?; let rate ← rate.toNat?; let l ← l.toNat?; let cur ← cur.toNat?; let tgt ← tgt.toNat?
      let ein ← b01 ein; let dir ← b01 dir
      pure (showR ((computeSwap rem rate l cur tgt ein dir).map
        fun s => s!"{s.amountIn} {s.amountOut} {s.nextPrice} {s.feeAmount}"))
  | ["est", cur, tl, tu, a, b] => do
      let cur ← cur.toNat?; let tl ← tl.toInt?; let tu ← tu.toInt?; let a ← a.toNat?; let b ← b.toNat?
      pure (showR ((estimateMaxLiquidity cur tl tu a b).map toString))
  | ["ltd", tick, price, lo, hi, delta] => do
      let tick ← tick.toInt?; let price ← price.toNat?; let lo ← lo.toInt?; let hi ← hi.toInt?; let delta ← delta.toInt?
      pure (showR ((calculateLiquidityTokenDeltas tick price lo hi delta).map fun (a, b) => s!"{a} {b}"))
  | ["posauth", owner, dlg, damt, _amt, key, sg] => do
      let owner ← owner.toNat?; let damt ← damt.toNat?; let key ← key.toNat?; let sg ← b01 sg
      let dlg : Option Nat ← (if dlg == "-" then some none else dlg.toNat?.map some)
      pure (if verifyPositionAuthority owner dlg damt key sg then "ok" else "rej")
  | ["ldta", o, w, disc, wp, m] => do
      let o ← b01 o; let w ← b01 w; let disc ← disc.toNat?; let wp ← b01 wp; let m ← b01 m
      pure (match loadTickArray o w disc wp m with | none => "ok" | some e => "err " ++ e)
  | ["reset", ts, liq, oa, ob, r0, r1, r2, olo, ohi, nlo, nhi, keep] => do
      let ts ← ts.toNat?; let liq ← liq.toNat?; let oa ← oa.toNat?; let ob ← ob.toNat?
      let r0 ← r0.toNat?; let r1 ← r1.toNat?; let r2 ← r2.toNat?
      let olo ← olo.toInt?; let ohi ← ohi.toInt?; let nlo ← nlo.toInt?; let nhi ← nhi.toInt?; let keep ← b01 keep
      let p : PositionD := { lower := olo, upper := ohi, liq := liq, cpA := 111, cpB := 222, owedA := oa, owedB := ob,
                             rewards := [{ checkpoint := 31, owed := r0 }, { checkpoint := 32, owed := r1 }, { checkpoint := 33, owed := r2 }] }
      pure (showR ((resetPositionRange ts p nlo nhi keep).map fun q =>
        s!"{q.lower} {q.upper} {q.cpA} {q.cpB} {(q.rewards.map fun r => s!"{r.checkpoint}:{r.owed}")}"))
  | ["snap", lo, hi, ts, price] => do
      let lo ← lo.toInt?; let hi ← hi.toInt?; let ts ← ts.toNat?; let price ← price.toNat?
      pure (showR ((resolveOneSided lo hi ts price).map fun (a, b) => s!"{a} {b}"))
  | ["mint", prog, native, freeze, badge, hex] => do
      let prog ← b01 prog; let native ← b01 native; let freeze ← b01 freeze; let badge ← b01 badge
      let tlv ← (if hex == "-" then some [] else parseHex hex.toList)
      pure (match isSupportedTokenMint prog native freeze badge tlv with
        | .ok true => "ok 1" | .ok false => "ok 0" | .error e => "err " ++ e)
  | ["badge", o, c, m] => do
      let o ← b01 o; let c ← b01 c; let m ← b01 m
      pure (if isTokenBadgeInitialized o c m then "ok 1" else "ok 0")
  | ["setfee", kind, r] => do
      let r ← r.toNat?
      pure (showR ((if kind == "p" || kind == "c" then updateProtocolFeeRate r else updateFeeRate r).map toString))
  | ["afc", ts, f, dp, rf, cf, mv, gs, th] => do
      let ts ← ts.toNat?; let f ← f.toNat?; let dp ← dp.toNat?; let rf ← rf.toNat?; let cf ← cf.toNat?
      let mv ← mv.toNat?; let gs ← gs.toNat?; let th ← th.toNat?
      pure (if validateConstants ts { filterPeriod := f, decayPeriod := dp, reductionFactor := rf, controlFactor := cf, maxVolAcc := mv,
                                       groupSize := gs, majorSwapThresholdTicks := th } then "ok 1" else "ok 0")
  | ["initpool", ma, mb, price, ts, fr, pr] => do
      let ma ← ma.toNat?; let mb ← mb.toNat?; let price ← price.toNat?; let ts ← ts.toNat?; let fr ← fr.toNat?; let pr ← pr.toNat?
      pure (showR ((initializePoolChecks ma mb price ts fr pr).map fun p => s!"{p.feeRate} {p.protoRate} {p.price} {p.tick} {p.ts}"))
  | ["xinit", ts, tierTs, price, order, fee, proto, pa, na, fa, ha, ba, pb, nb, fb, hb, bb] => do
      let ts ← ts.toNat?; let tierTs ← tierTs.toNat?; let price ← price.toNat?; let order ← order.toNat?
      let fee ← fee.toNat?; let proto ← proto.toNat?
      let pa ← b01 pa; let na ← b01 na; let fa ← b01 fa; let ba ← ba.toNat?
      let pb ← b01 pb; let nb ← b01 nb; let fb ← b01 fb; let bb ← bb.toNat?
      let ta ← (if ha == "-" then some [] else parseHex ha.toList)
      let tb ← (if hb == "-" then some [] else parseHex hb.toList)
      let a : MintIn := { token2022 := pa, native := na, freeze := fa, tlv := ta, badge := ba }
      let b : MintIn := { token2022 := pb, native := nb, freeze := fb, tlv := tb, badge := bb }
      pure (match initializePoolV2 (if order = 1 then 2 else 1) (if order = 0 || order = 3 then 2 else 1) a b price ts tierTs fee proto (order == 3) with
        | .ok (p, nt) => s!"ok {p.feeRate} {p.protoRate} {p.price} {p.tick} {if nt then 1 else 0}"
        | .error e => "err " ++ e)
  | ["xinitaf", price, order, proto, now, te, authMode, perm, ts, fee, fp, dp, rf, cf, mv, gs, th,
     pa, na, fa, ha, ba, pb, nb, fb, hb, bb] => do
      let price ← price.toNat?; let order ← order.toNat?; let proto ← proto.toNat?; let now ← now.toNat?
      let te : Option Nat ← (if te == "-" then some none else te.toNat?.map some)
      let authMode ← authMode.toNat?; let perm ← b01 perm; let ts ← ts.toNat?; let fee ← fee.toNat?
      let fp ← fp.toNat?; let dp ← dp.toNat?; let rf ← rf.toNat?; let cf ← cf.toNat?
      let mv ← mv.toNat?; let gs ← gs.toNat?; let th ← th.toNat?
      let pa ← b01 pa; let na ← b01 na; let fa ← b01 fa; let ba ← ba.toNat?
      let pb ← b01 pb; let nb ← b01 nb; let fb ← b01 fb; let bb ← bb.toNat?
      let ta ← (if ha == "-" then some [] else parseHex ha.toList)
      let tb ← (if hb == "-" then some [] else parseHex hb.toList)
      let a : MintIn := { token2022 := pa, native := na, freeze := fa, tlv := ta, badge := ba }
      let b : MintIn := { token2022 := pb, native := nb, freeze := fb, tlv := tb, badge := bb }
      let c : AfConstants := { filterPeriod := fp, decayPeriod := dp, reductionFactor := rf, controlFactor := cf, maxVolAcc := mv,
                               groupSize := gs, majorSwapThresholdTicks := th }
      pure (match initializePoolWithAdaptiveFee (if order = 1 then 2 else 1) (if order = 0 then 2 else 1) a b price proto now te
                    authMode perm ts fee c with
        | .ok (p, nt, t) => s!"ok {p.feeRate} {p.protoRate} {p.price} {p.tick} {if nt then 1 else 0} {t}"
        | .error e => "err " ++ e)
  | ["xtarr", ts, start, pre, kind, idem] => do
      let ts ← ts.toNat?; let start ← start.toInt?; let pre ← pre.toNat?; let kind ← b01 kind; let idem ← b01 idem
      let valid := validStartTick start ts
      -- a pre-existing array can only have been created for a valid start index
      let preT : TarrPre := if pre = 4 then .wrongAddress else if pre = 3 then .foreign else if pre = 1 && valid then .fixed else if pre = 2 && valid then .dynamic else .nothing
      pure (match initializeTickArrayIx kind idem preT start ts with
        | .ok .createdFixed => "ok fixed 9988"
        | .ok .createdDynamic => "ok dynamic 148"
        | .ok .existing => s!"ok existing {pre}"
        | .error e => "err " ++ e)
  | ["xini", "cfg", admin, proto] => do
      let admin ← b01 admin; let proto ← proto.toNat?
      pure (match initializeConfigIx admin proto with | .ok p => s!"ok {p}" | .error e => "err " ++ e)
  | ["xini", "tier", auth, pre, ts, fee] => do
      let auth ← auth.toNat?; let pre ← pre.toNat?; let ts ← ts.toNat?; let fee ← fee.toNat?
      pure (match initializeFeeTierIx auth (pre == 1) (pre == 2) ts fee with | .ok (a, f) => s!"ok {a} {f}" | .error e => "err " ++ e)
  | ["xini", "atier", auth, pre, idx, ts, fee, fp, dp, rf, cf, mv, gs, th] => do
      let auth ← auth.toNat?; let pre ← pre.toNat?; let idx ← idx.toNat?; let ts ← ts.toNat?; let fee ← fee.toNat?
      let fp ← fp.toNat?; let dp ← dp.toNat?; let rf ← rf.toNat?; let cf ← cf.toNat?
      let mv ← mv.toNat?; let gs ← gs.toNat?; let th ← th.toNat?
      let c : AfConstants := { filterPeriod := fp, decayPeriod := dp, reductionFactor := rf, controlFactor := cf, maxVolAcc := mv,
                               groupSize := gs, majorSwapThresholdTicks := th }
      pure (match initializeAdaptiveFeeTierIx auth (pre == 1) (pre == 2) idx ts fee c with | .ok (a, f) => s!"ok {a} {f}" | .error e => "err " ++ e)
  | ["xini", "rew", ver, auth, idx, ninit, p22, native, freeze, tlv, badge] => do
      let ver ← ver.toNat?; let auth ← auth.toNat?; let idx ← idx.toNat?; let ninit ← ninit.toNat?
      let p22 ← b01 p22; let native ← b01 native; let freeze ← b01 freeze; let badge ← badge.toNat?
      let tl ← (if tlv == "-" then some [] else parseHex tlv.toList)
      let m : MintIn := { token2022 := p22, native := native, freeze := freeze, tlv := tl, badge := badge }
      pure (match initializeRewardIx (ver == 2) auth (min idx 255) ninit m with | .ok i => s!"ok {i}" | .error e => "err " ++ e)
  | ["xini", "migr", pre, _signed] => do
      -- migrate_repurpose_reward_authority_space: permissionless; refuses (panics) a pool already migrated
      let pre ← pre.toNat?
      pure (if pre = 0 then "err Panic" else "ok")
  | ["xini", "cext", auth, pre] => do
      let auth ← auth.toNat?; let pre ← pre.toNat?
      pure (match initializeConfigExtensionIx auth (pre == 1) (pre == 2) with | .ok _ => "ok" | .error e => "err " ++ e)
  | ["xini", "badge", auth, feat, pre, ext] => do
      let auth ← auth.toNat?; let feat ← b01 feat; let pre ← b01 pre; let ext ← b01 ext
      pure (match initializeTokenBadgeIx auth feat pre ext with | .ok _ => "ok" | .error e => "err " ++ e)
  | ["xini", "dbadge", auth, feat, present] => do
      let auth ← auth.toNat?; let feat ← b01 feat; let present ← b01 present
      pure (match deleteTokenBadgeIx auth feat present with | .ok _ => "ok" | .error e => "err " ++ e)
  | ["xini", "pool1", ts, tierTs, price, order, fee, proto, pa, pb] => do
      let ts ← ts.toNat?; let tierTs ← tierTs.toNat?; let price ← price.toNat?; let order ← order.toNat?
      let fee ← fee.toNat?; let proto ← proto.toNat?; let pa ← b01 pa; let pb ← b01 pb
      let pb := if order = 2 then pa else pb
      pure (match initializePoolV1 (if order = 1 then 2 else 1) (if order = 0 then 2 else 1) pa pb price ts tierTs fee proto with
        | .ok p => s!"ok {p.feeRate} {p.protoRate} {p.price} {p.tick}"
        | .error e => "err " ++ e)
  | ["mdr", n0, n1, d, up] => do
      let n0 ← n0.toNat?; let n1 ← n1.toNat?; let d ← d.toNat?; let up ← b01 up
      pure (showR ((checkedMulDivRoundUpIf n0 n1 d up).map toString))
  | ["msr", n0, n1, up] => do
      let n0 ← n0.toNat?; let n1 ← n1.toNat?; let up ← b01 up
      pure (showR ((checkedMulShiftRightRoundUpIf n0 n1 up).map toString))
  | ["d256", n, d, up] => do
      let n ← n.toNat?; let d ← d.toNat?; let up ← b01 up
      pure (showR ((divRoundUpIfU256 n d up).map toString))
  | _ => none

def hexByte (n : Nat) : String :=
  let d := "0123456789abcdef".toList
  String.ofList [d.getD (n / 16) '0', d.getD (n % 16) '0']

def showBundle (b : List Nat) : String := String.join (b.map hexByte) ++ (if bundleDeletable b then " 1" else " 0")

/-- `B xopen i lo hi auth ts [nt]` (family xbun): open_bundled_position through the entrypoint -/
def bundleOpen (bm : List Nat) (i lo hi auth ts nt : String) : List Nat × String :=
  let show_ := showBundle
    match i.toNat?, lo.toInt?, hi.toInt?, auth.toNat?, ts.toNat? with
    | some i, some lo, some hi, some auth, some ts =>
      if bm.isEmpty then (bm, "err Deleted")
      else if auth = 2 then (bm, "err AccountNotSigner " ++ show_ bm)
      else if auth = 5 then (bm, "err ConstraintSeeds " ++ show_ bm)   -- the address of another bundle index
      else if i < 256 && bundleBit bm i then (bm, "err AccountAlreadyInitialized " ++ show_ bm)
      else if auth = 4 || auth = 6 then (bm, "err ConstraintRaw " ++ show_ bm)   -- the token of another bundle; an EMPTY account of the bundle mint
      else if nt == "1" then (bm, "err PositionWithTokenExtensionsRequired " ++ show_ bm)   -- the pool requires non-transferable positions
      else if auth = 1 then (bm, "err MissingOrInvalidDelegate " ++ show_ bm)
      else match bundleUpdate bm i true with
        | .error e => (bm, "err " ++ e.name ++ " " ++ show_ bm)
        | .ok b =>
          match resolveOneSided lo hi ts 18446744073709551616 with
          | .error e => (bm, "err " ++ e.name ++ " " ++ show_ bm)
          | .ok (l, u) =>
            match validateTickRange ts l u with
            | .error e => (bm, "err " ++ e.name ++ " " ++ show_ bm)
            | .ok _ => (b, s!"ok {l} {u} " ++ show_ b)
    | _, _, _, _, _ => (bm, "bad-op")

def bundleLine (bm : List Nat) (toks : List String) : List Nat × String :=
  let show_ (b : List Nat) := String.join (b.map hexByte) ++ (if bundleDeletable b then " 1" else " 0")
  match toks with
  | ["new"] => (List.replicate 32 0, "ok " ++ show_ (List.replicate 32 0))
  | ["open", i] =>
    match i.toNat? with
    | none => (bm, "bad-op")
    | some i => match bundleUpdate bm i true with
      | .ok b => (b, "ok " ++ show_ b)
      | .error e => (bm, "err " ++ e.name ++ " " ++ show_ bm)
  | ["close", i] =>
    match i.toNat? with
    | none => (bm, "bad-op")
    | some i => match bundleUpdate bm i false with
      | .ok b => (b, "ok " ++ show_ b)
      | .error e => (bm, "err " ++ e.name ++ " " ++ show_ bm)
  -- instruction level (family xbun): `bm = []` stands for a deleted bundle; the pool has price 1.0
  | ["xnew", _ts] => (List.replicate 32 0, "ok " ++ show_ (List.replicate 32 0))
  | ["xnewm", _ts] => (List.replicate 32 0, "ok " ++ show_ (List.replicate 32 0))   -- …_with_metadata: same bundle
  | ["xopen", i, lo, hi, auth, ts] => bundleOpen bm i lo hi auth ts "0"
  | ["xopen", i, lo, hi, auth, ts, nt] => bundleOpen bm i lo hi auth ts nt
  | ["xclose", i, auth, dirty] =>
    match i.toNat?, auth.toNat?, dirty.toNat? with
    | some i, some auth, some dirty =>
      if bm.isEmpty then (bm, "err Deleted")
      else if !(i < 256 && bundleBit bm i) then (bm, "err AccountNotInitialized " ++ show_ bm)
      else if auth = 2 then (bm, "err AccountNotSigner " ++ show_ bm)
      else if auth = 4 || auth = 6 then (bm, "err ConstraintRaw " ++ show_ bm)
      else if auth = 1 then (bm, "err MissingOrInvalidDelegate " ++ show_ bm)
      else if dirty ≠ 0 then (bm, "err ClosePositionNotEmpty " ++ show_ bm)
      else match bundleUpdate bm i false with
        | .error e => (bm, "err " ++ e.name ++ " " ++ show_ bm)
        | .ok b => (b, "ok " ++ show_ b)
    | _, _, _ => (bm, "bad-op")
  | ["xdel", auth] =>
    match auth.toNat? with
    | some auth =>
      if bm.isEmpty then (bm, "err Deleted")
      else if auth = 2 then (bm, "err AccountNotSigner " ++ show_ bm)
      else if auth ≠ 0 then (bm, "err ConstraintRaw " ++ show_ bm)
      else if !bundleDeletable bm then (bm, "err PositionBundleNotDeletable " ++ show_ bm)
      else ([], "ok gone")
    | none => (bm, "bad-op")
  | _ => (bm, "bad-op")

def showTick (t : TickData) : String :=
  s!"{if t.initialized then 1 else 0} {t.net} {t.gross} {t.fgoA} {t.fgoB} {t.rgo.getD 0 0} {t.rgo.getD 1 0} {t.rgo.getD 2 0}"

def showSdk (r : R String) : String :=
  match r with
  | .ok s => "ok " ++ s
  | .error .Panic => "err Panic"
  | .error _ => "err sdk"

/-- insertion of a start into an ascending list without duplicates (the glue's stand-in for `sort_by_key`) -/
def insAsc (x : Int) : List Int → List Int
  | [] => [x]
  | y :: r => if x < y then x :: y :: r else if x = y then y :: r else y :: insAsc x r

/-- `H sdkq amount limit ein dir n start*`: what the SDK's `compute_swap` returns for this swap on the current
    state (read-only): `ok tokenA tokenB tradeFee`, `err sdk`, `err Panic` -/
def sdkqLine (s : HistState) (t : List String) : Option String :=
  match t with
  | amt :: lim :: ein :: dir :: _n :: starts => do
    let ein ← b01 ein
    let dir ← b01 dir
    let starts ← starts.mapM String.toInt?
    let asc := starts.foldr insAsc []
    let r := sdkSwap s.pool s.ticks asc (← amt.toNat?) (← lim.toNat?) ein dir s.now s.af SWAP_FUEL
    pure (showSdk (r.map fun x => s!"{x.1} {x.2.1} {x.2.2}"))
  | _ => none

/-- the SDK functions (C20) -/
def sdkLine (t : List String) : Option String :=
  match t with
  | ["stf", amt, bps, mx] => do
    pure (showSdk ((sdkApplyTF (← amt.toNat?) (← bps.toNat?) (← mx.toNat?)).map toString))
  | ["srf", amt, bps, mx] => do
    pure (showSdk ((sdkReverseTF (← amt.toNat?) (← bps.toNat?) (← mx.toNat?)).map toString))
  | ["sda", p0, p1, l, up] => do
    pure (showSdk ((sdkDeltaA (← p0.toNat?) (← p1.toNat?) (← l.toNat?) (← b01 up)).map toString))
  | ["sdb", p0, p1, l, up] => do
    pure (showSdk ((sdkDeltaB (← p0.toNat?) (← p1.toNat?) (← l.toNat?) (← b01 up)).map toString))
  | ["sna", p, l, a, i] => do
    pure (showSdk ((sdkNextFromA (← p.toNat?) (← l.toNat?) (← a.toNat?) (← b01 i)).map toString))
  | ["snb", p, l, a, i] => do
    pure (showSdk ((sdkNextFromB (← p.toNat?) (← l.toNat?) (← a.toNat?) (← b01 i)).map toString))
  | ["sle", l, p, tl, tu, up] => do
    let tl ← tl.toInt?; let tu ← tu.toInt?
    if tl > tu then none else
    pure (showSdk ((sdkTokenEstimates (← l.toNat?) (← p.toNat?) tl tu (← b01 up)).map fun x => s!"{x.1} {x.2}"))
  | ["spt", p] => do pure s!"ok {ti (← p.toNat?)}"
  | ["stp", t] => do pure s!"ok {sp (← t.toInt?)}"
  | ["slp", a, bps, mx] => do
    let a ← a.toNat?; let bps ← bps.toNat?
    pure (showSdk ((if (← b01 mx) then sdkMaxSlip a bps else sdkMinSlip a bps).map toString))
  | _ => none

/-- `afm`: the fee-rate manager over four loop iterations (C14) -/
def afmIter (f : FeeMgr) (items : List (Nat × Nat × Nat × Int)) (acc : String) : R (FeeMgr × String) :=
  match items with
  | [] => .ok (f, acc)
  | (target, liq, after, nt) :: rest =>
    let f1 := f.updateVolAcc
    let rate := f1.totalFeeRate
    let bs := f1.boundedTarget target liq
    let va := match f1.nextInfo with | some i => i.variables.volAcc | none => 0
    let aToB := match f1 with | .adaptive m => m.aToB | .static _ => true
    let line := acc ++ s!" {rate}:{bs.1}:{if bs.2 then 1 else 0}:{va}"
    if bs.2 then
      let ended := if aToB then max after bs.1 else min after bs.1
      match f1.advanceAfterSkip ended (sp nt) nt with
      | .error e => .error e
      | .ok f2 => afmIter f2 rest line
    else afmIter f1.advance rest line

def afmLine (t : List String) : Option String :=
  if t.length ≠ 16 + 16 + 2 then none else do
  let aToB ← b01 (t.getD 0 "")
  let cur ← (t.getD 1 "").toInt?
  let n ← natArgs ((t.drop 2).take 12)
  let gr ← (t.getD 14 "").toInt?
  let va ← (t.getD 15 "").toNat?
  let g := fun i => n.getD i 0
  let c : AfConstants := { filterPeriod := g 2, decayPeriod := g 3, reductionFactor := g 4, controlFactor := g 5, maxVolAcc := g 6,
                           groupSize := g 7, majorSwapThresholdTicks := g 8 }
  let v : AfVariables := { lastRefUpdateTs := g 9, lastMajorSwapTs := g 10, volRef := g 11, groupIndexRef := gr, volAcc := va }
  let rest := t.drop 16
  let item (k : Nat) : Option (Nat × Nat × Nat × Int) := do
    let a ← (rest.getD (4 * k) "").toNat?
    let b ← (rest.getD (4 * k + 1) "").toNat?
    let c ← (rest.getD (4 * k + 2) "").toNat?
    let d ← (rest.getD (4 * k + 3) "").toInt?
    pure (a, b, c, d)
  let items ← (List.range 4).mapM item
  let pre ← (rest.getD 16 "").toNat?
  let post ← (rest.getD 17 "").toNat?
  match FeeMgr.new aToB cur (g 0) (g 1) (some { constants := c, variables := v }) with
  | .error e => pure ("err " ++ e.name)
  | .ok f =>
    match afmIter f items "ok" with
    | .error e => pure ("err " ++ e.name)
    | .ok (f2, line) =>
      match f2.updateMajorSwapTs (g 0) pre post with
      | .error e => pure ("err " ++ e.name)
      | .ok f3 =>
        match f3.nextInfo with
        | some i => pure (line ++ s!" | {i.variables.lastRefUpdateTs} {i.variables.lastMajorSwapTs} {i.variables.volRef} {i.variables.groupIndexRef} {i.variables.volAcc}")
        | none => none

/-- `remis liq lastTs now idx newEmissions (init emissions growth)x3`: settle all rewards, then set one rate (C11) -/
def remisLine (t : List String) : Option String :=
  if t.length ≠ 5 + 9 then none else do
  let n ← natArgs (t.take 5)
  let g := fun i => n.getD i 0
  let rw (k : Nat) : Option RewardInfo := do
    let i ← b01 (t.getD (5 + 3 * k) "")
    let e ← (t.getD (6 + 3 * k) "").toNat?
    let gr ← (t.getD (7 + 3 * k) "").toNat?
    pure { initialized := i, emissions := e, growth := gr }
  let r0 ← rw 0; let r1 ← rw 1; let r2 ← rw 2
  let p : PoolD := { ts := 64, feeRate := 0, protoRate := 0, liq := g 0, price := TWO64, tick := 0, rewardTs := g 1, rewards := [r0, r1, r2] }
  match nextRewardInfos p (g 2) with
  | .error e => pure ("err " ++ e.name)
  | .ok next =>
    if g 3 ≥ 3 then pure "err InvalidRewardIndex"
    else
      let next := next.set (g 3) { (next.getD (g 3) {}) with emissions := g 4 }
      let f (k : Nat) := let r := next.getD k {}; s!"{r.emissions} {r.growth}"
      pure s!"ok {g 2} {f 0} {f 1} {f 2}"

/-- `sdkaf`: the adaptive-fee variable rules, function by function (C20 / C14):
    sdkaf cur now fp dp rf cf mx gs mj lr lm vr gr va g2 pre post -/
def sdkafLine (t : List String) : Option String :=
  if t.length ≠ 17 then none else do
  let cur ← (t.getD 0 "").toInt?
  let n ← natArgs ((t.drop 1).take 11)
  let gr ← (t.getD 12 "").toInt?
  let va ← (t.getD 13 "").toNat?
  let g2 ← (t.getD 14 "").toInt?
  let pre ← (t.getD 15 "").toNat?
  let post ← (t.getD 16 "").toNat?
  let g := fun i => n.getD i 0
  let now := g 0
  let c : AfConstants := { filterPeriod := g 1, decayPeriod := g 2, reductionFactor := g 3, controlFactor := g 4, maxVolAcc := g 5,
                           groupSize := g 6, majorSwapThresholdTicks := g 7 }
  let v : AfVariables := { lastRefUpdateTs := g 8, lastMajorSwapTs := g 9, volRef := g 10, groupIndexRef := gr, volAcc := va }
  if c.groupSize = 0 then none else
  match v.updateReference (cur / (c.groupSize : Int)) now c with
  | .error e => pure ("err " ++ e.name)
  | .ok v1 =>
    let v2 := v1.updateVolAcc g2 c
    match v2.updateMajorSwapTs pre post now c with
    | .error e => pure ("err " ++ e.name)
    | .ok v3 => pure s!"ok {v3.lastRefUpdateTs} {v3.lastMajorSwapTs} {v3.volRef} {v3.groupIndexRef} {v3.volAcc}"

/-- `xadm`: one admin instruction through the account-validation layer (C04 / C15 / C19):
    xadm <AccountsStruct> <nf> (<key> <signer>)^nf <na> <value>^na <bound…>
    the environment is what the harness built and read back from the real accounts; the answer is
    `accepts` on the REGENERATED table (`acceptsB_iff`) ∧ the setter's bound -/
def xadmBound (t : List String) : Option Bool :=
  match t with
  | ["none"] => some true
  | ["fee", v] => do pure (decide ((← v.toNat?) ≤ Gen.MAX_FEE_RATE))
  | ["proto", v] => do pure (decide ((← v.toNat?) ≤ Gen.MAX_PROTOCOL_FEE_RATE))
  | ["idx", v] => do pure (decide ((← v.toNat?) < 3))
  | ["afcsame"] => some false   -- set_adaptive_fee_constants with nothing to change is refused
  -- `afcset ts <existing 7> <present 7 × 0|1> <requested 7>`: the handler of set_adaptive_fee_constants on the stored
  -- constants (merge, unchanged?, valid for the spacing?)
  | "afcset" :: rest => do
    let n ← natArgs rest
    match n with
    | [ts, e0, e1, e2, e3, e4, e5, e6, m0, m1, m2, m3, m4, m5, m6, r0, r1, r2, r3, r4, r5, r6] =>
      let o := fun (m v : Nat) => if m = 1 then some v else none
      let info : AfInfo := { constants := { filterPeriod := e0, decayPeriod := e1, reductionFactor := e2, controlFactor := e3,
                                            maxVolAcc := e4, groupSize := e5, majorSwapThresholdTicks := e6 },
                             variables := { volAcc := 1 } }
      let req : AfRequest := { filterPeriod := o m0 r0, decayPeriod := o m1 r1, reductionFactor := o m2 r2, controlFactor := o m3 r3,
                               maxVolAcc := o m4 r4, groupSize := o m5 r5, majorSwapThresholdTicks := o m6 r6 }
      match setAdaptiveFeeConstants ts info req with
      | .ok i => pure (decide (i.variables = {}))
      | .error _ => pure false
    | _ => none
  | "afc" :: rest => do
    let n ← natArgs rest
    match n with
    | [ts, fp, dp, rf, cf, mx, gs, mj] =>
      pure (validateConstants ts { filterPeriod := fp, decayPeriod := dp, reductionFactor := rf, controlFactor := cf, maxVolAcc := mx,
                                   groupSize := gs, majorSwapThresholdTicks := mj })
    | _ => none
  | _ => none

def xadmLine (t0 : List String) : Option String := do
  let t := t0.takeWhile (· ≠ "#")
  let name ← t[0]?
  let spec ← findSpec Gen.anchorSpecs name
  let nf ← (← t[1]?).toNat?
  let ks := (t.drop 2).take (2 * nf)
  let rec pairs (l : List String) : Option (List (Nat × Bool)) :=
    match l with
    | [] => some []
    | [_] => none
    | k :: s :: r => do pure (((← k.toNat?), (← b01 s)) :: (← pairs r))
  let keys ← pairs ks
  let rest := t.drop (2 + 2 * nf)
  let na ← (← rest[0]?).toNat?
  let vals ← natArgs ((rest.drop 1).take na)
  let bound ← xadmBound (rest.drop (1 + na))
  let env ← envOfLine spec keys vals
  pure (if acceptsB spec env && bound then "ok" else "err")

/-- `calculate_modify_tick_array`: (size change in ticks, rent units moved position → array) -/
def tickArrayUpdate (isVar : Bool) (posLiq updLiq : Nat) (tickInit updInit : Bool) : Int × Int :=
  if !isVar then (0, 0)
  else
    let rent : Int := if posLiq ≠ 0 && updLiq = 0 then -1 else if posLiq = 0 && updLiq ≠ 0 then 1 else 0
    let size : Int := if tickInit && !updInit then -1 else if !tickInit && updInit then 1 else 0
    (size, rent)

def parseTick8 (l : List String) : Option TickData :=
  match l with
  | [i, net, gross, fa, fb, r0, r1, r2] => do
    let i ← b01 i; let net ← net.toInt?
    let n ← natArgs [gross, fa, fb, r0, r1, r2]
    match n with
    | [gross, fa, fb, r0, r1, r2] => pure { initialized := i, net := net, gross := gross, fgoA := fa, fgoB := fb, rgo := [r0, r1, r2] }
    | _ => none
  | _ => none

/-- `pmod`: one modify-liquidity on an arbitrary state (C12):
    pmod ts cur price liq fgA fgB rewardTs (init emis growth)x3 | lower upper pliq cpA owedA cpB owedB (cp owed)x3 | tl(8) | tu(8) | varL varU sign mag now -/
def pmodLine (t : List String) : Option String :=
  if t.length ≠ 16 + 13 + 8 + 8 + 5 then none else do
  let pool := t.take 16
  let pos := (t.drop 16).take 13
  let tl ← parseTick8 ((t.drop 29).take 8)
  let tu ← parseTick8 ((t.drop 37).take 8)
  let tail := t.drop 45
  let ts ← (pool.getD 0 "").toNat?
  let cur ← (pool.getD 1 "").toInt?
  let pn ← natArgs (pool.drop 2)
  let posLower ← (pos.getD 0 "").toInt?
  let posUpper ← (pos.getD 1 "").toInt?
  let qn ← natArgs (pos.drop 2)
  let varL ← b01 (tail.getD 0 "")
  let varU ← b01 (tail.getD 1 "")
  let sign ← b01 (tail.getD 2 "")
  let mag ← (tail.getD 3 "").toNat?
  let now ← (tail.getD 4 "").toNat?
  let g := fun (l : List Nat) i => l.getD i 0
  let rewards : List RewardInfo := (List.range 3).map fun i =>
    { initialized := g pn (5 + 3 * i) ≠ 0, emissions := g pn (6 + 3 * i), growth := g pn (7 + 3 * i) }
  let p : PoolD := { ts := ts, feeRate := 0, protoRate := 0, liq := g pn 1, price := g pn 0, tick := cur,
                     fgA := g pn 2, fgB := g pn 3, rewardTs := g pn 4, rewards := rewards }
  let position : PositionD := { lower := posLower, upper := posUpper, liq := g qn 0, cpA := g qn 1, owedA := g qn 2, cpB := g qn 3,
                                owedB := g qn 4,
                                rewards := (List.range 3).map fun i => { checkpoint := g qn (5 + 2 * i), owed := g qn (6 + 2 * i) } }
  let delta : Int := if sign then (mag : Int) else -(mag : Int)
  -- get_tick of both bounds comes first (the arrays are the ones containing the bounds)
  if !isUsableTick posLower ts || !isUsableTick posUpper ts then pure "err TickNotFound" else
  match calculateModifyLiquidity p position tl tu delta now with
  | .error e => pure ("err " ++ e.name)
  | .ok u =>
    match calculateLiquidityTokenDeltas p.tick p.price posLower posUpper delta with
    | .error e => pure ("err " ++ e.name)
    | .ok (da, db) =>
      let (sl, rl) := tickArrayUpdate varL position.liq u.position.liq tl.initialized u.tickLower.initialized
      let (su, ru) := tickArrayUpdate varU position.liq u.position.liq tu.initialized u.tickUpper.initialized
      let q := u.position
      let pr := String.intercalate " " (q.rewards.map fun r => s!"{r.checkpoint} {r.owed}")
      -- the global growths as the PINOCCHIO port computes them (skip on zero emissions: PinoModify.lean; equal to the
      -- Anchor values wherever an uninitialized reward has no emissions: C12.pino_reward_growths_eq)
      let rg := match pinoNextRewardGrowths p now with
        | .ok l => String.intercalate " " (l.map fun g => s!"{g}")
        | .error e => "err-" ++ e.name
      pure s!"ok {u.poolLiq} {rg} {q.liq} {q.cpA} {q.owedA} {q.cpB} {q.owedB} {pr} {showTick u.tickLower} {showTick u.tickUpper} {da} {db} {sl} {rl} {su} {ru}"

/-- state of the `D` (dynamic tick array) protocol: Anchor-region array, Pinocchio-region array, fixed array, spacing -/
structure DynState where
  ad : DynArr
  pd : DynArr
  fx : FixArr
  ts : Nat

def fnv64 (bytes : List Nat) : UInt64 :=
  bytes.foldl (fun h b => (h ^^^ b.toUInt64) * 0x100000001b3) 0xcbf29ce484222325

def dynLine (st : Option DynState) (toks : List String) : Option DynState × String :=
  match toks, st with
  | ["new", start, ts], _ =>
    match start.toInt?, ts.toNat? with
    | some start, some ts =>
      (some { ad := DynArr.new start (113 * 88 + 8), pd := DynArr.new start (113 * 88), fx := FixArr.new start, ts := ts }, "ok")
    | _, _ => (st, "bad-op")
  | ["upd", tick, ini, net, gross, fa, fb, r0, r1, r2], some s =>
    match tick.toInt?, b01 ini, net.toInt?, natArgs [gross, fa, fb, r0, r1, r2] with
    | some tick, some ini, some net, some [gross, fa, fb, r0, r1, r2] =>
      let u : TickData := { initialized := ini, net := net, gross := gross, fgoA := fa, fgoB := fb, rgo := [r0, r1, r2] }
      let rp : R DynArr := match slotOf s.pd.start tick s.ts with
        | .error e => .error e
        | .ok i => s.pd.updateAtP i u
      match s.ad.updateTick tick s.ts u, rp, s.fx.updateTick tick s.ts u with
      | .ok a, .ok p, .ok f =>
        let used := a.usedLen
        let ha := fnv64 (a.data.take (used - 60))
        let hp := fnv64 (p.data.take (p.usedLen - 60))
        if ha == hp && a.bitmap == p.bitmap then
          (some { s with ad := a, pd := p, fx := f }, s!"ok bm={a.bitmap} used={used} fnv={ha}")
        else (some { s with ad := a, pd := p, fx := f }, "model-accessors-differ")
      | .error e, .error e2, .error e3 =>
        if e.name == e2.name && e.name == e3.name then (st, "err " ++ e.name) else (st, "model-accessors-differ")
      | _, _, _ => (st, "model-accessors-differ")
    | _, _, _, _ => (st, "bad-op")
  | ["get", tick], some s =>
    match tick.toInt? with
    | some tick =>
      let rp : R TickData := match slotOf s.pd.start tick s.ts with
        | .error e => .error e
        | .ok i => s.pd.getAtP i
      match s.ad.getTick tick s.ts, rp, s.fx.getTick tick s.ts with
      | .ok t, .ok t2, .ok t3 => if t == t2 && t == t3 then (st, "ok " ++ showTick t) else (st, "model-accessors-differ")
      | .error e, .error e2, .error e3 =>
        if e.name == e2.name && e.name == e3.name then (st, "err " ++ e.name) else (st, "model-accessors-differ")
      | _, _, _ => (st, "model-accessors-differ")
    | none => (st, "bad-op")
  | ["next", tick, d], some s =>
    match tick.toInt?, b01 d with
    | some tick, some d =>
      match s.ad.nextInit tick s.ts d, s.fx.nextInit tick s.ts d with
      | .ok a, .ok f => if a == f then (st, match a with | none => "ok none" | some i => s!"ok {i}") else (st, "model-accessors-differ")
      | .error e, .error e2 => if e.name == e2.name then (st, "err " ++ e.name) else (st, "model-accessors-differ")
      | _, _ => (st, "model-accessors-differ")
    | _, _ => (st, "bad-op")
  | _, _ => (st, "bad-op")

partial def loop (h : IO.FS.Stream) (out : IO.FS.Stream) (hist : Option HistState) (bm : List Nat := List.replicate 32 0)
    (dyn : Option DynState := none) (snap : Option HistState := none) : IO Unit := do
  let line ← h.getLine
  if line.isEmpty then return ()
  let toks := (line.trimAscii.toString.splitOn " ").filter (· ≠ "")
  match toks with
  | "B" :: rest =>
    let (bm', s) := bundleLine bm rest
    out.putStrLn s
    loop h out hist bm' dyn snap
  | "D" :: rest =>
    let (dyn', s) := dynLine dyn rest
    out.putStrLn s
    loop h out hist bm dyn' snap
  | ["H", "snap"] =>
    match hist with
    | none => out.putStrLn "bad-op"; loop h out hist bm dyn snap
    | some st => out.putStrLn ("ok | " ++ digest st); loop h out hist bm dyn (some st)
  | "H" :: "xhop" :: rest =>
    match hist, snap with
    | some st, some sn => out.putStrLn (((xhopLine st sn rest).getD "bad-op") ++ " | " ++ digest st)
    | some st, none => out.putStrLn ("err NoSnapshot | " ++ digest st)
    | none, _ => out.putStrLn "bad-op"
    loop h out hist bm dyn snap
  | "H" :: "xsub" :: _ =>
    -- account substitution: every pinned slot refuses a look-alike (C15 tables); the model's answer is constant
    match hist with
    | none => out.putStrLn "bad-op"
    | some st => out.putStrLn ("rejected | " ++ digest st)
    loop h out hist bm dyn snap
  | "H" :: "xliq" :: rest =>
    match hist with
    | none => out.putStrLn "bad-op"
    | some st => out.putStrLn (((xliqLine st rest).getD "bad-op") ++ " | " ++ digest st)
    loop h out hist bm dyn snap
  | "H" :: "xopen" :: rest =>
    match hist with
    | none => out.putStrLn "bad-op"
    | some st => out.putStrLn (((xopenLine st rest).getD "bad-op") ++ " | " ++ digest st)
    loop h out hist bm dyn snap
  | "H" :: "xclose22" :: rest =>
    match hist with
    | none => out.putStrLn "bad-op"
    | some st => out.putStrLn (((xclose22Line st rest).getD "bad-op") ++ " | " ++ digest st)
    loop h out hist bm dyn snap
  | "H" :: "xlock" :: rest =>
    match hist with
    | none => out.putStrLn "bad-op"
    | some st => out.putStrLn (((xlockLine st rest).getD "bad-op") ++ " | " ++ digest st)
    loop h out hist bm dyn snap
  | "H" :: "xrew" :: rest =>
    match hist with
    | none => out.putStrLn "bad-op"
    | some st => out.putStrLn (((xrewLine st rest).getD "bad-op") ++ " | " ++ digest st)
    loop h out hist bm dyn snap
  | "H" :: "xrepo" :: rest =>
    match hist with
    | none => out.putStrLn "bad-op"
    | some st => out.putStrLn (((xrepoLine st rest).getD "bad-op") ++ " | " ++ digest st)
    loop h out hist bm dyn snap
  | "H" :: "xliqt" :: rest =>
    match hist with
    | none => out.putStrLn "bad-op"
    | some st => out.putStrLn (((xliqtLine st rest).getD "bad-op") ++ " | " ++ digest st)
    loop h out hist bm dyn snap
  | "H" :: "xpos" :: rest =>
    match hist with
    | none => out.putStrLn "bad-op"
    | some st => out.putStrLn (((xposLine st rest).getD "bad-op") ++ " | " ++ digest st)
    loop h out hist bm dyn snap
  | "H" :: "sdkq" :: rest =>
    match hist with
    | none => out.putStrLn "bad-op"
    | some st => out.putStrLn (((sdkqLine st rest).getD "bad-op") ++ " | " ++ digest st)
    loop h out hist bm dyn snap
  | "H" :: "xswap" :: rest =>
    match hist with
    | none => out.putStrLn "bad-op"
    | some st => out.putStrLn (((xswapLine st rest).getD "bad-op") ++ " | " ++ digest st)
    loop h out hist bm dyn snap
  | "H" :: rest =>
    let (hist', s) := histLine hist rest
    out.putStrLn s
    loop h out hist' bm dyn snap
  | ["poff", start, tick, ts] =>
    match start.toInt?, tick.toInt?, ts.toNat? with
    | some start, some tick, some ts =>
      out.putStrLn (match pinoUsableOffset start tick ts with | some k => s!"ok {k}" | none => "ok none")
    | _, _, _ => out.putStrLn "bad-op"
    loop h out hist bm dyn snap
  | "sda" :: _ | "sdb" :: _ | "sna" :: _ | "snb" :: _ | "sle" :: _ | "spt" :: _ | "slp" :: _ | "stp" :: _ | "stf" :: _ | "srf" :: _ =>
    out.putStrLn ((sdkLine toks).getD "bad-op")
    loop h out hist bm dyn snap
  | ["tfee", bps, mx, _fut, amt, inc] =>
    match bps.toNat?, mx.toNat?, amt.toNat?, b01 inc with
    | some bps, some mx, some amt, some inc =>
      let f : TFee := { bps := bps, maxFee := mx }
      if inc then
        match includedAmount (some f) amt with
        | .ok (v, fee) => out.putStrLn s!"ok {v} {fee}"
        | .error e => out.putStrLn ("err " ++ e.name)
      else
        let r := excludedAmount (some f) amt
        out.putStrLn s!"ok {r.1} {r.2}"
    | _, _, _, _ => out.putStrLn "bad-op"
    loop h out hist bm dyn snap
  | "afm" :: rest =>
    out.putStrLn ((afmLine rest).getD "bad-op")
    loop h out hist bm dyn snap
  | "xadm" :: rest =>
    out.putStrLn ((xadmLine rest).getD "bad-op")
    loop h out hist bm dyn snap
  | "remis" :: rest =>
    out.putStrLn ((remisLine rest).getD "bad-op")
    loop h out hist bm dyn snap
  | "sdkaf" :: rest =>
    out.putStrLn ((sdkafLine rest).getD "bad-op")
    loop h out hist bm dyn snap
  | "pmod" :: rest =>
    out.putStrLn ((pmodLine rest).getD "bad-op")
    loop h out hist bm dyn snap
  | _ =>
    match stepPure toks with
    | some s => out.putStrLn s
    | none => out.putStrLn "bad-op"
    loop h out hist bm dyn snap

def driverMain : IO Unit := do
  let out ← IO.getStdout
  loop (← IO.getStdin) out none

end WP
