import WP.Model.Hist
import WP.Model.Access
/-
  Line-protocol driver: one operation per line on stdin, one canonical result line on stdout.
  `ok <fields…>` | `err <ErrorName>` | `bad-op`.  See DESIGN.md Appendix B.
-/
namespace WP

def showR (r : R String) : String :=
  match r with
  | .ok s => "ok " ++ s
  | .error e => "err " ++ e.name

def b01 (s : String) : Option Bool := if s == "1" then some true else if s == "0" then some false else none

def natArgs (l : List String) : Option (List Nat) := l.mapM String.toNat?

def showDelta (r : R AmountDelta) : String :=
  match r with
  | .ok (.valid v) => s!"ok valid {v}"
  | .ok (.exceedsMax e) => s!"ok exceeds {e.name}"
  | .error e => "err " ++ e.name

def stepPure (toks : List String) : Option String :=
  match toks with
  | ["sp", t] => do let t ← t.toInt?; pure s!"ok {sp t}"
  | ["ti", p] => do let p ← p.toNat?; pure s!"ok {ti p}"
  | ["tilh", p] => do let p ← p.toNat?; pure s!"ok {tickLow p} {tickHigh p}"
  | ["da", p0, p1, l, up] => do
      let p0 ← p0.toNat?; let p1 ← p1.toNat?; let l ← l.toNat?; let up ← b01 up
      pure (showDelta (tryGetAmountDeltaA p0 p1 l up))
  | ["db", p0, p1, l, up] => do
      let p0 ← p0.toNat?; let p1 ← p1.toNat?; let l ← l.toNat?; let up ← b01 up
      pure (showDelta (tryGetAmountDeltaB p0 p1 l up))
  | ["nsp", p, l, amt, ein, dir] => do
      let p ← p.toNat?; let l ← l.toNat?; let amt ← amt.toNat?; let ein ← b01 ein; let dir ← b01 dir
      pure (showR ((getNextSqrtPrice p l amt ein dir).map toString))
  | ["step", rem, rate, l, cur, tgt, ein, dir] => do
      let rem ← rem.toNat?; let rate ← rate.toNat?; let l ← l.toNat?; let cur ← cur.toNat?; let tgt ← tgt.toNat?
      let ein ← b01 ein; let dir ← b01 dir
      pure (showR ((computeSwap rem rate l cur tgt ein dir).map
        fun s => s!"{s.amountIn} {s.amountOut} {s.nextPrice} {s.feeAmount}"))
  | ["est", cur, tl, tu, a, b] => do
      let cur ← cur.toNat?; let tl ← tl.toInt?; let tu ← tu.toInt?; let a ← a.toNat?; let b ← b.toNat?
      pure (showR ((estimateMaxLiquidity cur tl tu a b).map toString))
  | ["ltd", tick, price, lo, hi, delta] => do
      let tick ← tick.toInt?; let price ← price.toNat?; let lo ← lo.toInt?; let hi ← hi.toInt?; let delta ← delta.toInt?
      pure (showR ((calculateLiquidityTokenDeltas tick price lo hi delta).map fun (a, b) => s!"{a} {b}"))
  | ["posauth", owner, dlg, damt, _amt, key, sg] => do
      let owner ← owner.toNat?; let damt ← damt.toNat?; let key ← key.toNat?; let sg ← b01 sg
      let dlg : Option Nat ← (if dlg == "-" then some none else dlg.toNat?.map some)
      pure (if verifyPositionAuthority owner dlg damt key sg then "ok" else "rej")
  | ["ldta", o, w, disc, wp, m] => do
      let o ← b01 o; let w ← b01 w; let disc ← disc.toNat?; let wp ← b01 wp; let m ← b01 m
      pure (match loadTickArray o w disc wp m with | none => "ok" | some e => "err " ++ e)
  | ["mdr", n0, n1, d, up] => do
      let n0 ← n0.toNat?; let n1 ← n1.toNat?; let d ← d.toNat?; let up ← b01 up
      pure (showR ((checkedMulDivRoundUpIf n0 n1 d up).map toString))
  | ["msr", n0, n1, up] => do
      let n0 ← n0.toNat?; let n1 ← n1.toNat?; let up ← b01 up
      pure (showR ((checkedMulShiftRightRoundUpIf n0 n1 up).map toString))
  | ["d256", n, d, up] => do
      let n ← n.toNat?; let d ← d.toNat?; let up ← b01 up
      pure (showR ((divRoundUpIfU256 n d up).map toString))
  | _ => none

partial def loop (h : IO.FS.Stream) (out : IO.FS.Stream) (hist : Option HistState) : IO Unit := do
  let line ← h.getLine
  if line.isEmpty then return ()
  let toks := (line.trimAscii.toString.splitOn " ").filter (· ≠ "")
  match toks with
  | "H" :: rest =>
    let (hist', s) := histLine hist rest
    out.putStrLn s
    loop h out hist'
  | _ =>
    match stepPure toks with
    | some s => out.putStrLn s
    | none => out.putStrLn "bad-op"
    loop h out hist

def driverMain : IO Unit := do
  let out ← IO.getStdout
  loop (← IO.getStdin) out none

end WP
