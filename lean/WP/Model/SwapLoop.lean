import WP.Model.FeeRate
/-
  Model of programs/whirlpool/src/manager/swap_manager.rs `swap` over the abstract tick map and
  the window of supplied tick arrays (their start indexes, in sequence order), i.e. of
  util/swap_tick_sequence.rs + the per-array search of state/{fixed,dynamic}_tick_array.rs.
-/
namespace WP
open WP.Gen

/-- scan offsets `k, k-1, …, 0` (a→b) for an initialized tick of the array starting at `start` -/
def scanDown (m : TickMap) (start : Int) (ts : Nat) : Nat → Option Int
  | 0 => if (m.get start).initialized then some start else none
  | k + 1 =>
    let t := start + ((k + 1 : Nat) : Int) * ts
    if (m.get t).initialized then some t else scanDown m start ts k

/-- scan offsets `k, k+1, …, 87` (b→a); `n` = number of offsets left -/
def scanUp (m : TickMap) (start : Int) (ts : Nat) (k : Nat) : Nat → Option Int
  | 0 => none
  | n + 1 =>
    let t := start + (k : Int) * ts
    if (m.get t).initialized then some t else scanUp m start ts (k + 1) n

/-- `get_next_init_tick_index` of one array -/
def arrayNextInit (m : TickMap) (start : Int) (ts : Nat) (tickIndex : Int) (aToB : Bool) : R (Option Int) :=
  let span : Int := (TICK_ARRAY_SIZE : Int) * ts
  let lower := if !aToB then start - ts else start
  let upper := if !aToB then start + span - ts else start + span
  if !(tickIndex ≥ lower && tickIndex < upper) then .error .InvalidTickArraySequence
  else if ts = 0 then .error .InvalidTickSpacing
  else
    let off : Int := (tickIndex - start) / (ts : Int)
    let off := if aToB then off else off + 1
    if off < 0 || off ≥ TICK_ARRAY_SIZE then .ok none
    else if aToB then .ok (scanDown m start ts off.toNat)
    else .ok (scanUp m start ts off.toNat (TICK_ARRAY_SIZE - off.toNat))

/-- `SwapTickSequence::get_next_initialized_tick_index`; `fuel` ≥ number of arrays -/
def seqNextInit (m : TickMap) (arrays : List Int) (ts : Nat) (aToB : Bool) : Nat → Int → Nat → R (Nat × Int)
  | 0, _, _ => .error .Panic
  | fuel + 1, searchIndex, idx =>
    match arrays[idx]? with
    | none => .error .TickArraySequenceInvalidIndex
    | some start =>
      match arrayNextInit m start ts searchIndex aToB with
      | .error e => .error e
      | .ok (some t) => .ok (idx, t)
      | .ok none =>
        let span : Int := (TICK_ARRAY_SIZE : Int) * ts
        if aToB && start ≤ MIN_TICK_INDEX then .ok (idx, MIN_TICK_INDEX)
        else if !aToB && start + span > MAX_TICK_INDEX then .ok (idx, MAX_TICK_INDEX)
        else if idx + 1 = arrays.length then .ok (idx, if aToB then start else start + span - 1)
        else seqNextInit m arrays ts aToB fuel (if aToB then start - 1 else start + span - 1) (idx + 1)

/-- is `tickIndex` a tick the array starting at `start` can hand out (`get_tick` succeeds) -/
def inArrayUsable (start : Int) (ts : Nat) (tickIndex : Int) : Bool :=
  decide (tickIndex ≥ start) && decide (tickIndex < start + (TICK_ARRAY_SIZE : Int) * ts) && isUsableTick tickIndex ts

structure SwapCtx where
  arrays : List Int
  ts : Nat
  protoRate : Nat
  aToB : Bool
  isInput : Bool
  limit : Nat            -- adjusted_sqrt_price_limit
  fgOtherA : Nat         -- whirlpool.fee_growth_global_a (used when !a_to_b)
  fgOtherB : Nat
  rewards : List RewardInfo   -- next_reward_infos
  deriving Repr

structure SwapSt where
  remaining : Nat
  calculated : Nat
  price : Nat
  tick : Int
  liq : Nat
  protoFee : Nat
  arrayIdx : Nat
  fgIn : Nat
  feeSum : Nat
  fm : FeeMgr
  ticks : TickMap
  steps : List (Nat × Nat × Nat × Nat × Nat × Nat)   -- trace: (liq, rate, in, out, fee, nextPrice) per step
  deriving Repr

def checkedSub64 (a b : Nat) (e : Err) : R Nat := if b ≤ a then .ok (a - b) else .error e
def checkedAdd64 (a b : Nat) (e : Err) : R Nat := if a + b ≤ U64_MAX then .ok (a + b) else .error e

/-- the amount bookkeeping of one iteration: (amount_remaining, amount_calculated) -/
def stepAmounts (isInput : Bool) (remaining calculated : Nat) (sc : SwapStep) : R (Nat × Nat) :=
  if isInput then
    match checkedSub64 remaining sc.amountIn .AmountRemainingOverflow with
    | .error e => .error e
    | .ok r1 =>
      match checkedSub64 r1 sc.feeAmount .AmountRemainingOverflow with
      | .error e => .error e
      | .ok r2 =>
        match checkedAdd64 calculated sc.amountOut .AmountCalcOverflow with
        | .error e => .error e
        | .ok c1 => .ok (r2, c1)
  else
    match checkedSub64 remaining sc.amountOut .AmountRemainingOverflow with
    | .error e => .error e
    | .ok r1 =>
      match checkedAdd64 calculated sc.amountIn .AmountCalcOverflow with
      | .error e => .error e
      | .ok c1 =>
        match checkedAdd64 c1 sc.feeAmount .AmountCalcOverflow with
        | .error e => .error e
        | .ok c2 => .ok (r1, c2)

structure CrossRes where
  arrayIdx : Nat
  tick : Int
  liq : Nat
  ticks : TickMap

/-- tick crossing / current-tick-index update of one iteration -/
def stepCross (c : SwapCtx) (s : SwapSt) (sc : SwapStep) (fgIn : Nat) (nextArrayIdx : Nat) (nextTickIdx : Int) (nextTickPrice : Nat) : R CrossRes :=
  if sc.nextPrice = nextTickPrice then
    let start? := c.arrays[nextArrayIdx]?
    let tickInit := match start? with
      | some start => inArrayUsable start c.ts nextTickIdx && (s.ticks.get nextTickIdx).initialized
      | none => false
    let crossed : R (Nat × TickMap) :=
      if tickInit then
        let t := s.ticks.get nextTickIdx
        let ga := if c.aToB then fgIn else c.fgOtherA
        let gb := if c.aToB then c.fgOtherB else fgIn
        let upd := nextTickCrossUpdate t ga gb c.rewards
        match addLiquidityDelta s.liq (if c.aToB then -t.net else t.net) with
        | .error e => .error e
        | .ok l => .ok (l, s.ticks.set nextTickIdx upd)
      else .ok (s.liq, s.ticks)
    match crossed with
    | .error e => .error e
    | .ok lt =>
      match start? with
      | none => .error .TickArrayIndexOutofBounds
      | some start =>
        if c.ts = 0 then .error .InvalidTickSpacing
        else
          let off : Int := (nextTickIdx - start) / (c.ts : Int)
          let arrayIdx := if (c.aToB && off = 0) || (!c.aToB && off = (TICK_ARRAY_SIZE : Int) - 1) then nextArrayIdx + 1 else nextArrayIdx
          .ok { arrayIdx := arrayIdx, tick := if c.aToB then nextTickIdx - 1 else nextTickIdx, liq := lt.1, ticks := lt.2 }
  else if sc.nextPrice ≠ s.price then .ok { arrayIdx := s.arrayIdx, tick := ti sc.nextPrice, liq := s.liq, ticks := s.ticks }
  else .ok { arrayIdx := s.arrayIdx, tick := s.tick, liq := s.liq, ticks := s.ticks }

/-- one iteration of the inner `loop` of `swap` -/
def swapStep (c : SwapCtx) (s : SwapSt) (nextArrayIdx : Nat) (nextTickIdx : Int) (nextTickPrice target : Nat) : R SwapSt :=
  let fm := s.fm.updateVolAcc
  let rate := fm.totalFeeRate
  let bs := fm.boundedTarget target s.liq
  match computeSwap s.remaining rate s.liq s.price bs.1 c.isInput c.aToB with
  | .error e => .error e
  | .ok sc =>
    match stepAmounts c.isInput s.remaining s.calculated sc with
    | .error e => .error e
    | .ok ra =>
      match checkedAdd64 s.feeSum sc.feeAmount .AmountCalcOverflow with
      | .error e => .error e
      | .ok feeSum =>
        let fees := calculateFees sc.feeAmount c.protoRate s.liq s.protoFee s.fgIn
        match stepCross c s sc fees.2 nextArrayIdx nextTickIdx nextTickPrice with
        | .error e => .error e
        | .ok cr =>
          match (if !bs.2 then (.ok fm.advance : R FeeMgr) else fm.advanceAfterSkip sc.nextPrice nextTickPrice nextTickIdx) with
          | .error e => .error e
          | .ok fm' =>
            .ok { remaining := ra.1, calculated := ra.2, price := sc.nextPrice, tick := cr.tick, liq := cr.liq,
                  protoFee := fees.1, arrayIdx := cr.arrayIdx, fgIn := fees.2, feeSum := feeSum, fm := fm', ticks := cr.ticks,
                  steps := (s.liq, rate, sc.amountIn, sc.amountOut, sc.feeAmount, sc.nextPrice) :: s.steps }

/-- the two nested loops of `swap`; `inner = some (…)` while inside the inner `loop` -/
def swapLoop (c : SwapCtx) : Nat → SwapSt → Option (Nat × Int × Nat × Nat) → R SwapSt
  | 0, _, _ => .error .Panic      -- fuel exhausted (never happens with the fuel the driver supplies)
  | fuel + 1, s, none =>
    if s.remaining > 0 && c.limit ≠ s.price then
      match seqNextInit s.ticks c.arrays c.ts c.aToB (c.arrays.length + 1) s.tick s.arrayIdx with
      | .error e => .error e
      | .ok r =>
        swapLoop c fuel s (some (r.1, r.2, sp r.2, if c.aToB then max c.limit (sp r.2) else min c.limit (sp r.2)))
    else .ok s
  | fuel + 1, s, some (nai, nti, ntp, target) =>
    match swapStep c s nai nti ntp target with
    | .error e => .error e
    | .ok s' =>
      if s'.remaining = 0 || s'.price = target then swapLoop c fuel s' none
      else swapLoop c fuel s' (some (nai, nti, ntp, target))

structure PostSwap where
  amountA : Nat
  amountB : Nat
  lpFee : Nat
  liq : Nat
  tick : Int
  price : Nat
  fgIn : Nat
  rewards : List RewardInfo
  protoFee : Nat
  afInfo : Option AfInfo
  ticks : TickMap
  steps : List (Nat × Nat × Nat × Nat × Nat × Nat)
  deriving Repr

def adjLimit (limit : Nat) (aToB : Bool) : Nat :=
  if limit = NO_EXPLICIT_SQRT_PRICE_LIMIT then (if aToB then MIN_SQRT_PRICE_X64 else MAX_SQRT_PRICE_X64) else limit

def swapCtxOf (p : PoolD) (arrays : List Int) (limit : Nat) (isInput aToB : Bool) (rewards : List RewardInfo) : SwapCtx :=
  { arrays := arrays, ts := p.ts, protoRate := p.protoRate, aToB := aToB, isInput := isInput, limit := adjLimit limit aToB,
    fgOtherA := p.fgA, fgOtherB := p.fgB, rewards := rewards }

def swapInit (p : PoolD) (ticks : TickMap) (amount : Nat) (aToB : Bool) (fm : FeeMgr) : SwapSt :=
  { remaining := amount, calculated := 0, price := p.price, tick := p.tick, liq := p.liq, protoFee := 0,
    arrayIdx := 0, fgIn := if aToB then p.fgA else p.fgB, feeSum := 0, fm := fm, ticks := ticks, steps := [] }

/-- the epilogue of `swap`: partial-fill rule, amounts, major-swap timestamp -/
def swapFinish (p : PoolD) (amount limit : Nat) (isInput aToB : Bool) (now : Nat) (rewards : List RewardInfo) (s : SwapSt) : R PostSwap :=
  if s.remaining > 0 && !isInput && limit = NO_EXPLICIT_SQRT_PRICE_LIMIT then .error .PartialFillError
  else
    match s.fm.updateMajorSwapTs now p.price s.price with
    | .error e => .error e
    | .ok fm' =>
      .ok { amountA := if aToB = isInput then amount - s.remaining else s.calculated,
            amountB := if aToB = isInput then s.calculated else amount - s.remaining,
            lpFee := s.feeSum - s.protoFee, liq := s.liq, tick := s.tick, price := s.price,
            fgIn := s.fgIn, rewards := rewards, protoFee := s.protoFee, afInfo := fm'.nextInfo, ticks := s.ticks,
            steps := s.steps.reverse }

/-- the argument checks at the top of `swap` -/
def swapGuard (p : PoolD) (amount limit : Nat) (aToB : Bool) : R Unit :=
  let adj := adjLimit limit aToB
  if !(MIN_SQRT_PRICE_X64 ≤ adj && adj ≤ MAX_SQRT_PRICE_X64) then .error .SqrtPriceOutOfBounds
  else if (aToB && adj ≥ p.price) || (!aToB && adj ≤ p.price) then .error .InvalidSqrtPriceLimitDirection
  else if amount = 0 then .error .ZeroTradableAmount
  else .ok ()

/-- `swap` -/
def swap (p : PoolD) (ticks : TickMap) (arrays : List Int) (amount limit : Nat) (isInput aToB : Bool) (now : Nat)
    (af : Option AfInfo) (fuel : Nat) : R PostSwap :=
  match swapGuard p amount limit aToB with
  | .error e => .error e
  | .ok _ =>
    match nextRewardInfos p now with
    | .error e => .error e
    | .ok rewards =>
      match FeeMgr.new aToB p.tick now p.feeRate af with
      | .error e => .error e
      | .ok fm =>
        match swapLoop (swapCtxOf p arrays limit isInput aToB rewards) fuel (swapInit p ticks amount aToB fm) none with
        | .error e => .error e
        | .ok s => swapFinish p amount limit isInput aToB now rewards s

/-- `Whirlpool::update_after_swap` -/
def updateAfterSwap (p : PoolD) (u : PostSwap) (aToB : Bool) (now : Nat) : PoolD :=
  let p := { p with tick := u.tick, price := u.price, liq := u.liq, rewards := u.rewards, rewardTs := now }
  if aToB then { p with fgA := u.fgIn, pfA := (p.pfA + u.protoFee) % TWO64 }
  else { p with fgB := u.fgIn, pfB := (p.pfB + u.protoFee) % TWO64 }

end WP
