import WP.Model.SwapLoop
import WP.Model.PinoOffset
/-
  How the tick arrays of a swap are chosen from the supplied accounts
  (util/sparse_swap.rs `SparseSwapTickSequenceBuilder`), and the zeroed proxy array
  (state/zeroed_tick_array.rs).
-/
namespace WP
open WP.Gen

/-- `get_start_tick_indexes`: up to three consecutive start indexes in swap direction, beginning
    with the array of the current tick (b→a: of the next tick when the current one is in the last
    slot — the "shifted" state); invalid start indexes (beyond the protocol bounds) are dropped -/
def startTickIndexes (cur : Int) (ts : Nat) (aToB : Bool) : List Int :=
  let tia : Int := (TICK_ARRAY_SIZE : Int) * ts
  let base := (cur / tia) * tia
  let offs : List Int :=
    if aToB then [0, -1, -2]
    else if cur + ts ≥ base + tia then [1, 2, 3] else [0, 1, 2]
  (offs.map fun o => base + o * tia).filter fun s => validStartTick s ts

/-- an account handed to the builder -/
inductive Supplied where
  | own (start : Int)      -- an initialized tick array of this pool (fixed or dynamic) starting at `start`
  | uninit (start : Int)   -- an empty system-owned account at the PDA of the array starting at `start`
  | foreign                -- an initialized tick array of another pool
  | other                  -- an empty system-owned account at some other address (ignored)
  deriving DecidableEq, Repr

def Supplied.covers (a : Supplied) (s : Int) : Bool :=
  match a with
  | .own x => x == s
  | .uninit x => x == s
  | _ => false

def Supplied.isForeign : Supplied → Bool
  | .foreign => true
  | _ => false

/-- `SparseSwapTickSequenceBuilder::new` + `try_build`: the start indexes of the sequence handed to
    `swap`.  Order, duplication and extra accounts are irrelevant by construction of the real code
    (sort + dedup by key, lookup by start index); here: only membership is consulted. -/
def buildSeq (cur : Int) (ts : Nat) (aToB : Bool) (accts : List Supplied) : R (List Int) :=
  if accts.any Supplied.isForeign then .error .DifferentWhirlpoolTickArrayAccount
  else
    let seq := (startTickIndexes cur ts aToB).takeWhile fun s => accts.any (·.covers s)
    if seq.isEmpty then .error .InvalidTickArraySequence else .ok seq

end WP
