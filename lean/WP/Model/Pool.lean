import WP.Model.SwapMath
/-
  State-machine model of a pool: the manager layer of programs/whirlpool/src/manager
  (tick_manager, position_manager, whirlpool_manager, liquidity_manager, swap_manager) over an
  ABSTRACT tick map (tick index ↦ tick data).  How ticks are packaged into fixed / dynamic /
  zeroed arrays is the business of C10 / C13; the three-array window of a swap is modelled by
  the start indexes of the supplied arrays.
  All accumulators are u128 with the wrapping arithmetic of the code (`wadd`, `wsub`).
-/
namespace WP
open WP.Gen

def TICK_ARRAY_SIZE : Nat := 88
def NUM_REWARDS : Nat := 3

def wadd (a b : Nat) : Nat := (a + b) % TWO128
def wsub (a b : Nat) : Nat := (a + TWO128 - b % TWO128) % TWO128
def wadd64 (a b : Nat) : Nat := (a + b) % TWO64

structure TickData where
  initialized : Bool := false
  net : Int := 0
  gross : Nat := 0
  fgoA : Nat := 0
  fgoB : Nat := 0
  rgo : List Nat := [0, 0, 0]
  deriving DecidableEq, Repr, Inhabited

structure RewardInfo where
  initialized : Bool := false     -- mint != Pubkey::default()
  emissions : Nat := 0            -- emissions_per_second_x64
  growth : Nat := 0               -- growth_global_x64
  deriving DecidableEq, Repr, Inhabited

structure PosReward where
  checkpoint : Nat := 0
  owed : Nat := 0
  deriving DecidableEq, Repr, Inhabited

structure PositionD where
  lower : Int
  upper : Int
  liq : Nat := 0
  cpA : Nat := 0
  owedA : Nat := 0
  cpB : Nat := 0
  owedB : Nat := 0
  rewards : List PosReward := [{}, {}, {}]
  deriving DecidableEq, Repr, Inhabited

structure PoolD where
  ts : Nat
  feeRate : Nat
  protoRate : Nat
  liq : Nat := 0
  price : Nat
  tick : Int
  pfA : Nat := 0
  pfB : Nat := 0
  fgA : Nat := 0
  fgB : Nat := 0
  rewardTs : Nat := 0
  rewards : List RewardInfo := [{}, {}, {}]
  deriving DecidableEq, Repr, Inhabited

/-- abstract tick map, kept sorted by tick index, holding only non-default entries -/
abbrev TickMap := List (Int × TickData)

def TickMap.get (m : TickMap) (i : Int) : TickData :=
  match m with
  | [] => {}
  | (k, v) :: rest => if k = i then v else TickMap.get rest i

/-- entries are never deleted (a de-initialised tick is stored as the default value), so that
    `get_set` holds for every list; the digest prints only non-default entries -/
def TickMap.set (m : TickMap) (i : Int) (v : TickData) : TickMap :=
  match m with
  | [] => [(i, v)]
  | (k, w) :: rest =>
    if k = i then (i, v) :: rest
    else if i < k then (i, v) :: (k, w) :: rest
    else (k, w) :: TickMap.set rest i v

/-- `Tick::check_is_usable_tick` -/
def isUsableTick (i : Int) (ts : Nat) : Bool :=
  decide (MIN_TICK_INDEX ≤ i) && decide (i ≤ MAX_TICK_INDEX) && decide (i % (ts : Int) = 0)

/-- `checked_mul_div(..).unwrap_or(0)` -/
def mulDivOr0 (a b d : Nat) : Nat :=
  match checkedMulDiv a b d with
  | .ok v => v
  | .error _ => 0

/-- `next_whirlpool_reward_infos` -/
def nextRewardInfos (p : PoolD) (ts : Nat) : R (List RewardInfo) :=
  if ts < p.rewardTs then .error .InvalidTimestamp
  else if p.liq = 0 || ts = p.rewardTs then .ok p.rewards
  else
    let dt := ts - p.rewardTs
    .ok (p.rewards.map fun r =>
      if !r.initialized then r
      else
        { r with growth := wadd r.growth (mulDivOr0 dt r.emissions p.liq) })

/-- `next_whirlpool_liquidity` -/
def nextWhirlpoolLiquidity (p : PoolD) (upper lower : Int) (delta : Int) : R Nat :=
  if p.tick < upper && p.tick ≥ lower then addLiquidityDelta p.liq delta else .ok p.liq

/-- i128 checked add/sub -/
def checkedI128 (x : Int) : R Int :=
  if -170141183460469231731687303715884105728 ≤ x ∧ x ≤ 170141183460469231731687303715884105727 then .ok x
  else .error .LiquidityNetError

/-- `next_tick_modify_liquidity_update` -/
def nextTickModifyLiquidityUpdate (t : TickData) (tickIndex curIndex : Int) (fgA fgB : Nat)
    (rewards : List RewardInfo) (delta : Int) (isUpper : Bool) : R TickData :=
  if delta = 0 then .ok t
  else
    match addLiquidityDelta t.gross delta with
    | .error e => .error e
    | .ok gross =>
      if gross = 0 then .ok {}
      else
        let (oa, ob, orw) :=
          if t.gross = 0 then
            if curIndex ≥ tickIndex then (fgA, fgB, rewards.map (·.growth)) else (0, 0, [0, 0, 0])
          else (t.fgoA, t.fgoB, t.rgo)
        match checkedI128 (if isUpper then t.net - delta else t.net + delta) with
        | .error e => .error e
        | .ok net => .ok { initialized := true, net := net, gross := gross, fgoA := oa, fgoB := ob, rgo := orw }

/-- one accumulator of `next_fee_growths_inside` / `next_reward_growths_inside` -/
def growthInside (cur : Int) (lo : TickData) (loIdx : Int) (loOut : Nat) (up : TickData) (upIdx : Int) (upOut : Nat)
    (glob : Nat) : Nat :=
  let below := if !lo.initialized then glob else if cur < loIdx then wsub glob loOut else loOut
  let above := if !up.initialized then 0 else if cur < upIdx then upOut else wsub glob upOut
  wsub (wsub glob below) above

def nextFeeGrowthsInside (cur : Int) (lo : TickData) (loIdx : Int) (up : TickData) (upIdx : Int) (fgA fgB : Nat) : Nat × Nat :=
  (growthInside cur lo loIdx lo.fgoA up upIdx up.fgoA fgA, growthInside cur lo loIdx lo.fgoB up upIdx up.fgoB fgB)

def nextRewardGrowthsInside (cur : Int) (lo : TickData) (loIdx : Int) (up : TickData) (upIdx : Int)
    (rewards : List RewardInfo) : List Nat :=
  (List.range 3).map fun i =>
    let r := rewards.getD i {}
    if !r.initialized then 0
    else growthInside cur lo loIdx (lo.rgo.getD i 0) up upIdx (up.rgo.getD i 0) r.growth

/-- `checked_mul_shift_right(..).unwrap_or(0)` -/
def mulShiftOr0 (a b : Nat) : Nat :=
  match checkedMulShiftRightRoundUpIf a b false with
  | .ok v => v
  | .error _ => 0

/-- `next_position_modify_liquidity_update` -/
def nextPositionUpdate (pos : PositionD) (delta : Int) (fiA fiB : Nat) (ri : List Nat) : R PositionD :=
  let feeA := mulShiftOr0 pos.liq (wsub fiA pos.cpA)
  let feeB := mulShiftOr0 pos.liq (wsub fiB pos.cpB)
  let rewards := (List.range 3).map fun i =>
    let cur := pos.rewards.getD i {}
    let g := ri.getD i 0
    ({ checkpoint := g, owed := wadd64 cur.owed (mulShiftOr0 pos.liq (wsub g cur.checkpoint)) } : PosReward)
  match addLiquidityDelta pos.liq delta with
  | .error e => .error e
  | .ok liq =>
    .ok { pos with liq := liq, cpA := fiA, owedA := wadd64 pos.owedA feeA, cpB := fiB, owedB := wadd64 pos.owedB feeB,
                   rewards := rewards }

structure ModifyUpdate where
  poolLiq : Nat
  tickLower : TickData
  tickUpper : TickData
  rewards : List RewardInfo
  position : PositionD
  deriving Repr

/-- `_calculate_modify_liquidity` (tick-array rent/size bookkeeping excluded) -/
def calculateModifyLiquidity (p : PoolD) (pos : PositionD) (tl tu : TickData) (delta : Int) (ts : Nat) : R ModifyUpdate :=
  if delta = 0 && pos.liq = 0 then .error .LiquidityZero
  else
    match nextRewardInfos p ts with
    | .error e => .error e
    | .ok rewards =>
      match nextWhirlpoolLiquidity p pos.upper pos.lower delta with
      | .error e => .error e
      | .ok poolLiq =>
        match nextTickModifyLiquidityUpdate tl pos.lower p.tick p.fgA p.fgB rewards delta false with
        | .error e => .error e
        | .ok tlu =>
          match nextTickModifyLiquidityUpdate tu pos.upper p.tick p.fgA p.fgB rewards delta true with
          | .error e => .error e
          | .ok tuu =>
            let (fiA, fiB) := nextFeeGrowthsInside p.tick tl pos.lower tu pos.upper p.fgA p.fgB
            let ri := nextRewardGrowthsInside p.tick tl pos.lower tu pos.upper rewards
            match nextPositionUpdate pos delta fiA fiB ri with
            | .error e => .error e
            | .ok pu => .ok { poolLiq := poolLiq, tickLower := tlu, tickUpper := tuu, rewards := rewards, position := pu }

/-- `calculate_liquidity_token_deltas` -/
def calculateLiquidityTokenDeltas (curTick : Int) (price : Nat) (lower upper : Int) (delta : Int) : R (Nat × Nat) :=
  if delta = 0 then .error .LiquidityZero
  else
    let liq := delta.natAbs
    let up := decide (delta > 0)
    let lp := sp lower
    let upP := sp upper
    if curTick < lower then
      match getAmountDeltaA lp upP liq up with
      | .error e => .error e
      | .ok a => .ok (a, 0)
    else if curTick < upper then
      match getAmountDeltaA price upP liq up with
      | .error e => .error e
      | .ok a =>
        match getAmountDeltaB lp price liq up with
        | .error e => .error e
        | .ok b => .ok (a, b)
    else
      match getAmountDeltaB lp upP liq up with
      | .error e => .error e
      | .ok b => .ok (0, b)

/-- `next_tick_cross_update` -/
def nextTickCrossUpdate (t : TickData) (fgA fgB : Nat) (rewards : List RewardInfo) : TickData :=
  { t with fgoA := wsub fgA t.fgoA, fgoB := wsub fgB t.fgoB,
           rgo := (List.range 3).map fun i =>
             let r := rewards.getD i {}
             if !r.initialized then t.rgo.getD i 0 else wsub r.growth (t.rgo.getD i 0) }

/-- `calculate_protocol_fee` / `calculate_fees` -/
def calculateFees (fee protoRate liq curProto fgIn : Nat) : Nat × Nat :=
  let delta := if protoRate > 0 then fee * protoRate / PROTOCOL_FEE_RATE_MUL_VALUE else 0
  let globalFee := fee - delta
  let nextProto := if protoRate > 0 then wadd64 curProto delta else curProto
  let nextFg := if liq > 0 then wadd fgIn (globalFee * TWO64 / liq) else fgIn
  (nextProto, nextFg)

end WP
