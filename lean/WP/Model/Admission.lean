import WP.Model.FeeRate
/-
  Model for C19: bounded setters (state/whirlpool.rs, config.rs, fee_tier.rs, adaptive_fee_tier.rs),
  pool initialisation checks, and the Token-2022 mint admission logic of util/v2/token.rs
  (get_token_extension_types, is_supported_token_mint, is_token_badge_initialized).
-/
namespace WP
open WP.Gen

/-- `Whirlpool::update_fee_rate`, `FeeTier::update_default_fee_rate`, `AdaptiveFeeTier::update_default_base_fee_rate` -/
def updateFeeRate (r : Nat) : R Nat := if r > MAX_FEE_RATE then .error .FeeRateMaxExceeded else .ok r
/-- `Whirlpool::update_protocol_fee_rate`, `WhirlpoolsConfig::update_default_protocol_fee_rate` -/
def updateProtocolFeeRate (r : Nat) : R Nat := if r > MAX_PROTOCOL_FEE_RATE then .error .ProtocolFeeRateMaxExceeded else .ok r

/-- the argument checks of `Whirlpool::initialize` (mints as numbers ordered like the byte-wise key order) -/
def initializePoolChecks (mintA mintB price tickSpacing feeRate protoRate : Nat) : R PoolD :=
  if mintA ≥ mintB then .error .InvalidTokenMintOrder
  else if !(MIN_SQRT_PRICE_X64 ≤ price && price ≤ MAX_SQRT_PRICE_X64) then .error .SqrtPriceOutOfBounds
  else if tickSpacing = 0 then .error .Panic
  else
    match updateFeeRate feeRate with
    | .error e => .error e
    | .ok f =>
      match updateProtocolFeeRate protoRate with
      | .error e => .error e
      | .ok p => .ok { ts := tickSpacing, feeRate := f, protoRate := p, price := price, tick := ti price }

/-- extension type numbers of Token-2022 (the enum `TokenExtensionType`, 0..=27) -/
def EXT_MAX : Nat := 27

def u16le (l : List Nat) (i : Nat) : Nat := l.getD i 0 + 256 * l.getD (i + 1) 0

/-- `get_token_extension_types`: returns (type, value offset, length) triples; `fuel` ≥ tlv length -/
def parseTlv (tlv : List Nat) : Nat → Nat → List (Nat × Nat × Nat) → Except String (List (Nat × Nat × Nat))
  | 0, _, acc => .ok acc.reverse
  | fuel + 1, cursor, acc =>
    if cursor ≥ tlv.length then .ok acc.reverse
    else if tlv.length < cursor + 2 then .ok acc.reverse
    else
      let ty := u16le tlv cursor
      if ty > EXT_MAX then .error "InvalidAccountData"
      else if ty = 0 then .ok acc.reverse
      else if tlv.length < cursor + 4 then .error "InvalidAccountData"
      else
        let len := u16le tlv (cursor + 2)
        let valueEnd := cursor + 4 + len
        if valueEnd > tlv.length then .error "InvalidAccountData"
        else parseTlv tlv fuel valueEnd ((ty, cursor + 4, len) :: acc)

inductive ExtClass where
  | supported | badgeGated | defaultState | never
  deriving DecidableEq, Repr

/-- classification used by `is_supported_token_mint` -/
def extClass (ty : Nat) : ExtClass :=
  if ty = 1 || ty = 10 || ty = 19 || ty = 18 || ty = 25 || ty = 4 || ty = 16 then .supported
  else if ty = 12 || ty = 14 || ty = 3 || ty = 26 then .badgeGated
  else if ty = 6 then .defaultState
  else .never

/-- the extension loop of `is_supported_token_mint` -/
def admitExts (tlv : List Nat) (freeze badge : Bool) (all : List (Nat × Nat × Nat)) : List (Nat × Nat × Nat) → Except String Bool
  | [] => .ok true
  | (ty, _, _) :: rest =>
    match extClass ty with
    | .supported => admitExts tlv freeze badge all rest
    | .badgeGated => if !badge then .ok false else admitExts tlv freeze badge all rest
    | .defaultState =>
      if !badge then .ok false
      else
        -- `get_extension::<DefaultAccountState>()` reads the FIRST entry of that type
        match all.find? (fun e => e.1 == 6) with
        | none => .error "InvalidAccountData"
        | some (_, off, len) =>
          if len ≠ 1 then .error "InvalidArgument"
          else if tlv.getD off 0 ≠ 1 && !freeze then .ok false
          else admitExts tlv freeze badge all rest
    | .never => .ok false

/-- `is_supported_token_mint` for a well-formed mint account -/
def isSupportedTokenMint (token2022 native2022 freeze badge : Bool) (tlv : List Nat) : Except String Bool :=
  if !token2022 then .ok true
  else if native2022 then .ok false
  else if freeze && !badge then .ok false
  else
    match parseTlv tlv (tlv.length + 1) 0 [] with
    | .error e => .error e
    | .ok exts => admitExts tlv freeze badge exts exts

/-- `is_token_badge_initialized` -/
def isTokenBadgeInitialized (ownedByProgram configMatches mintMatches : Bool) : Bool :=
  ownedByProgram && configMatches && mintMatches

/-- one mint slot of `initialize_pool_v2`: the mint account and what sits in its token-badge slot.
    `badge`: 0 nothing at the badge address · 1 the badge of (config, mint) · 2 an account that is NOT at the
    badge address (another config's or mint's badge) · 3 program-owned data at the address recording another
    config · 4 right content under a foreign owner · 5 the badge, carrying the require-non-transferable-position
    attribute -/
structure MintIn where
  token2022 : Bool
  native : Bool
  freeze : Bool
  tlv : List Nat
  badge : Nat

def badgeInit (k : Nat) : Bool :=
  if k = 1 ∨ k = 5 then isTokenBadgeInitialized true true true
  else if k = 3 then isTokenBadgeInitialized true false true
  else if k = 4 then isTokenBadgeInitialized false true true
  else false

/-- `verify_supported_token_mint` -/
def verifySupportedTokenMint (m : MintIn) : Except String Unit :=
  match isSupportedTokenMint m.token2022 m.native m.freeze (badgeInit m.badge) m.tlv with
  | .error e => .error e
  | .ok false => .error "UnsupportedTokenMint"
  | .ok true => .ok ()

/-- `initialize_pool_v2` (accounts struct constraints, then the handler), for well-formed accounts.
    `keyA`, `keyB` order like the two mint keys; the pool's data and its non-transferable-position flag. -/
def initializePoolV2 (keyA keyB : Nat) (a b : MintIn) (price ts tierTs fee proto : Nat) (wrongAddr : Bool := false) :
    Except String (PoolD × Bool) :=
  if wrongAddr then .error "ConstraintSeeds"     -- the account offered as the pool is not at the derived address
  else if a.badge = 2 ∨ b.badge = 2 then .error "ConstraintSeeds"
  else if tierTs ≠ ts then .error "ConstraintRaw"
  else
    match verifySupportedTokenMint a with
    | .error e => .error e
    | .ok _ =>
      match verifySupportedTokenMint b with
      | .error e => .error e
      | .ok _ =>
        match initializePoolChecks keyA keyB price ts fee proto with
        | .error e => .error e.name
        | .ok p => .ok (p, (badgeInit a.badge && a.badge == 5) || (badgeInit b.badge && b.badge == 5))

/-- `is_valid_trade_enable_timestamp` -/
def isValidTradeEnableTimestamp (te : Option Nat) (now : Nat) (permissioned : Bool) : Bool :=
  match te with
  | none => true
  | some t =>
    if !permissioned then false
    else if t > now then decide (t - now ≤ MAX_TRADE_ENABLE_TIMESTAMP_DELTA)
    else decide (now - t ≤ 30)

/-- `initialize_pool_with_adaptive_fee` (accounts struct, then the handler), for well-formed accounts.
    `authMode`: 0 the tier's initialize-pool authority signs (any signer for a permission-less tier) ·
    1 a stranger signs · 2 the key in the authority slot does not sign.
    Result: pool data, non-transferable-position flag, the Oracle's trade-enable time. -/
def initializePoolWithAdaptiveFee (keyA keyB : Nat) (a b : MintIn) (price proto now : Nat) (te : Option Nat)
    (authMode : Nat) (permissioned : Bool) (ts fee : Nat) (c : AfConstants) : Except String (PoolD × Bool × Nat) :=
  if authMode = 2 then .error "AccountNotSigner"
  else if authMode = 3 ∨ authMode = 4 then .error "ConstraintSeeds"   -- pool / Oracle not at the derived address
  else if a.badge = 2 ∨ b.badge = 2 then .error "ConstraintSeeds"
  else if permissioned && authMode = 1 then .error "ConstraintRaw"
  else
    match verifySupportedTokenMint a with
    | .error e => .error e
    | .ok _ =>
      match verifySupportedTokenMint b with
      | .error e => .error e
      | .ok _ =>
        if !isValidTradeEnableTimestamp te now permissioned then .error "InvalidTradeEnableTimestamp"
        else
          match initializePoolChecks keyA keyB price ts fee proto with
          | .error e => .error e.name
          | .ok p =>
            if !validateConstants ts c then .error "InvalidAdaptiveFeeConstants"
            else .ok (p, (badgeInit a.badge && a.badge == 5) || (badgeInit b.badge && b.badge == 5), te.getD 0)

end WP
