/-
  Data types for the translated account-constraint specifications (filled in by
  tools/extract_specs.py) and the semantics given to them.
  An `Env` says, for an instruction invocation, which key / signer flag every named account slot
  carries and how key-valued source expressions evaluate; `accepts` is the conjunction of what
  Anchor's generated `try_accounts` (resp. the Pinocchio prologue) checks, as far as signer and
  address/has_one/constraint attributes are concerned.
-/
namespace WP

structure AccField where
  name : String
  kind : String            -- Signer | Account | InterfaceAccount | Program | Interface | UncheckedAccount | AccountLoader | Sysvar
  ty : String
  optional : Bool := false
  attrs : List (String × String × String)   -- (keyword, expression text, custom error)
  deriving DecidableEq, Repr

structure AccSpec where
  name : String
  file : String
  fields : List AccField
  deriving DecidableEq, Repr

structure PinoSpec where
  file : String
  labels : List (String × String)            -- (variable, AccountIterator method)
  checks : List (String × String × String)   -- (verify_address | verify_constraint | load_* | other, arg1, arg2)
  core : List String                         -- guard calls / rejects of the handler core
  deriving DecidableEq, Repr

/-- an invocation environment -/
structure Env where
  key : String → Nat              -- key of the account in a named slot
  isSigner : String → Bool
  evalKey : String → Nat          -- value of a key-valued source expression (e.g. "whirlpools_config.fee_authority")
  evalBool : String → Bool        -- value of a boolean source expression (constraint = …)

/-- what one attribute demands of the environment -/
def holdsAttr (env : Env) (field : String) (a : String × String × String) : Prop :=
  match a.1 with
  | "address" => env.key field = env.evalKey a.2.1
  | "has_one" => env.evalKey (field ++ "." ++ a.2.1) = env.key a.2.1
  | "constraint" => env.evalBool a.2.1 = true
  | _ => True

def holdsField (env : Env) (f : AccField) : Prop :=
  (f.kind = "Signer" → env.isSigner f.name = true) ∧ ∀ a ∈ f.attrs, holdsAttr env f.name a

/-- acceptance by the account-validation layer of an Anchor instruction -/
def accepts (spec : AccSpec) (env : Env) : Prop := ∀ f ∈ spec.fields, holdsField env f

theorem accepts_field (spec : AccSpec) (env : Env) (h : accepts spec env) (f : AccField) (hf : f ∈ spec.fields) :
    holdsField env f := h f hf

/-- look up a spec / field by name -/
def findSpec (l : List AccSpec) (n : String) : Option AccSpec := l.find? (·.name == n)
def findField (s : AccSpec) (n : String) : Option AccField := s.fields.find? (·.name == n)

/-- decidable presence tests used by the requirement tables -/
def hasAttr (l : List AccSpec) (spec field key expr : String) : Bool :=
  match findSpec l spec with
  | none => false
  | some s =>
    match findField s field with
    | none => false
    | some f => f.attrs.any fun a => a.1 == key && a.2.1 == expr

def hasKind (l : List AccSpec) (spec field kind : String) : Bool :=
  match findSpec l spec with
  | none => false
  | some s =>
    match findField s field with
    | none => false
    | some f => f.kind == kind

theorem find_mem {α} (l : List α) (p : α → Bool) (x : α) (h : l.find? p = some x) : x ∈ l := List.mem_of_find?_eq_some h

/-- from the decidable presence test to the semantic consequence -/
theorem hasAttr_sound (l : List AccSpec) (spec field key expr : String) (h : hasAttr l spec field key expr = true) :
    ∃ s f, findSpec l spec = some s ∧ findField s field = some f ∧ ∃ e, (key, expr, e) ∈ f.attrs := by
  unfold hasAttr at h
  split at h
  · cases h
  · rename_i s hs
    split at h
    · cases h
    · rename_i f hf
      simp only [List.any_eq_true, Bool.and_eq_true, beq_iff_eq] at h
      obtain ⟨a, ha, h1, h2⟩ := h
      refine ⟨s, f, hs, hf, a.2.2, ?_⟩
      have : a = (key, expr, a.2.2) := by
        obtain ⟨x, y, z⟩ := a
        simp only at h1 h2
        subst h1; subst h2; rfl
      rw [← this]; exact ha

theorem hasKind_sound (l : List AccSpec) (spec field kind : String) (h : hasKind l spec field kind = true) :
    ∃ s f, findSpec l spec = some s ∧ findField s field = some f ∧ f.kind = kind := by
  unfold hasKind at h
  split at h
  · cases h
  · rename_i s hs
    split at h
    · cases h
    · rename_i f hf
      exact ⟨s, f, hs, hf, by simpa using h⟩

theorem findField_mem (s : AccSpec) (n : String) (f : AccField) (h : findField s n = some f) : f ∈ s.fields ∧ f.name = n := by
  unfold findField at h
  exact ⟨List.mem_of_find?_eq_some h, by have := List.find?_some h; simpa using this⟩

/-- model of verify_position_authority / _interface / pino_verify_position_authority:
    the delegate branch is taken only when the authority key equals the delegate -/
def verifyPositionAuthority (owner : Nat) (delegate : Option Nat) (delegatedAmount : Nat) (authKey : Nat) (authSigner : Bool) : Bool :=
  match delegate with
  | some d =>
    if authKey = d then (decide (d = authKey) && authSigner) && decide (delegatedAmount = 1)
    else decide (owner = authKey) && authSigner
  | none => decide (owner = authKey) && authSigner


/-- model of load_tick_array / load_tick_array_mut (Anchor and Pinocchio): the order of the checks -/
def loadTickArray (ownerOk writable : Bool) (disc : Nat) (whirlpoolOk isMut : Bool) : Option String :=
  if isMut && !writable then some "AccountNotMutable"
  else if !ownerOk then some "AccountOwnedByWrongProgram"
  else if disc = 3 then some "AccountDiscriminatorNotFound"
  else if disc ≥ 2 then some "AccountDiscriminatorMismatch"
  else if !whirlpoolOk then some "DifferentWhirlpoolTickArrayAccount"
  else none

end WP
