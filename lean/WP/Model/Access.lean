/-
  Data types for the translated account-constraint specifications (filled in by
  tools/extract_specs.py) and the semantics given to them.
  An `Env` says, for an instruction invocation, which key / signer flag every named account slot
  carries and how key-valued source expressions evaluate; `accepts` is the conjunction of what
  Anchor's generated `try_accounts` (resp. the Pinocchio prologue) checks, as far as signer and
  address/has_one/constraint attributes are concerned.
-/
namespace WP

structure AccField where
  name : String
  kind : String            -- Signer | Account | InterfaceAccount | Program | Interface | UncheckedAccount | AccountLoader | Sysvar
  ty : String
  optional : Bool := false
  attrs : List (String × String × String)   -- (keyword, expression text, custom error)
  deriving DecidableEq, Repr

structure AccSpec where
  name : String
  file : String
  fields : List AccField
  deriving DecidableEq, Repr

structure PinoSpec where
  file : String
  labels : List (String × String)            -- (variable, AccountIterator method)
  checks : List (String × String × String)   -- (verify_address | verify_constraint | load_* | other, arg1, arg2)
  core : List String                         -- guard calls / rejects of the handler core
  deriving DecidableEq, Repr

/-- an invocation environment -/
structure Env where
  key : String → Nat              -- key of the account in a named slot
  isSigner : String → Bool
  evalKey : String → Nat          -- value of a key-valued source expression (e.g. "whirlpools_config.fee_authority")
  evalBool : String → Bool        -- value of a boolean source expression (constraint = …)

/-- what one attribute demands of the environment -/
def holdsAttr (env : Env) (field : String) (a : String × String × String) : Prop :=
  match a.1 with
  | "address" => env.key field = env.evalKey a.2.1
  | "has_one" => env.evalKey (field ++ "." ++ a.2.1) = env.key a.2.1
  | "constraint" => env.evalBool a.2.1 = true
  | _ => True

def holdsField (env : Env) (f : AccField) : Prop :=
  (f.kind = "Signer" → env.isSigner f.name = true) ∧ ∀ a ∈ f.attrs, holdsAttr env f.name a

/-- acceptance by the account-validation layer of an Anchor instruction -/
def accepts (spec : AccSpec) (env : Env) : Prop := ∀ f ∈ spec.fields, holdsField env f

theorem accepts_field (spec : AccSpec) (env : Env) (h : accepts spec env) (f : AccField) (hf : f ∈ spec.fields) :
    holdsField env f := h f hf

/-- look up a spec / field by name -/
def findSpec (l : List AccSpec) (n : String) : Option AccSpec := l.find? (·.name == n)
def findField (s : AccSpec) (n : String) : Option AccField := s.fields.find? (·.name == n)

/-- decidable presence tests used by the requirement tables -/
def hasAttr (l : List AccSpec) (spec field key expr : String) : Bool :=
  match findSpec l spec with
  | none => false
  | some s =>
    match findField s field with
    | none => false
    | some f => f.attrs.any fun a => a.1 == key && a.2.1 == expr

def hasKind (l : List AccSpec) (spec field kind : String) : Bool :=
  match findSpec l spec with
  | none => false
  | some s =>
    match findField s field with
    | none => false
    | some f => f.kind == kind

theorem find_mem {α} (l : List α) (p : α → Bool) (x : α) (h : l.find? p = some x) : x ∈ l := List.mem_of_find?_eq_some h

/-- from the decidable presence test to the semantic consequence -/
theorem hasAttr_sound (l : List AccSpec) (spec field key expr : String) (h : hasAttr l spec field key expr = true) :
    ∃ s f, findSpec l spec = some s ∧ findField s field = some f ∧ ∃ e, (key, expr, e) ∈ f.attrs := by
  unfold hasAttr at h
  split at h
  · cases h
  · rename_i s hs
    split at h
    · cases h
    · rename_i f hf
      simp only [List.any_eq_true, Bool.and_eq_true, beq_iff_eq] at h
      obtain ⟨a, ha, h1, h2⟩ := h
      refine ⟨s, f, hs, hf, a.2.2, ?_⟩
      have : a = (key, expr, a.2.2) := by
        obtain ⟨x, y, z⟩ := a
        simp only at h1 h2
        subst h1; subst h2; rfl
      rw [← this]; exact ha

theorem hasKind_sound (l : List AccSpec) (spec field kind : String) (h : hasKind l spec field kind = true) :
    ∃ s f, findSpec l spec = some s ∧ findField s field = some f ∧ f.kind = kind := by
  unfold hasKind at h
  split at h
  · cases h
  · rename_i s hs
    split at h
    · cases h
    · rename_i f hf
      exact ⟨s, f, hs, hf, by simpa using h⟩

theorem findField_mem (s : AccSpec) (n : String) (f : AccField) (h : findField s n = some f) : f ∈ s.fields ∧ f.name = n := by
  unfold findField at h
  exact ⟨List.mem_of_find?_eq_some h, by have := List.find?_some h; simpa using this⟩

/-! ### executable acceptance on an explicit environment (family `xadm`: the translated tables and the
     semantics above against Anchor's generated `try_accounts`, run through the real entrypoint) -/

def holdsAttrB (key : String → Nat) (evalKey : String → Nat) (evalBool : String → Bool) (field : String) (a : String × String × String) : Bool :=
  if a.1 = "address" then key field == evalKey a.2.1
  else if a.1 = "has_one" then evalKey (field ++ "." ++ a.2.1) == key a.2.1
  else if a.1 = "constraint" then evalBool a.2.1
  else true

def acceptsB (spec : AccSpec) (env : Env) : Bool :=
  spec.fields.all fun f => (f.kind != "Signer" || env.isSigner f.name) && f.attrs.all (holdsAttrB env.key env.evalKey env.evalBool f.name)

theorem holdsAttrB_iff (env : Env) (field : String) (a : String × String × String) :
    holdsAttrB env.key env.evalKey env.evalBool field a = true ↔ holdsAttr env field a := by
  unfold holdsAttrB holdsAttr
  by_cases h1 : a.1 = "address"
  · simp [h1]
  · by_cases h2 : a.1 = "has_one"
    · simp [h2]
    · by_cases h3 : a.1 = "constraint"
      · simp [h3]
      · simp only [h1, h2, h3, if_false]

/-- the executable test decides the specification-level acceptance -/
theorem acceptsB_iff (spec : AccSpec) (env : Env) : acceptsB spec env = true ↔ accepts spec env := by
  unfold acceptsB accepts holdsField
  rw [List.all_eq_true]
  constructor
  · intro h f hf
    have := h f hf
    simp only [Bool.and_eq_true, Bool.or_eq_true, bne_iff_ne, ne_eq, List.all_eq_true] at this
    refine ⟨fun hk => ?_, fun a ha => (holdsAttrB_iff env f.name a).mp (this.2 a ha)⟩
    rcases this.1 with h1 | h1
    · exact absurd hk h1
    · exact h1
  · intro h f hf
    obtain ⟨h1, h2⟩ := h f hf
    simp only [Bool.and_eq_true, Bool.or_eq_true, bne_iff_ne, ne_eq, List.all_eq_true]
    refine ⟨?_, fun a ha => (holdsAttrB_iff env f.name a).mpr (h2 a ha)⟩
    by_cases hk : f.kind = "Signer"
    · right; exact h1 hk
    · left; exact hk

def assocNat (l : List (String × Nat)) (k : String) : Nat :=
  match l with
  | [] => 0
  | (a, v) :: r => if a = k then v else assocNat r k

/-- the environment described by an `xadm` line: per field (key, signer flag), per checked attribute
    (address / has_one / constraint, in source order) the value the harness read from the real accounts -/
def envOfLine (spec : AccSpec) (keys : List (Nat × Bool)) (vals : List Nat) : Option Env :=
  let names := spec.fields.map (·.name)
  let attrKeys : List (String × String) := spec.fields.flatMap fun f =>
    (f.attrs.filter fun a => a.1 = "address" || a.1 = "has_one" || a.1 = "constraint").map fun a =>
      (a.1, if a.1 = "has_one" then f.name ++ "." ++ a.2.1 else a.2.1)
  if names.length ≠ keys.length || attrKeys.length ≠ vals.length then none
  else
    let keyTab := names.zip (keys.map (·.1))
    let sigTab := names.zip (keys.map fun k => if k.2 then 1 else 0)
    let valTab := (attrKeys.map (·.2)).zip vals
    some { key := assocNat keyTab, isSigner := fun n => assocNat sigTab n == 1, evalKey := assocNat valTab,
           evalBool := fun e => assocNat valTab e == 1 }

/-- model of verify_position_authority / _interface / pino_verify_position_authority:
    the delegate branch is taken only when the authority key equals the delegate -/
def verifyPositionAuthority (owner : Nat) (delegate : Option Nat) (delegatedAmount : Nat) (authKey : Nat) (authSigner : Bool) : Bool :=
  match delegate with
  | some d =>
    if authKey = d then (decide (d = authKey) && authSigner) && decide (delegatedAmount = 1)
    else decide (owner = authKey) && authSigner
  | none => decide (owner = authKey) && authSigner


/-- model of load_tick_array / load_tick_array_mut (Anchor and Pinocchio): the order of the checks -/
def loadTickArray (ownerOk writable : Bool) (disc : Nat) (whirlpoolOk isMut : Bool) : Option String :=
  if isMut && !writable then some "AccountNotMutable"
  else if !ownerOk then some "AccountOwnedByWrongProgram"
  else if disc = 3 then some "AccountDiscriminatorNotFound"
  else if disc ≥ 2 then some "AccountDiscriminatorMismatch"
  else if !whirlpoolOk then some "DifferentWhirlpoolTickArrayAccount"
  else none

end WP
