import WP.Model.TokenMath
/-  Model of programs/whirlpool/src/math/swap_math.rs `compute_swap`. -/
namespace WP
open WP.Gen

structure SwapStep where
  amountIn : Nat
  amountOut : Nat
  nextPrice : Nat
  feeAmount : Nat
  deriving DecidableEq, Repr

def getAmountFixedDelta (cur tgt liq : Nat) (isInput aToB : Bool) : R Nat :=
  if aToB = isInput then getAmountDeltaA cur tgt liq isInput else getAmountDeltaB cur tgt liq isInput

def tryGetAmountFixedDelta (cur tgt liq : Nat) (isInput aToB : Bool) : R AmountDelta :=
  if aToB = isInput then tryGetAmountDeltaA cur tgt liq isInput else tryGetAmountDeltaB cur tgt liq isInput

def getAmountUnfixedDelta (cur tgt liq : Nat) (isInput aToB : Bool) : R Nat :=
  if aToB = isInput then getAmountDeltaB cur tgt liq (!isInput) else getAmountDeltaA cur tgt liq (!isInput)

/-- the net budget the step may spend on the curve (`amount_calc`) -/
def amountCalcOf (rem feeRate : Nat) (isInput : Bool) : R Nat :=
  if isInput then
    match checkedMulDiv rem (FEE_RATE_MUL_VALUE - feeRate) FEE_RATE_MUL_VALUE with
    | .error e => .error e
    | .ok v => toU64 v
  else .ok rem

/-- `next_sqrt_price` -/
def stepNext (initial : AmountDelta) (amountCalc cur tgt liq : Nat) (isInput aToB : Bool) : R Nat :=
  if initial.lte amountCalc then .ok tgt else getNextSqrtPrice cur liq amountCalc isInput aToB

/-- `amount_fixed_delta` -/
def stepFixed (initial : AmountDelta) (next cur tgt liq : Nat) (isInput aToB : Bool) : R Nat :=
  if !(next == tgt) || initial.isExceedsMax then getAmountFixedDelta cur next liq isInput aToB
  else match initial with
    | .valid v => .ok v
    | .exceedsMax _ => .error .Panic

/-- `fee_amount` -/
def stepFee (rem amountIn feeRate next tgt : Nat) (isInput : Bool) : R Nat :=
  if isInput && !(next == tgt) then .ok ((rem + TWO64 - amountIn) % TWO64)
  else
    match checkedMulDivRoundUp amountIn feeRate (FEE_RATE_MUL_VALUE - feeRate) with
    | .error e => .error e
    | .ok v => toU64 v

/-- `compute_swap` -/
def computeSwap (rem feeRate liq cur tgt : Nat) (isInput aToB : Bool) : R SwapStep :=
  match tryGetAmountFixedDelta cur tgt liq isInput aToB with
  | .error e => .error e
  | .ok initial =>
    match amountCalcOf rem feeRate isInput with
    | .error e => .error e
    | .ok amountCalc =>
      match stepNext initial amountCalc cur tgt liq isInput aToB with
      | .error e => .error e
      | .ok next =>
        match getAmountUnfixedDelta cur next liq isInput aToB with
        | .error e => .error e
        | .ok unfixed =>
          match stepFixed initial next cur tgt liq isInput aToB with
          | .error e => .error e
          | .ok fixed =>
            let amountIn := if isInput then fixed else unfixed
            let amountOut0 := if isInput then unfixed else fixed
            let amountOut := if !isInput && amountOut0 > rem then rem else amountOut0
            match stepFee rem amountIn feeRate next tgt isInput with
            | .error e => .error e
            | .ok fee => .ok { amountIn := amountIn, amountOut := amountOut, nextPrice := next, feeAmount := fee }

end WP
