import WP.Model.Pool
/-
  Model of programs/whirlpool/src/state/oracle.rs (AdaptiveFeeConstants / AdaptiveFeeVariables)
  and programs/whirlpool/src/manager/fee_rate_manager.rs (FeeRateManager).
-/
namespace WP
open WP.Gen

def VOLATILITY_ACCUMULATOR_SCALE_FACTOR : Nat := 10000
def REDUCTION_FACTOR_DENOMINATOR : Nat := 10000
def ADAPTIVE_FEE_CONTROL_FACTOR_DENOMINATOR : Nat := 100000
def MAX_REFERENCE_AGE : Nat := 3600
def TWO32 : Nat := 4294967296

structure AfConstants where
  filterPeriod : Nat
  decayPeriod : Nat
  reductionFactor : Nat
  controlFactor : Nat
  maxVolAcc : Nat
  groupSize : Nat
  majorSwapThresholdTicks : Nat
  deriving DecidableEq, Repr, Inhabited

structure AfVariables where
  lastRefUpdateTs : Nat := 0
  lastMajorSwapTs : Nat := 0
  volRef : Nat := 0
  groupIndexRef : Int := 0
  volAcc : Nat := 0
  deriving DecidableEq, Repr, Inhabited

/-- `AdaptiveFeeConstants::validate_constants` -/
def validateConstants (tickSpacing : Nat) (c : AfConstants) : Bool :=
  if c.filterPeriod = 0 then false
  else if c.decayPeriod = 0 || c.decayPeriod ≤ c.filterPeriod then false
  else if c.controlFactor ≥ ADAPTIVE_FEE_CONTROL_FACTOR_DENOMINATOR then false
  else if c.maxVolAcc * c.groupSize > 4294967295 then false
  else if c.reductionFactor ≥ REDUCTION_FACTOR_DENOMINATOR then false
  else if c.groupSize = 0 || c.groupSize > tickSpacing || tickSpacing % c.groupSize ≠ 0 then false
  else if c.majorSwapThresholdTicks = 0 || c.majorSwapThresholdTicks > tickSpacing * TICK_ARRAY_SIZE then false
  else true

/-- `update_volatility_accumulator` -/
def AfVariables.updateVolAcc (v : AfVariables) (groupIndex : Int) (c : AfConstants) : AfVariables :=
  let indexDelta := (v.groupIndexRef - groupIndex).natAbs
  let acc := v.volRef + indexDelta * VOLATILITY_ACCUMULATOR_SCALE_FACTOR
  { v with volAcc := min acc c.maxVolAcc }

/-- `update_reference` -/
def AfVariables.updateReference (v : AfVariables) (groupIndex : Int) (now : Nat) (c : AfConstants) : R AfVariables :=
  let maxTs := max v.lastRefUpdateTs v.lastMajorSwapTs
  if now < maxTs then .error .InvalidTimestamp
  else
    let age := now - v.lastRefUpdateTs
    if age > MAX_REFERENCE_AGE then
      .ok { v with groupIndexRef := groupIndex, volRef := 0, lastRefUpdateTs := now }
    else
      let elapsed := now - maxTs
      if elapsed < c.filterPeriod then .ok v
      else if elapsed < c.decayPeriod then
        .ok { v with groupIndexRef := groupIndex,
                     volRef := (v.volAcc * c.reductionFactor / REDUCTION_FACTOR_DENOMINATOR) % TWO32,
                     lastRefUpdateTs := now }
      else .ok { v with groupIndexRef := groupIndex, volRef := 0, lastRefUpdateTs := now }

/-- `is_major_swap` -/
def isMajorSwap (pre post thresholdTicks : Nat) : R Bool :=
  let lo := min pre post
  let hi := max pre post
  let factor := sp thresholdTicks
  let target := (lo * factor % TWO256) / TWO64
  if target > U128_MAX then .error .NumberDownCastError else .ok (hi ≥ target)

def AfVariables.updateMajorSwapTs (v : AfVariables) (pre post now : Nat) (c : AfConstants) : R AfVariables :=
  match isMajorSwap pre post c.majorSwapThresholdTicks with
  | .error e => .error e
  | .ok true => .ok { v with lastMajorSwapTs := now }
  | .ok false => .ok v

structure AfInfo where
  constants : AfConstants
  variables : AfVariables
  deriving DecidableEq, Repr, Inhabited

/-- the arguments of `set_adaptive_fee_constants` (instructions/adaptive_fee/set_adaptive_fee_constants.rs): each one optional -/
structure AfRequest where
  filterPeriod : Option Nat := none
  decayPeriod : Option Nat := none
  reductionFactor : Option Nat := none
  controlFactor : Option Nat := none
  maxVolAcc : Option Nat := none
  groupSize : Option Nat := none
  majorSwapThresholdTicks : Option Nat := none
  deriving Repr

/-- `x.unwrap_or(existing.x)` field by field -/
def AfRequest.apply (r : AfRequest) (c : AfConstants) : AfConstants :=
  { filterPeriod := r.filterPeriod.getD c.filterPeriod, decayPeriod := r.decayPeriod.getD c.decayPeriod,
    reductionFactor := r.reductionFactor.getD c.reductionFactor, controlFactor := r.controlFactor.getD c.controlFactor,
    maxVolAcc := r.maxVolAcc.getD c.maxVolAcc, groupSize := r.groupSize.getD c.groupSize,
    majorSwapThresholdTicks := r.majorSwapThresholdTicks.getD c.majorSwapThresholdTicks }

/-- the handler of `set_adaptive_fee_constants` on the pool's Oracle: merge, refuse a request that changes nothing,
    validate for the pool's tick spacing (`Oracle::initialize_adaptive_fee_constants`), store, and RESET the variables
    (`reset_adaptive_fee_variables`) -/
def setAdaptiveFeeConstants (tickSpacing : Nat) (info : AfInfo) (r : AfRequest) : R AfInfo :=
  let c := r.apply info.constants
  if c = info.constants then .error .AdaptiveFeeConstantsUnchanged
  else if validateConstants tickSpacing c then .ok { constants := c, variables := {} }
  else .error .InvalidAdaptiveFeeConstants

structure AdaptiveMgr where
  aToB : Bool
  groupIndex : Int
  staticRate : Nat
  c : AfConstants
  v : AfVariables
  lowerBound : Option (Int × Nat)
  upperBound : Option (Int × Nat)
  deriving Repr

inductive FeeMgr where
  | static (rate : Nat)
  | adaptive (m : AdaptiveMgr)
  deriving Repr

def toI32 (x : Nat) : Int := if x % TWO32 ≥ 2147483648 then (x % TWO32 : Nat) - 4294967296 else (x % TWO32 : Nat)

def ceilDiv (a b : Nat) : Nat := if a / b * b = a then a / b else a / b + 1

/-- `FeeRateManager::new` -/
def FeeMgr.new (aToB : Bool) (curTick : Int) (now staticRate : Nat) (info : Option AfInfo) : R FeeMgr :=
  match info with
  | none => .ok (.static staticRate)
  | some info =>
    let c := info.constants
    let gi := curTick / (c.groupSize : Int)
    match info.variables.updateReference gi now c with
    | .error e => .error e
    | .ok v =>
      -- u32 subtraction, wrapping in the release profile
      let diff := (c.maxVolAcc + TWO32 - v.volRef) % TWO32
      let delta := toI32 (ceilDiv diff VOLATILITY_ACCUMULATOR_SCALE_FACTOR)
      let lowerIdx := v.groupIndexRef - delta
      let upperIdx := v.groupIndexRef + delta
      let lowerTick := lowerIdx * c.groupSize
      let upperTick := upperIdx * c.groupSize + c.groupSize
      let lb := if lowerTick > MIN_TICK_INDEX then some (lowerIdx, sp lowerTick) else none
      let ub := if upperTick < MAX_TICK_INDEX then some (upperIdx, sp upperTick) else none
      .ok (.adaptive { aToB := aToB, groupIndex := gi, staticRate := staticRate, c := c, v := v, lowerBound := lb, upperBound := ub })

def FeeMgr.updateVolAcc : FeeMgr → FeeMgr
  | .static r => .static r
  | .adaptive m => .adaptive { m with v := m.v.updateVolAcc m.groupIndex m.c }

/-- `compute_adaptive_fee_rate` -/
def computeAdaptiveFeeRate (c : AfConstants) (v : AfVariables) : Nat :=
  let crossed := (v.volAcc * c.groupSize) % TWO32
  let squared := crossed * crossed
  let rate := ceilDiv (c.controlFactor * squared)
    (ADAPTIVE_FEE_CONTROL_FACTOR_DENOMINATOR * VOLATILITY_ACCUMULATOR_SCALE_FACTOR * VOLATILITY_ACCUMULATOR_SCALE_FACTOR)
  if rate > FEE_RATE_HARD_LIMIT then FEE_RATE_HARD_LIMIT else rate

def FeeMgr.totalFeeRate : FeeMgr → Nat
  | .static r => r
  | .adaptive m =>
    let t := m.staticRate + computeAdaptiveFeeRate m.c m.v
    if t > FEE_RATE_HARD_LIMIT then FEE_RATE_HARD_LIMIT else t

def clampTick (t : Int) : Int := max MIN_TICK_INDEX (min MAX_TICK_INDEX t)

/-- `get_bounded_sqrt_price_target` -/
def FeeMgr.boundedTarget (f : FeeMgr) (target liq : Nat) : Nat × Bool :=
  match f with
  | .static _ => (target, false)
  | .adaptive m =>
    if m.c.controlFactor = 0 then (target, true)
    else if liq = 0 then (target, true)
    else
      match (match m.lowerBound with
             | some (li, lp) => if m.groupIndex < li then some (if m.aToB then (target, true) else (min target lp, true)) else none
             | none => none) with
      | some r => r
      | none =>
        match (match m.upperBound with
               | some (ui, up) => if m.groupIndex > ui then some (if m.aToB then (max target up, true) else (target, true)) else none
               | none => none) with
        | some r => r
        | none =>
          let bt := if m.aToB then m.groupIndex * m.c.groupSize else m.groupIndex * m.c.groupSize + m.c.groupSize
          let bp := sp (clampTick bt)
          if m.aToB then (max target bp, false) else (min target bp, false)

def FeeMgr.advance : FeeMgr → FeeMgr
  | .static r => .static r
  | .adaptive m => .adaptive { m with groupIndex := m.groupIndex + (if m.aToB then -1 else 1) }

/-- `advance_tick_group_after_skip` (the static manager never skips: `unreachable!`) -/
def FeeMgr.advanceAfterSkip (f : FeeMgr) (price nextTickPrice : Nat) (nextTickIndex : Int) : R FeeMgr :=
  match f with
  | .static _ => .error .Panic
  | .adaptive m =>
    let gs : Int := m.c.groupSize
    let (tickIndex, onBoundary) :=
      if price = nextTickPrice then (nextTickIndex, decide (nextTickIndex % gs = 0))
      else
        let t := ti price
        (t, decide (t % gs = 0) && decide (price = sp t))
    let last := if onBoundary && !m.aToB then tickIndex / gs - 1 else tickIndex / gs
    let m' := if (m.aToB && decide (last < m.groupIndex)) || (!m.aToB && decide (last > m.groupIndex)) then
        { m with groupIndex := last, v := m.v.updateVolAcc last m.c }
      else m
    .ok (.adaptive { m' with groupIndex := m'.groupIndex + (if m'.aToB then -1 else 1) })

def FeeMgr.updateMajorSwapTs (f : FeeMgr) (now pre post : Nat) : R FeeMgr :=
  match f with
  | .static r => .ok (.static r)
  | .adaptive m =>
    match m.v.updateMajorSwapTs pre post now m.c with
    | .error e => .error e
    | .ok v => .ok (.adaptive { m with v := v })

def FeeMgr.nextInfo : FeeMgr → Option AfInfo
  | .static _ => none
  | .adaptive m => some { constants := m.c, variables := m.v }

end WP
