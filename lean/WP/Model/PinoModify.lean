import WP.Model.Pool
/-
  The one place where the Pinocchio port of the liquidity manager
  (programs/whirlpool/src/pinocchio/ported/manager_liquidity_manager.rs) is NOT a statement-by-statement port of the
  Anchor manager: `pino_next_whirlpool_reward_growth_global` skips a reward when its EMISSIONS are zero
  ("It is same to !reward_info.initialized() and also it can skip mul_div with 0 value"), where
  `next_whirlpool_reward_infos` skips it when it is NOT INITIALIZED.  (Everything else of the port — tick update,
  growths inside, position update, token deltas — has the Anchor functions' statements; those are modelled once, in
  Pool.lean, and compared with BOTH implementations by family `pmod` and by every history.)
-/
namespace WP
open WP.Gen

/-- `pino_next_whirlpool_reward_growth_global`: the three next global growths -/
def pinoNextRewardGrowths (p : PoolD) (ts : Nat) : R (List Nat) :=
  if ts < p.rewardTs then .error .InvalidTimestamp
  else if p.liq = 0 || ts = p.rewardTs then .ok (p.rewards.map (·.growth))
  else
    let dt := ts - p.rewardTs
    .ok (p.rewards.map fun r =>
      if r.emissions = 0 then r.growth else wadd r.growth (mulDivOr0 dt r.emissions p.liq))

end WP
