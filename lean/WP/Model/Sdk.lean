import WP.Model.Pool
/-
  Model of the Rust core SDK's token math (rust-sdk/core/src/math/token.rs, quote/liquidity.rs) on
  `ethnum::U256`, release semantics (arithmetic wraps at 2^256, division by zero aborts).
  Errors are collapsed to `.Other` ("sdk") except aborts (`.Panic`).
-/
namespace WP
open WP.Gen

def U256_MAX : Nat := TWO256 - 1

/-- the fixed `checked_shl_64`: fails when bits would be shifted out -/
def sdkShl64 (v : Nat) : R Nat := if v > U256_MAX / TWO64 then .error .Other else .ok (v * TWO64)

/-- `try_get_amount_delta_a` -/
def sdkDeltaA (p0 p1 liq : Nat) (roundUp : Bool) : R Nat :=
  let lo := (incOrder p0 p1).1
  let hi := (incOrder p0 p1).2
  let diff := hi - lo
  match sdkShl64 (liq * diff) with
  | .error e => .error e
  | .ok num =>
    let den := lo * hi
    if den = 0 then .error .Panic
    else
      let q := num / den
      let res := if roundUp && num % den ≠ 0 then q + 1 else q
      if res > U64_MAX then .error .Other else .ok res

/-- `try_get_amount_delta_b` -/
def sdkDeltaB (p0 p1 liq : Nat) (roundUp : Bool) : R Nat :=
  let lo := (incOrder p0 p1).1
  let hi := (incOrder p0 p1).2
  let prod := liq * (hi - lo)
  let q := prod / TWO64
  let res := if roundUp && prod % TWO64 > 0 then q + 1 else q
  if res > U64_MAX then .error .Other else .ok res

/-- `try_get_next_sqrt_price_from_a` -/
def sdkNextFromA (p liq amount : Nat) (isInput : Bool) : R Nat :=
  if amount = 0 then .ok p
  else
    let prod := p * amount
    match sdkShl64 (liq * p) with
    | .error e => .error e
    | .ok num =>
      let liqShl := liq * TWO64
      let den := if isInput then liqShl + prod else (liqShl + TWO256 - prod) % TWO256
      if den = 0 then .error .Panic
      else
        let q := num / den
        let res := if num % den ≠ 0 then q + 1 else q
        if res < MIN_SQRT_PRICE_X64 || res > MAX_SQRT_PRICE_X64 then .error .Other else .ok res

/-- `try_get_next_sqrt_price_from_b` -/
def sdkNextFromB (p liq amount : Nat) (isInput : Bool) : R Nat :=
  if amount = 0 then .ok p
  else if liq = 0 then .error .Panic
  else
    let sh := amount * TWO64
    let q := sh / liq
    let delta := if !isInput && sh % liq ≠ 0 then q + 1 else q
    let res := if isInput then p + delta else (p + TWO256 - delta) % TWO256
    if res < MIN_SQRT_PRICE_X64 || res > MAX_SQRT_PRICE_X64 then .error .Other else .ok res

/-- `try_get_token_estimates_from_liquidity` (position status by price) -/
def sdkTokenEstimates (liq price : Nat) (tl tu : Int) (roundUp : Bool) : R (Nat × Nat) :=
  if liq = 0 then .ok (0, 0)
  else
    let pl := sp tl
    let pu := sp tu
    if tl = tu then .ok (0, 0)        -- PositionStatus::Invalid (tl > tu is outside the modelled domain)
    else if price ≤ pl then
      match sdkDeltaA pl pu liq roundUp with
      | .error e => .error e
      | .ok a => .ok (a, 0)
    else if price ≥ pu then
      match sdkDeltaB pl pu liq roundUp with
      | .error e => .error e
      | .ok b => .ok (0, b)
    else
      match sdkDeltaA price pu liq roundUp with
      | .error e => .error e
      | .ok a =>
        match sdkDeltaB pl price liq roundUp with
        | .error e => .error e
        | .ok b => .ok (a, b)

/-- `try_get_max_amount_with_slippage_tolerance` / `try_get_min_amount_with_slippage_tolerance` -/
def sdkMaxSlip (amount bps : Nat) : R Nat :=
  if bps > 10000 then .error .Other
  else
    let prod := (10000 + bps) * amount
    let q := prod / 10000
    let res := if prod % 10000 > 0 then q + 1 else q
    if res > U64_MAX then .error .Other else .ok res

def sdkMinSlip (amount bps : Nat) : R Nat :=
  if bps > 10000 then .error .Other
  else .ok ((10000 - bps) * amount / 10000)

end WP
