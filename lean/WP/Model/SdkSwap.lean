import WP.Model.Sdk
import WP.Model.SwapLoop
/-
  Model of the Rust core SDK's swap quote: rust-sdk/core/src/quote/swap.rs `compute_swap` /
  `compute_swap_step`, math/token.rs `try_apply_swap_fee` / `try_reverse_apply_swap_fee` / `try_mul_div`,
  math/tick_array.rs `TickArraySequence::{new, tick, next_initialized_tick, prev_initialized_tick}` and
  math/tick.rs `get_{,next_,prev_}initializable_tick_index`; release semantics (u64 / u128 arithmetic
  written with `+ - +=` wraps, division by zero aborts).

  * errors other than aborts are collapsed to `.Other`, except that `AMOUNT_EXCEEDS_MAX_U64` of the two
    token-delta functions is kept apart (`none`), because `compute_swap_step` branches on it;
  * tick index ↔ price are `sp` / `ti`: the SDK's two functions are the program's (C20.sdk_ladders_eq,
    C20.sdk_inverse_same, regenerated from both sources on every run);
  * the fee manager is the program's `FeeMgr`: the SDK's `FeeRateManager` is a port of it, and this reuse
    is what family `sdkq` (every swap of every history through the real SDK and through this model) checks;
  * the facade's tick arrays are the tick map restricted to the arrays listed; `sort_by_key` of
    `TickArraySequence::new` is done by the driver (the list arrives here in ascending order).
-/
namespace WP
open WP.Gen

/-- `try_get_amount_delta_a`, with `AMOUNT_EXCEEDS_MAX_U64` as `none` -/
def sdkDeltaAX (p0 p1 liq : Nat) (roundUp : Bool) : R (Option Nat) :=
  let lo := (incOrder p0 p1).1
  let hi := (incOrder p0 p1).2
  match sdkShl64 (liq * (hi - lo)) with
  | .error e => .error e
  | .ok num =>
    let den := lo * hi
    if den = 0 then .error .Panic
    else
      let q := num / den
      let res := if roundUp && num % den ≠ 0 then q + 1 else q
      if res > U64_MAX then .ok none else .ok (some res)

/-- `try_get_amount_delta_b`, with `AMOUNT_EXCEEDS_MAX_U64` as `none` -/
def sdkDeltaBX (p0 p1 liq : Nat) (roundUp : Bool) : R (Option Nat) :=
  let lo := (incOrder p0 p1).1
  let hi := (incOrder p0 p1).2
  let prod := liq * (hi - lo)
  let q := prod / TWO64
  let res := if roundUp && prod % TWO64 > 0 then q + 1 else q
  if res > U64_MAX then .ok none else .ok (some res)

def unwrapX (r : R (Option Nat)) : R Nat :=
  match r with
  | .ok (some v) => .ok v
  | .ok none => .error .Other
  | .error e => .error e

/-- `try_mul_div` -/
def sdkMulDiv (amount product den : Nat) (roundUp : Bool) : R Nat :=
  if amount = 0 || product = 0 then .ok 0
  else if amount * product > U128_MAX then .error .Other
  else if den = 0 then .error .Panic
  else
    let n := amount * product
    let q := n / den
    let res := if roundUp && n % den ≠ 0 then q + 1 else q
    if res > U64_MAX then .error .Other else .ok res

/-- `try_apply_swap_fee` (the u128 subtraction wraps in the release profile) -/
def sdkApplyFee (amount rate : Nat) : R Nat :=
  sdkMulDiv amount ((FEE_RATE_MUL_VALUE + TWO128 - rate) % TWO128) FEE_RATE_MUL_VALUE false

/-- `try_reverse_apply_swap_fee` -/
def sdkReverseFee (amount rate : Nat) : R Nat :=
  sdkMulDiv amount FEE_RATE_MUL_VALUE ((FEE_RATE_MUL_VALUE + TWO128 - rate) % TWO128) true

/-- `try_get_amount_fixed_delta` -/
def sdkFixedX (cur tgt liq : Nat) (aToB isInput : Bool) : R (Option Nat) :=
  if aToB = isInput then sdkDeltaAX cur tgt liq isInput else sdkDeltaBX cur tgt liq isInput

/-- `try_get_amount_unfixed_delta` -/
def sdkUnfixed (cur tgt liq : Nat) (aToB isInput : Bool) : R Nat :=
  if isInput = aToB then unwrapX (sdkDeltaBX cur tgt liq (!isInput)) else unwrapX (sdkDeltaAX cur tgt liq (!isInput))

/-- `try_get_next_sqrt_price` -/
def sdkNext (cur liq amount : Nat) (aToB isInput : Bool) : R Nat :=
  if isInput = aToB then sdkNextFromA cur liq amount isInput else sdkNextFromB cur liq amount isInput

/-- `next_sqrt_price` of `compute_swap_step` -/
def sdkStepNext (initial : R (Option Nat)) (cal cur tgt liq : Nat) (aToB isInput : Bool) : R Nat :=
  match initial with
  | .ok none => sdkNext cur liq cal aToB isInput
  | .error e => .error e
  | .ok (some v) => if v ≤ cal then .ok tgt else sdkNext cur liq cal aToB isInput

/-- `amount_fixed_delta` of `compute_swap_step` -/
def sdkStepFixed (initial : R (Option Nat)) (next cur tgt liq : Nat) (aToB isInput : Bool) : R Nat :=
  match initial with
  | .ok none => unwrapX (sdkFixedX cur next liq aToB isInput)
  | .error e => .error e
  | .ok (some v) => if !(next == tgt) then unwrapX (sdkFixedX cur next liq aToB isInput) else .ok v

/-- `fee_amount` of `compute_swap_step` (u64 subtractions wrap) -/
def sdkStepFee (rem amountIn rate next tgt : Nat) (isInput : Bool) : R Nat :=
  if isInput && !(next == tgt) then .ok ((rem + TWO64 - amountIn) % TWO64)
  else
    match sdkReverseFee amountIn rate with
    | .error e => .error e
    | .ok pre => .ok ((pre + TWO64 - amountIn) % TWO64)

/-- `compute_swap_step` -/
def sdkSwapStep (rem rate liq cur tgt : Nat) (aToB isInput : Bool) : R SwapStep :=
  let initial := sdkFixedX cur tgt liq aToB isInput
  match (if isInput then sdkApplyFee rem rate else .ok rem) with
  | .error e => .error e
  | .ok cal =>
    match sdkStepNext initial cal cur tgt liq aToB isInput with
    | .error e => .error e
    | .ok next =>
      match sdkUnfixed cur next liq aToB isInput with
      | .error e => .error e
      | .ok unfixed =>
        match sdkStepFixed initial next cur tgt liq aToB isInput with
        | .error e => .error e
        | .ok fixed =>
          let amountIn := if isInput then fixed else unfixed
          let amountOut0 := if isInput then unfixed else fixed
          let amountOut := if !isInput && amountOut0 > rem then rem else amountOut0
          match sdkStepFee rem amountIn rate next tgt isInput with
          | .error e => .error e
          | .ok fee => .ok { amountIn := amountIn, amountOut := amountOut, nextPrice := next, feeAmount := fee }

/-! ### the tick-array sequence -/

/-- the even-spacing check of `TickArraySequence::new` on the sorted starts -/
def sdkEvenly (span : Int) : List Int → Bool
  | [] => true
  | [_] => true
  | a :: b :: rest => decide (b - a = span) && sdkEvenly span (b :: rest)

/-- (`start_index()`, `end_index()`) of the sequence over the ascending starts `asc` -/
def sdkBounds (asc : List Int) (ts : Nat) : R (Int × Int) :=
  let span : Int := (TICK_ARRAY_SIZE : Int) * ts
  match asc.head?, asc.getLast? with
  | some first, some last =>
    if !sdkEvenly span asc then .error .Other
    else .ok (max first MIN_TICK_INDEX, min (last + span - 1) MAX_TICK_INDEX)
  | _, _ => .error .Other

/-- `TickArraySequence::tick` (the arrays hold the map's ticks) -/
def sdkTick (m : TickMap) (lo hi : Int) (ts : Nat) (idx : Int) : R TickData :=
  if idx < lo || idx > hi then .error .Other
  else if Int.tmod idx ts ≠ 0 then .error .Other
  else .ok (m.get idx)

/-- the loop of `next_initialized_tick` from `cur` -/
def sdkNextLoop (m : TickMap) (lo hi : Int) (ts : Nat) : Nat → Int → R (Option TickData × Int)
  | 0, _ => .error .Panic
  | f + 1, cur =>
    let nx := cur - cur % (ts : Int) + ts
    if nx > hi then .ok (none, hi)
    else
      match sdkTick m lo hi ts nx with
      | .error e => .error e
      | .ok t => if t.initialized then .ok (some t, nx) else sdkNextLoop m lo hi ts f nx

/-- `next_initialized_tick` -/
def sdkNextInit (m : TickMap) (lo hi : Int) (ts : Nat) (fuel : Nat) (tick : Int) : R (Option TickData × Int) :=
  if ts = 0 then .error .Panic
  else if tick ≥ hi then .error .Other
  else sdkNextLoop m lo hi ts fuel tick

/-- the loop of `prev_initialized_tick` from the grid tick `prev` -/
def sdkPrevLoop (m : TickMap) (lo hi : Int) (ts : Nat) : Nat → Int → R (Option TickData × Int)
  | 0, _ => .error .Panic
  | f + 1, prev =>
    if prev < lo then .ok (none, lo)
    else
      match sdkTick m lo hi ts prev with
      | .error e => .error e
      | .ok t =>
        if t.initialized then .ok (some t, prev)
        else sdkPrevLoop m lo hi ts f (if prev % (ts : Int) = 0 then prev - ts else prev - prev % (ts : Int))

/-- `prev_initialized_tick` -/
def sdkPrevInit (m : TickMap) (lo hi : Int) (ts : Nat) (fuel : Nat) (tick : Int) : R (Option TickData × Int) :=
  if ts = 0 then .error .Panic
  else if tick < lo then .error .Other
  else sdkPrevLoop m lo hi ts fuel (tick / (ts : Int) * ts)

/-! ### the swap loop -/

structure SdkCtx where
  ticks : TickMap
  lo : Int
  hi : Int
  ts : Nat
  aToB : Bool
  isInput : Bool
  limit : Nat
  searchFuel : Nat

structure SdkSt where
  remaining : Nat
  calculated : Nat
  price : Nat
  tick : Int
  liq : Nat
  fee : Nat
  fm : FeeMgr

/-- `get_next_liquidity` (u128 `+` / `-` wrap) -/
def sdkNextLiq (liq : Nat) (t : Option TickData) (aToB : Bool) : Nat :=
  let net : Int := match t with
    | some t => t.net
    | none => 0
  let u := net.natAbs
  if aToB then (if net < 0 then (liq + u) % TWO128 else (liq + TWO128 - u) % TWO128)
  else (if net < 0 then (liq + TWO128 - u) % TWO128 else (liq + u) % TWO128)

/-- one iteration of the inner `loop` of `compute_swap` -/
def sdkIter (c : SdkCtx) (s : SdkSt) (nextTick : Option TickData) (nti : Int) (ntp target : Nat) : R SdkSt :=
  let fm := s.fm.updateVolAcc
  let rate := fm.totalFeeRate
  let bs := fm.boundedTarget target s.liq
  match sdkSwapStep s.remaining rate s.liq s.price bs.1 c.aToB c.isInput with
  | .error e => .error e
  | .ok q =>
    match stepAmounts c.isInput s.remaining s.calculated q with
    | .error _ => .error .Other
    | .ok ra =>
      let liqTick : Nat × Int :=
        if q.nextPrice = ntp then (sdkNextLiq s.liq nextTick c.aToB, if c.aToB then nti - 1 else nti)
        else if q.nextPrice ≠ s.price then (s.liq, ti q.nextPrice)
        else (s.liq, s.tick)
      match (if !bs.2 then (.ok fm.advance : R FeeMgr) else fm.advanceAfterSkip q.nextPrice ntp nti) with
      | .error e => .error e
      | .ok fm' =>
        .ok { remaining := ra.1, calculated := ra.2, price := q.nextPrice, tick := liqTick.2, liq := liqTick.1,
              fee := (s.fee + q.feeAmount) % TWO64, fm := fm' }

/-- the two nested loops of `compute_swap`, in the shape of `swapLoop` -/
def sdkLoop (c : SdkCtx) : Nat → SdkSt → Option (Option TickData × Int × Nat × Nat) → R SdkSt
  | 0, _, _ => .error .Panic
  | fuel + 1, s, none =>
    if s.remaining > 0 && c.limit ≠ s.price then
      match (if c.aToB then sdkPrevInit c.ticks c.lo c.hi c.ts c.searchFuel s.tick
             else sdkNextInit c.ticks c.lo c.hi c.ts c.searchFuel s.tick) with
      | .error e => .error e
      | .ok r =>
        sdkLoop c fuel s (some (r.1, r.2, sp r.2, if c.aToB then max c.limit (sp r.2) else min c.limit (sp r.2)))
    else .ok s
  | fuel + 1, s, some (nt, nti, ntp, target) =>
    match sdkIter c s nt nti ntp target with
    | .error e => .error e
    | .ok s' =>
      if s'.remaining = 0 || s'.price = target then sdkLoop c fuel s' none
      else sdkLoop c fuel s' (some (nt, nti, ntp, target))

/-- `compute_swap`: (token_a, token_b, trade_fee) -/
def sdkSwap (p : PoolD) (ticks : TickMap) (asc : List Int) (amount limit : Nat) (isInput aToB : Bool) (now : Nat)
    (af : Option AfInfo) (fuel : Nat) : R (Nat × Nat × Nat) :=
  match sdkBounds asc p.ts with
  | .error e => .error e
  | .ok b =>
    let lim := adjLimit limit aToB
    if !(MIN_SQRT_PRICE_X64 ≤ lim && lim ≤ MAX_SQRT_PRICE_X64) then .error .Other
    else if (aToB && lim ≥ p.price) || (!aToB && lim ≤ p.price) then .error .Other
    else if amount = 0 then .error .Other
    else
      match FeeMgr.new aToB p.tick now p.feeRate af with
      | .error _ => .error .Other
      | .ok fm =>
        let c : SdkCtx := { ticks := ticks, lo := b.1, hi := b.2, ts := p.ts, aToB := aToB, isInput := isInput, limit := lim,
                            searchFuel := asc.length * TICK_ARRAY_SIZE + 2 }
        match sdkLoop c fuel { remaining := amount, calculated := 0, price := p.price, tick := p.tick, liq := p.liq, fee := 0, fm := fm } none with
        | .error e => .error e
        | .ok s =>
          let swapped := amount - s.remaining
          .ok (if aToB = isInput then swapped else s.calculated, if aToB = isInput then s.calculated else swapped, s.fee)

/-! ### transfer fees of the quote functions (math/token.rs `try_apply_transfer_fee`, `try_reverse_apply_transfer_fee`) -/

/-- `try_apply_transfer_fee`: the amount left after the fee (`u128::div_ceil`, capped at `max_fee`) -/
def sdkApplyTF (amount bps maxFee : Nat) : R Nat :=
  if bps > 10000 then .error .Other
  else if bps = 0 || amount = 0 then .ok amount
  else
    let raw := (amount * bps + 10000 - 1) / 10000
    if raw > U64_MAX then .error .Other
    else .ok ((amount + TWO64 - min raw maxFee) % TWO64)

/-- `try_reverse_apply_transfer_fee`: the amount before the fee -/
def sdkReverseTF (amount bps maxFee : Nat) : R Nat :=
  if bps > 10000 then .error .Other
  else if bps = 0 then .ok amount
  else if amount = 0 then .ok 0
  else if bps = 10000 then (if amount + maxFee ≤ U64_MAX then .ok (amount + maxFee) else .error .Other)
  else
    let raw := (amount * 10000 + (10000 - bps) - 1) / (10000 - bps)
    if raw < amount then .error .Other
    else if raw - amount ≥ maxFee then (if amount + maxFee ≤ U64_MAX then .ok (amount + maxFee) else .error .Other)
    else if raw ≤ U64_MAX then .ok raw else .error .Other

end WP
