import WP.Model.Hist
/-
  Token-2022 transfer-fee arithmetic (spl-token-2022 `TransferFee::{calculate_fee,
  calculate_pre_fee_amount, calculate_inverse_fee}`) and the program's wrappers
  (util/v2/token.rs `calculate_transfer_fee_excluded_amount` / `_included_amount`, identical in
  pinocchio/ported/util_token.rs), and the v2 swap handler's use of them
  (instructions/v2/swap.rs `swap_with_transfer_fee_extension` + thresholds).
-/
namespace WP
open WP.Gen

structure TFee where
  bps : Nat      -- 0 ..= 10000
  maxFee : Nat   -- u64
  deriving DecidableEq, Repr, Inhabited

def ceilDivN (a b : Nat) : Nat := (a + b - 1) / b

/-- `TransferFee::calculate_fee` (never `None` for u64 inputs) -/
def TFee.fee (f : TFee) (pre : Nat) : Nat :=
  if f.bps = 0 || pre = 0 then 0 else min (ceilDivN (pre * f.bps) 10000) f.maxFee

/-- `TransferFee::calculate_pre_fee_amount` -/
def TFee.preFee (f : TFee) (post : Nat) : Option Nat :=
  if f.bps = 0 then some post
  else if post = 0 then some 0
  else if f.bps = 10000 then (if f.maxFee + post ≤ U64_MAX then some (f.maxFee + post) else none)
  else
    let raw := ceilDivN (post * 10000) (10000 - f.bps)
    if raw - post ≥ f.maxFee then (if post + f.maxFee ≤ U64_MAX then some (post + f.maxFee) else none)
    else if raw ≤ U64_MAX then some raw else none

/-- `TransferFee::calculate_inverse_fee` -/
def TFee.inverseFee (f : TFee) (post : Nat) : Option Nat :=
  match f.preFee post with
  | none => none
  | some pre => some (f.fee pre)

/-- `calculate_transfer_fee_excluded_amount`: (amount, fee); `none` mint extension = no fee -/
def excludedAmount (f : Option TFee) (included : Nat) : Nat × Nat :=
  match f with
  | none => (included, 0)
  | some f => (included - f.fee included, f.fee included)

/-- `calculate_transfer_fee_included_amount` -/
def includedAmount (f : Option TFee) (excluded : Nat) : R (Nat × Nat) :=
  if excluded = 0 then .ok (0, 0)
  else
    match f with
    | none => .ok (excluded, 0)
    | some f =>
      let fee? : Option Nat := if f.bps = 10000 then some f.maxFee else f.inverseFee excluded
      match fee? with
      | none => .error .TransferFeeCalculationError
      | some fee =>
        if excluded + fee > U64_MAX then .error .TransferFeeCalculationError
        else if f.fee (excluded + fee) ≠ fee then .error .TransferFeeCalculationError
        else .ok (excluded + fee, fee)

structure XSwapResult where
  userIn : Nat      -- what leaves the trader's input account
  userOut : Nat     -- what arrives in the trader's output account
  poolIn : Nat      -- what the input vault receives (curve amount)
  poolOut : Nat     -- what the output vault pays (curve amount)
  post : PostSwap
  deriving Repr

/-- `swap_with_transfer_fee_extension` + the threshold check of the v2 handler -/
def swapV2 (p : PoolD) (ticks : TickMap) (arrays : List Int) (amount threshold limit : Nat) (isInput aToB : Bool) (now : Nat)
    (af : Option AfInfo) (feeIn feeOut : Option TFee) (fuel : Nat) : R XSwapResult :=
  if isInput then
    let exIn := (excludedAmount feeIn amount).1
    match swap p ticks arrays exIn limit isInput aToB now af fuel with
    | .error e => .error e
    | .ok u =>
      let swIn := if aToB then u.amountA else u.amountB
      let swOut := if aToB then u.amountB else u.amountA
      match (if swIn = exIn then .ok (amount, 0) else includedAmount feeIn swIn) with
      | .error e => .error e
      | .ok adj =>
        let userOut := (excludedAmount feeOut swOut).1
        if userOut < threshold then .error .AmountOutBelowMinimum
        else .ok { userIn := adj.1, userOut := userOut, poolIn := swIn, poolOut := swOut, post := u }
  else
    match includedAmount feeOut amount with
    | .error e => .error e
    | .ok incOut =>
      match swap p ticks arrays incOut.1 limit isInput aToB now af fuel with
      | .error e => .error e
      | .ok u =>
        let swIn := if aToB then u.amountA else u.amountB
        let swOut := if aToB then u.amountB else u.amountA
        match includedAmount feeIn swIn with
        | .error e => .error e
        | .ok incIn =>
          if incIn.1 > threshold then .error .AmountInAboveMaximum
          else .ok { userIn := incIn.1, userOut := (excludedAmount feeOut swOut).1, poolIn := swIn, poolOut := swOut, post := u }


def parseTFee (bps mx : String) : Option (Option TFee) := do
  let b ← bps.toNat?
  let m ← mx.toNat?
  if b = 65535 then pure none else pure (some { bps := b, maxFee := m })

/-- `H xswap ver amount thrMode limit ein dir bpsA maxA futA bpsB maxB futB`: the swap INSTRUCTION on the
    current state (read-only); vault balances as the fixture funds them (capped at u64::MAX / 4) -/
def xswapLine (s : HistState) (t : List String) : Option String :=
  match t with
  | [ver, amount, thrMode, limit, ein, dir, bA, mA, _fA, bB, mB, _fB] => do
    let ver ← ver.toNat?
    let amount ← amount.toNat?
    let thrMode ← thrMode.toNat?
    let limit ← limit.toNat?
    let ein ← (if ein == "1" then some true else if ein == "0" then some false else none)
    let dir ← (if dir == "1" then some true else if dir == "0" then some false else none)
    let fA ← parseTFee bA mA
    let fB ← parseTFee bB mB
    let (fA, fB) := if ver = 2 then (fA, fB) else (none, none)
    let (fIn, fOut) := if dir then (fA, fB) else (fB, fA)
    let arrays := startTickIndexes s.pool.tick s.pool.ts dir
    let cap := U64_MAX / 4
    let vaultOut := min (if dir then s.vaultB else s.vaultA) cap
    let run (thr : Nat) := swapV2 s.pool s.ticks arrays amount thr limit ein dir s.now s.af fIn fOut SWAP_FUEL
    -- the threshold the harness derives from the unconstrained result
    let free := run (if ein then 0 else U64_MAX)
    let thr : Nat := match free, thrMode with
      | .ok r, 1 => if ein then r.userOut else r.userIn
      | .ok r, 2 => if ein then min (r.userOut + 1) U64_MAX else r.userIn - 1
      | _, _ => if ein then 0 else U64_MAX
    match (if arrays.isEmpty then .error .InvalidTickArraySequence else run thr) with
    | .error e => pure ("err " ++ e.name)
    | .ok r =>
      if r.userIn > cap then pure "err Code(1)"             -- the trader's token account holds u64::MAX / 4
      else if r.poolOut > vaultOut then pure "err Code(1)"  -- the token program refuses the vault's transfer
      else pure s!"ok {r.userIn} {r.userOut} {r.poolIn} {r.poolOut}"
  | _ => none

end WP
