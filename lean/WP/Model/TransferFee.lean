import WP.Model.Hist
import WP.Model.Position
/-
  Token-2022 transfer-fee arithmetic (spl-token-2022 `TransferFee::{calculate_fee,
  calculate_pre_fee_amount, calculate_inverse_fee}`) and the program's wrappers
  (util/v2/token.rs `calculate_transfer_fee_excluded_amount` / `_included_amount`, identical in
  pinocchio/ported/util_token.rs), and the v2 swap handler's use of them
  (instructions/v2/swap.rs `swap_with_transfer_fee_extension` + thresholds).
-/
namespace WP
open WP.Gen

structure TFee where
  bps : Nat      -- 0 ..= 10000
  maxFee : Nat   -- u64
  deriving DecidableEq, Repr, Inhabited

def ceilDivN (a b : Nat) : Nat := (a + b - 1) / b

/-- `TransferFee::calculate_fee` (never `None` for u64 inputs) -/
def TFee.fee (f : TFee) (pre : Nat) : Nat :=
  if f.bps = 0 || pre = 0 then 0 else min (ceilDivN (pre * f.bps) 10000) f.maxFee

/-- `TransferFee::calculate_pre_fee_amount` -/
def TFee.preFee (f : TFee) (post : Nat) : Option Nat :=
  if f.bps = 0 then some post
  else if post = 0 then some 0
  else if f.bps = 10000 then (if f.maxFee + post ≤ U64_MAX then some (f.maxFee + post) else none)
  else
    let raw := ceilDivN (post * 10000) (10000 - f.bps)
    if raw - post ≥ f.maxFee then (if post + f.maxFee ≤ U64_MAX then some (post + f.maxFee) else none)
    else if raw ≤ U64_MAX then some raw else none

/-- `TransferFee::calculate_inverse_fee` -/
def TFee.inverseFee (f : TFee) (post : Nat) : Option Nat :=
  match f.preFee post with
  | none => none
  | some pre => some (f.fee pre)

/-- `calculate_transfer_fee_excluded_amount`: (amount, fee); `none` mint extension = no fee -/
def excludedAmount (f : Option TFee) (included : Nat) : Nat × Nat :=
  match f with
  | none => (included, 0)
  | some f => (included - f.fee included, f.fee included)

/-- `calculate_transfer_fee_included_amount` -/
def includedAmount (f : Option TFee) (excluded : Nat) : R (Nat × Nat) :=
  if excluded = 0 then .ok (0, 0)
  else
    match f with
    | none => .ok (excluded, 0)
    | some f =>
      let fee? : Option Nat := if f.bps = 10000 then some f.maxFee else f.inverseFee excluded
      match fee? with
      | none => .error .TransferFeeCalculationError
      | some fee =>
        if excluded + fee > U64_MAX then .error .TransferFeeCalculationError
        else if f.fee (excluded + fee) ≠ fee then .error .TransferFeeCalculationError
        else .ok (excluded + fee, fee)

structure XSwapResult where
  userIn : Nat      -- what leaves the trader's input account
  userOut : Nat     -- what arrives in the trader's output account
  poolIn : Nat      -- what the input vault receives (curve amount)
  poolOut : Nat     -- what the output vault pays (curve amount)
  post : PostSwap
  deriving Repr

/-- `swap_with_transfer_fee_extension` + the threshold check of the v2 handler -/
def swapV2 (p : PoolD) (ticks : TickMap) (arrays : List Int) (amount threshold limit : Nat) (isInput aToB : Bool) (now : Nat)
    (af : Option AfInfo) (feeIn feeOut : Option TFee) (fuel : Nat) : R XSwapResult :=
  if isInput then
    let exIn := (excludedAmount feeIn amount).1
    match swap p ticks arrays exIn limit isInput aToB now af fuel with
    | .error e => .error e
    | .ok u =>
      let swIn := if aToB then u.amountA else u.amountB
      let swOut := if aToB then u.amountB else u.amountA
      match (if swIn = exIn then .ok (amount, 0) else includedAmount feeIn swIn) with
      | .error e => .error e
      | .ok adj =>
        let userOut := (excludedAmount feeOut swOut).1
        if userOut < threshold then .error .AmountOutBelowMinimum
        else .ok { userIn := adj.1, userOut := userOut, poolIn := swIn, poolOut := swOut, post := u }
  else
    match includedAmount feeOut amount with
    | .error e => .error e
    | .ok incOut =>
      match swap p ticks arrays incOut.1 limit isInput aToB now af fuel with
      | .error e => .error e
      | .ok u =>
        let swIn := if aToB then u.amountA else u.amountB
        let swOut := if aToB then u.amountB else u.amountA
        match includedAmount feeIn swIn with
        | .error e => .error e
        | .ok incIn =>
          if incIn.1 > threshold then .error .AmountInAboveMaximum
          else .ok { userIn := incIn.1, userOut := (excludedAmount feeOut swOut).1, poolIn := swIn, poolOut := swOut, post := u }


/-- the two-hop handlers: exact-in computes leg one then leg two, exact-out leg two then leg one;
    the legs' intermediate amounts must match; one threshold on the outer amount -/
def twoHop (p1 : PoolD) (t1 : TickMap) (af1 : Option AfInfo) (arr1 : List Int)
    (p2 : PoolD) (t2 : TickMap) (af2 : Option AfInfo) (arr2 : List Int)
    (amount threshold : Nat) (isInput d1 d2 : Bool) (lim1 lim2 now : Nat) (fIn fMid fOut : Option TFee) (fuel : Nat) :
    R (XSwapResult × XSwapResult) :=
  if isInput then
    match swapV2 p1 t1 arr1 amount 0 lim1 true d1 now af1 fIn fMid fuel with
    | .error e => .error e
    | .ok r1 =>
      match swapV2 p2 t2 arr2 r1.poolOut 0 lim2 true d2 now af2 fMid fOut fuel with
      | .error e => .error e
      | .ok r2 =>
        if r1.poolOut ≠ r2.userIn then .error .IntermediateTokenAmountMismatch
        else if r2.userOut < threshold then .error .AmountOutBelowMinimum
        else .ok (r1, r2)
  else
    match swapV2 p2 t2 arr2 amount U64_MAX lim2 false d2 now af2 fMid fOut fuel with
    | .error e => .error e
    | .ok r2 =>
      match swapV2 p1 t1 arr1 (excludedAmount fMid r2.userIn).1 U64_MAX lim1 false d1 now af1 fIn fMid fuel with
      | .error e => .error e
      | .ok r1 =>
        if r1.poolOut ≠ r2.userIn then .error .IntermediateTokenAmountMismatch
        else if r1.userIn > threshold then .error .AmountInAboveMaximum
        else .ok (r1, r2)

def parseTFee (bps mx : String) : Option (Option TFee) := do
  let b ← bps.toNat?
  let m ← mx.toNat?
  if b = 65535 then pure none else pure (some { bps := b, maxFee := m })

/-- `H xswap ver amount thrMode limit ein dir bpsA maxA futA bpsB maxB futB`: the swap INSTRUCTION on the
    current state (read-only); vault balances as the fixture funds them (capped at u64::MAX / 4) -/
def xswapLine (s : HistState) (t : List String) : Option String :=
  match t with
  -- `_pk`: how the tick arrays are packaged into the instruction's accounts (order, supplemental arrays): no influence
  | [ver, amount, thrMode, limit, ein, dir, bA, mA, _fA, bB, mB, _fB, te, _pk] => do
    let te ← (if te == "1" then some true else if te == "0" then some false else none)
    let ver ← ver.toNat?
    let amount ← amount.toNat?
    let thrMode ← thrMode.toNat?
    let limit ← limit.toNat?
    let ein ← (if ein == "1" then some true else if ein == "0" then some false else none)
    let dir ← (if dir == "1" then some true else if dir == "0" then some false else none)
    let fA ← parseTFee bA mA
    let fB ← parseTFee bB mB
    let (fA, fB) := if ver = 2 then (fA, fB) else (none, none)
    let (fIn, fOut) := if dir then (fA, fB) else (fB, fA)
    let arrays := startTickIndexes s.pool.tick s.pool.ts dir
    let cap := U64_MAX / 4
    let vaultOut := min (if dir then s.vaultB else s.vaultA) cap
    let run (thr : Nat) := swapV2 s.pool s.ticks arrays amount thr limit ein dir s.now s.af fIn fOut SWAP_FUEL
    -- the threshold the harness derives from the unconstrained result
    let free := run (if ein then 0 else U64_MAX)
    let thr : Nat := match free, thrMode with
      | .ok r, 1 => if ein then r.userOut else r.userIn
      | .ok r, 2 => if ein then min (r.userOut + 1) U64_MAX else r.userIn - 1
      | _, _ => if ein then 0 else U64_MAX
    match (if arrays.isEmpty then .error .InvalidTickArraySequence
           else if te && s.af.isSome then .error .TradeIsNotEnabled   -- the Oracle says trading starts later
           else run thr) with
    | .error e => pure ("err " ++ e.name)
    | .ok r =>
      if r.userIn > cap then pure "err Code(1)"             -- the trader's token account holds u64::MAX / 4
      else if r.poolOut > vaultOut then pure "err Code(1)"  -- the token program refuses the vault's transfer
      else pure s!"ok {r.userIn} {r.userOut} {r.poolIn} {r.poolOut}"
  | _ => none


/-- `H xhop ver amount thrMode ein d1 d2 lim1 lim2 swapPools feeIn(3) feeOut(3)`; `cur` = current state,
    `snap` = the state saved by `H snap` -/
def xhopLine (cur snap : HistState) (t : List String) : Option String :=
  match t with
  | [ver, amount, thrMode, ein, d1, d2, lim1, lim2, sw, bI, mI, _fI, bO, mO, _fO, te] => do
    let te ← te.toNat?
    let ver ← ver.toNat?
    let amount ← amount.toNat?
    let thrMode ← thrMode.toNat?
    let b (x : String) : Option Bool := if x == "1" then some true else if x == "0" then some false else none
    let ein ← b ein; let d1 ← b d1; let d2 ← b d2; let sw ← b sw
    let lim1 ← lim1.toNat?; let lim2 ← lim2.toNat?
    let fI ← parseTFee bI mI
    let fO ← parseTFee bO mO
    let (fI, fO) := if ver = 2 then (fI, fO) else (none, none)
    let s1 := if sw then snap else cur
    let s2 := if sw then cur else snap
    let now := cur.now
    if now < s1.pool.rewardTs || now < s2.pool.rewardTs then pure "err SnapshotFromTheFuture" else
    -- shapes 4 / 5: both legs name the same pool / pool two does not trade the intermediate mint: always refused
    if te = 4 then pure "err DuplicateTwoHopPool" else
    if te ≥ 5 then pure "err InvalidIntermediaryMint" else
    let arr1 := startTickIndexes s1.pool.tick s1.pool.ts d1
    let arr2 := startTickIndexes s2.pool.tick s2.pool.ts d2
    let cap := U64_MAX / 4
    let run (thr : Nat) := twoHop s1.pool s1.ticks s1.af arr1 s2.pool s2.ticks s2.af arr2 amount thr ein d1 d2 lim1 lim2 now fI none fO SWAP_FUEL
    -- the harness derives the threshold from the two SINGLE swaps (no intermediate-match requirement)
    -- (they are executed as INSTRUCTIONS there: a single swap also fails when the trader's balance `cap`
    --  or the capped vault cannot pay — the token program's InsufficientFunds)
    let v1cap := min (if d1 then s1.vaultB else s1.vaultA) cap
    let v2cap := min (if d2 then s2.vaultB else s2.vaultA) cap
    let singles : R (Nat × Nat) :=
      if ein then
        match swapV2 s1.pool s1.ticks arr1 amount 0 lim1 true d1 now s1.af fI none SWAP_FUEL with
        | .error e => .error e
        | .ok r1 =>
          if r1.userIn > cap || r1.poolOut > v1cap then .error .InsufficientFunds else
          match swapV2 s2.pool s2.ticks arr2 r1.userOut 0 lim2 true d2 now s2.af none fO SWAP_FUEL with
          | .error e => .error e
          | .ok r2 => if r2.poolOut > v2cap then .error .InsufficientFunds else .ok (r1.userIn, r2.userOut)
      else
        match swapV2 s2.pool s2.ticks arr2 amount U64_MAX lim2 false d2 now s2.af none fO SWAP_FUEL with
        | .error e => .error e
        | .ok r2 =>
          if r2.userIn > cap || r2.poolOut > v2cap then .error .InsufficientFunds else
          match swapV2 s1.pool s1.ticks arr1 r2.userIn U64_MAX lim1 false d1 now s1.af fI none SWAP_FUEL with
          | .error e => .error e
          | .ok r1 => if r1.userIn > cap || r1.poolOut > v1cap then .error .InsufficientFunds else .ok (r1.userIn, r2.userOut)
    let thr : Nat := match singles, thrMode with
      | .ok r, 1 => if ein then r.2 else r.1
      | .ok r, 2 => if ein then min (r.2 + 1) U64_MAX else r.1 - 1
      | _, _ => if ein then 0 else U64_MAX
    if arr1.isEmpty || arr2.isEmpty then pure "err InvalidTickArraySequence" else
    -- an adaptive-fee pool whose Oracle says trading starts later refuses every swap, alone or as a leg
    if (te % 2 = 1 && s1.af.isSome) || (te / 2 % 2 = 1 && s2.af.isSome) then pure "err TradeIsNotEnabled" else
    match run thr with
    | .error e => pure ("err " ++ e.name)
    | .ok (r1, r2) =>
      let v1out := min (if d1 then s1.vaultB else s1.vaultA) cap
      let v2out := min (if d2 then s2.vaultB else s2.vaultA) cap
      if r1.userIn > cap || r1.poolOut > v1out || r2.poolOut > v2out then pure "err Code(1)"
      else pure s!"ok {r1.userIn} {r2.userOut}"
  | _ => none


/-- `H xliq ver id inc liquidity slackMode feeA(3) feeB(3) authMode`: the liquidity INSTRUCTION on the
    current state (read-only) -/
def xliqLine (s : HistState) (t : List String) : Option String :=
  match t with
  | [ver, id, inc, liq, slack, bA, mA, _fA, bB, mB, _fB, auth] => do
    let ver ← ver.toNat?
    let id ← id.toNat?
    let inc ← (if inc == "1" then some true else if inc == "0" then some false else none)
    let liq ← liq.toNat?
    let slack ← slack.toNat?
    let auth ← auth.toNat?
    let fA ← parseTFee bA mA
    let fB ← parseTFee bB mB
    let (fA, fB) := if ver = 2 then (fA, fB) else (none, none)
    let cap := U64_MAX / 4
    match posGet s.positions id with
    | none => pure "err NoSuchPosition"
    | some _ =>
      if auth = 2 then pure "err AccountNotSigner"
      else if auth = 1 || auth = 6 then pure "err MissingOrInvalidDelegate"   -- 6: a stranger paying from his own accounts
      else if auth = 4 then pure "err ConstraintAddress"   -- the position belongs to another pool (C15)
      else if auth = 3 || auth = 5 then pure "err ConstraintRaw"   -- a stranger holding one token of ANOTHER mint; an EMPTY account of the position mint (C04)
      else
        let big := U128_MAX
        match histStep { s with vaultA := big, vaultB := big } (.modify id liq inc) with
        | .error e => pure ("err " ++ e.name)
        | .ok (_, outs) =>
          let da := outs.getD 0 0
          let db := outs.getD 1 0
          let user : R (Nat × Nat) :=
            if inc then
              match includedAmount fA da with
              | .error e => .error e
              | .ok a =>
                match includedAmount fB db with
                | .error e => .error e
                | .ok b => .ok (a.1, b.1)
            else .ok ((excludedAmount fA da).1, (excludedAmount fB db).1)
          match user with
          | .error e => pure ("err " ++ e.name)
          | .ok (ua, ub) =>
            let limA := if slack = 1 then ua else if slack = 2 then (if inc then ua - 1 else min (ua + 1) U64_MAX) else (if inc then U64_MAX else 0)
            let limB := if slack = 1 || slack = 2 then ub else (if inc then U64_MAX else 0)
            if inc && (ua > limA || ub > limB) then pure "err TokenMaxExceeded"
            else if !inc && (ua < limA || ub < limB) then pure "err TokenMinSubceeded"
            else if inc && (ua > cap || ub > cap) then pure "err Code(1)"
            else if !inc && (da > min s.vaultA cap || db > min s.vaultB cap) then pure "err Code(1)"
            else pure s!"ok {ua} {ub} {da} {db}"
  | _ => none


/-- `H xliqt id tokenMaxA tokenMaxB minSqrtPrice maxSqrtPrice feeA(3) feeB(3) authMode`:
    increase_liquidity_by_token_amounts_v2 on the current state (read-only): price window, liquidity estimated
    from the fee-excluded maxima, then exactly the increase instruction with the maxima as limits -/
def xliqtLine (s : HistState) (t : List String) : Option String :=
  match t with
  | [id, tA, tB, minP, maxP, bA, mA, fA3, bB, mB, fB3, auth] => do
    let idN ← id.toNat?
    let tA ← tA.toNat?
    let tB ← tB.toNat?
    let minP ← minP.toNat?
    let maxP ← maxP.toNat?
    let authN ← auth.toNat?
    let fA ← parseTFee bA mA
    let fB ← parseTFee bB mB
    match posGet s.positions idN with
    | none => pure "err NoSuchPosition"
    | some pos =>
      if authN = 2 then pure "err AccountNotSigner"
      else if authN = 1 || authN = 6 then pure "err MissingOrInvalidDelegate"   -- 6: a stranger paying from his own accounts
      else if authN = 4 then pure "err ConstraintAddress"   -- the position belongs to another pool (C15)
      else if authN = 3 || authN = 5 then pure "err ConstraintRaw"   -- a stranger holding one token of ANOTHER mint; an EMPTY account of the position mint (C04)
      else if s.pool.price < minP || s.pool.price > maxP then pure "err PriceSlippageOutOfBounds"
      else
        match estimateMaxLiquidity s.pool.price pos.lower pos.upper (excludedAmount fA tA).1 (excludedAmount fB tB).1 with
        | .error e => pure ("err " ++ e.name)
        | .ok liq =>
          if liq = 0 then pure "err LiquidityZero"
          else
            -- the increase instruction with this liquidity; the limits are the token maxima
            let cap := U64_MAX / 4
            let big := U128_MAX
            match histStep { s with vaultA := big, vaultB := big } (.modify idN liq true) with
            | .error e => pure ("err " ++ e.name)
            | .ok (_, outs) =>
              let da := outs.getD 0 0
              let db := outs.getD 1 0
              match includedAmount fA da with
              | .error e => pure ("err " ++ e.name)
              | .ok a =>
                match includedAmount fB db with
                | .error e => pure ("err " ++ e.name)
                | .ok b =>
                  if a.1 > tA || b.1 > tB then pure "err TokenMaxExceeded"
                  else if a.1 > cap || b.1 > cap then pure "err Code(1)"
                  else
                    let _ := (fA3, fB3, id, auth)
                    pure s!"ok {a.1} {b.1} {da} {db}"
  | _ => none

/-- `H xopen kind lower upper ownerIsFunder`: open_position / open_position_with_token_extensions on the
    current pool (read-only): derive sentinel bounds from the price, validate the range -/
def xopenCore (s : HistState) (lo hi : String) : Option String := do
  let lo ← lo.toInt?
  let hi ← hi.toInt?
  match resolveOneSided lo hi s.pool.ts s.pool.price with
  | .error e => pure ("err " ++ e.name)
  | .ok (l, u) =>
    match validateTickRange s.pool.ts l u with
    | .error e => pure ("err " ++ e.name)
    | .ok _ => pure s!"ok {l} {u}"

def xopenLine (s : HistState) (t : List String) : Option String :=
  match t with
  | [_kind, lo, hi, _own] => xopenCore s lo hi
  | [kind, lo, hi, _own, nt] =>
    -- a pool that requires non-transferable positions refuses the opens without token extensions, before anything else
    if nt == "1" && (kind == "1" || kind == "4") then some "err PositionWithTokenExtensionsRequired"
    else xopenCore s lo hi
  | _ => none

/-- `H xclose22 id authMode`: close_position_with_token_extensions on an unlocked Token-2022 position holding the state of
    history position `id` (read-only): only an empty position, only by its owner -/
def xclose22Line (s : HistState) (t : List String) : Option String :=
  match t with
  | [id, auth] => do
    let id ← id.toNat?
    let auth ← auth.toNat?
    match posGet s.positions id with
    | none => pure "err NoSuchPosition"
    | some pos =>
      if auth = 2 then pure "err AccountNotSigner"
      else if auth = 1 then pure "err MissingOrInvalidDelegate"
      else if !isPositionEmpty pos false then pure "err ClosePositionNotEmpty"
      else pure "ok"
  | _ => none

/-- `H xlock id authMode follow`: lock_position, then one follow-up instruction on the locked position, on the
    current state (read-only).  Only positions with liquidity can be locked; a locked position cannot have
    liquidity removed, be closed, re-ranged, repositioned or locked again; adding liquidity, collecting fees
    and transferring it stay possible. -/
def xlockLine (s : HistState) (t : List String) : Option String :=
  match t with
  | [id, auth, follow] => do
    let id ← id.toNat?
    let auth ← auth.toNat?
    match posGet s.positions id with
    | none => pure "err NoSuchPosition"
    | some pos =>
      if auth = 2 then pure "err AccountNotSigner"
      else if auth = 3 || auth = 4 then pure "err ConstraintSeeds"   -- lock config / mint not the position's (C15)
      else if auth = 5 then pure "err ConstraintHasOne"             -- the position belongs to another pool (C15)
      else if auth = 6 then pure "err ConstraintRaw"                -- an EMPTY account of the position mint (C04)
      else if auth = 1 then pure "err MissingOrInvalidDelegate"
      else if pos.liq = 0 then pure "err PositionNotLockable"
      else if follow == "none" then pure "ok none ok"
      else if follow == "dec" || follow == "close" || follow == "reset" || follow == "repo" || follow == "lock2" ||
          follow == "xferm" || follow == "xfers" || follow == "xferl" then pure s!"ok {follow} rej"
      else if follow == "inc" then
        match histStep { s with vaultA := U128_MAX, vaultB := U128_MAX } (.modify id 1 true) with
        | .error _ => pure "ok inc rej"
        | .ok _ => pure "ok inc ok"
      else if follow == "cf" then
        let cap := U64_MAX / 4
        if pos.owedA > min s.vaultA cap || pos.owedB > min s.vaultB cap then pure "ok cf rej" else pure "ok cf ok"
      else if follow == "xfer" then pure "ok xfer ok"
      else none
  | _ => none

/-- `H xrew kind ver idx id authMode value feeA(3) feeB(3)`: set_reward_emissions / collect_reward(_v2) /
    collect_protocol_fees(_v2) on the current state (read-only); vaults as the fixture funds them -/
def xrewLine (s : HistState) (t : List String) : Option String :=
  match t with
  | [kind, ver, idx, id, auth, value, bA, mA, _fA3, bB, mB, _fB3] => do
    let ver ← ver.toNat?
    let idx ← idx.toNat?
    let id ← id.toNat?
    let auth ← auth.toNat?
    let value ← value.toNat?
    let fA ← parseTFee bA mA
    let fB ← parseTFee bB mB
    let (fA, fB) := if ver = 2 then (fA, fB) else (none, none)
    let cap := U64_MAX / 4
    let r := s.pool.rewards.getD idx {}
    if idx ≥ 3 || (kind != "cproto" && !r.initialized) then pure "err RewardNotInitialized"
    else if kind == "crew" && (posGet s.positions id).isNone then pure "err NoSuchPosition"
    else if auth = 5 then pure (if kind == "crew" then "err ConstraintRaw" else "err NotAVariant")   -- an EMPTY account of the position mint (C04)
    else if auth ≥ 3 then pure "err ConstraintAddress"   -- a copy of the vault at another address (C15)
    else if kind == "emis" then
      if auth = 2 then pure "err AccountNotSigner"
      else if auth = 1 then pure "err ConstraintAddress"
      else
        let vault := min (s.rewardVaults.getD idx 0) cap
        match checkedMulShiftRightRoundUpIf 86400 value false with
        | .error e => pure ("err " ++ e.name)
        | .ok perDay =>
          if vault < perDay then pure "err RewardVaultAmountInsufficient"
          else
            match nextRewardInfos s.pool s.now with
            | .error e => pure ("err " ++ e.name)
            | .ok _ => pure "ok"
    else if kind == "crew" then
      match posGet s.positions id with
      | none => pure "err NoSuchPosition"
      | some pos =>
        if auth = 2 then pure "err AccountNotSigner"
        else if auth = 1 then pure "err MissingOrInvalidDelegate"
        else
          let owed := (pos.rewards.getD idx {}).owed
          let vault := min (s.rewardVaults.getD idx 0) cap
          let transfer := min owed vault
          pure s!"ok {transfer} {(excludedAmount fA transfer).1} {owed - transfer}"
    else if kind == "cproto" then
      if auth = 2 then pure "err AccountNotSigner"
      else if auth = 1 then pure "err ConstraintAddress"
      else if s.pool.pfA > min s.vaultA cap || s.pool.pfB > min s.vaultB cap then pure "err Code(1)"
      else pure s!"ok {(excludedAmount fA s.pool.pfA).1} {(excludedAmount fB s.pool.pfB).1} {s.pool.pfA} {s.pool.pfB}"
    else none
  | _ => none

/-- net movement of one token in a reposition: (amount on the owner's side, its transfer fee, from owner?) -/
def repoNet (f : Option TFee) (dec inc : Nat) : R (Nat × Nat × Bool) :=
  if dec > inc then
    let d := dec - inc
    .ok (d, (excludedAmount f d).2, false)
  else
    match includedAmount f (inc - dec) with
    | .error e => .error e
    | .ok a => .ok (a.1, a.2, true)

/-- `H xrepo id newLower newUpper newLiquidity slackMode feeA(3) feeB(3) authMode`: reposition_liquidity_v2 on the
    current state (read-only) = withdraw all liquidity; re-range keeping owed amounts; deposit newLiquidity;
    settle the net amounts.  The limits are derived from the expected amounts exactly as the harness does. -/
def xrepoLine (s : HistState) (t : List String) : Option String :=
  match t with
  | [id, nlo, nhi, newLiq, slack, bA, mA, _fA3, bB, mB, _fB3, auth] => do
    let id ← id.toNat?
    let nlo ← nlo.toInt?
    let nhi ← nhi.toInt?
    let newLiq ← newLiq.toNat?
    let slack ← slack.toNat?
    let auth ← auth.toNat?
    let fA ← parseTFee bA mA
    let fB ← parseTFee bB mB
    let cap := U64_MAX / 4
    match posGet s.positions id with
    | none => pure "err NoSuchPosition"
    | some pos =>
      if newLiq = 0 then pure "err LiquidityZero"
      else if auth = 2 then pure "err AccountNotSigner"
      else if auth = 1 || auth = 6 then pure "err MissingOrInvalidDelegate"   -- 6: a stranger paying from his own accounts
      else if auth = 4 then pure "err ConstraintAddress"   -- the position belongs to another pool (C15)
      else if auth = 3 || auth = 5 then pure "err ConstraintRaw"   -- a stranger holding one token of ANOTHER mint; an EMPTY account of the position mint (C04)
      else
        let big := U128_MAX
        let s0 := { s with vaultA := big, vaultB := big }
        -- (1) withdraw everything
        let dec : R (HistState × Nat × Nat) :=
          if pos.liq = 0 then .ok (s0, 0, 0)
          else match histStep s0 (.modify id pos.liq false) with
            | .error e => .error e
            | .ok (s1, outs) => .ok (s1, outs.getD 0 0, outs.getD 1 0)
        match dec with
        | .error e => pure ("err " ++ e.name)
        | .ok (s1, da, db) =>
          -- the whole computation with given limits
          let run (minA minB maxA maxB : Nat) : R (Nat × Nat × Bool × Nat × Nat × Bool × Nat × Nat) :=
            if (excludedAmount fA da).1 < minA then .error .TokenMinSubceeded
            else if (excludedAmount fB db).1 < minB then .error .TokenMinSubceeded
            else
              match posGet s1.positions id with
              | none => .error .NoSuchPosition
              | some p1 =>
                match resetPositionRange s1.pool.ts p1 nlo nhi true with
                | .error e => .error e
                | .ok p2 =>
                  let s2 := { s1 with positions := posReplace s1.positions id p2, vaultA := big, vaultB := big }
                  match histStep s2 (.modify id newLiq true) with
                  | .error e => .error e
                  | .ok (_, outs) =>
                    let ia := outs.getD 0 0
                    let ib := outs.getD 1 0
                    match repoNet fA da ia with
                    | .error e => .error e
                    | .ok (ta, fa, fromA) =>
                      if ia + (if fromA then fa else 0) > U64_MAX then .error .TransferFeeCalculationError
                      else if ia + (if fromA then fa else 0) > maxA then .error .TokenMaxExceeded
                      else
                        match repoNet fB db ib with
                        | .error e => .error e
                        | .ok (tb, fb, fromB) =>
                          if ib + (if fromB then fb else 0) > U64_MAX then .error .TransferFeeCalculationError
                          else if ib + (if fromB then fb else 0) > maxB then .error .TokenMaxExceeded
                          else .ok (ta, fa, fromA, tb, fb, fromB, ia, ib)
          -- limits as the harness derives them from the loose run
          let lims : Nat × Nat × Nat × Nat :=
            match run 0 0 U64_MAX U64_MAX with
            | .error _ => (0, 0, U64_MAX, U64_MAX)
            | .ok (_, fa, fromA, _, fb, fromB, ia, ib) =>
              let xa := (excludedAmount fA da).1
              let xb := (excludedAmount fB db).1
              let ya := min (ia + (if fromA then fa else 0)) U64_MAX
              let yb := min (ib + (if fromB then fb else 0)) U64_MAX
              if slack = 0 then (0, 0, U64_MAX, U64_MAX)
              else if slack = 1 then (xa, xb, ya, yb)
              else if slack = 2 then (if fromA then (xa, xb, ya - 1, yb) else (min (xa + 1) U64_MAX, xb, ya, yb))
              else if slack = 3 then (xa, xb, ya - 1, yb)
              else if slack = 4 then (xa, xb, ya, yb - 1)
              else (xa, min (xb + 1) U64_MAX, ya, yb)
          match run lims.1 lims.2.1 lims.2.2.1 lims.2.2.2 with
          | .error e => pure ("err " ++ e.name)
          | .ok (ta, fa, fromA, tb, fb, fromB, ia, ib) =>
            let vA := min s.vaultA cap
            let vB := min s.vaultB cap
            if (fromA && ta > cap) || (fromB && tb > cap) || (!fromA && da - ia > vA) || (!fromB && db - ib > vB) then pure "err Code(1)"
            else pure s!"ok {ta} {fa} {if fromA then 1 else 0} {tb} {fb} {if fromB then 1 else 0} {da} {db} {ia} {ib}"
  | _ => none

/-- `H xpos kind ver id authMode a1 a2 feeA(3) feeB(3)`: a position instruction of the Anchor path on the
    current state (read-only): update_fees_and_rewards, collect_fees (v1 / v2), close_position,
    reset_position_range.  authMode 0 owner, 1 stranger, 2 owner not signing, 3 one-token delegate,
    4 delegate with allowance 0. -/
def xposLine (s : HistState) (t : List String) : Option String :=
  match t with
  | [kind, ver, id, auth, a1, a2, bA, mA, _fA, bB, mB, _fB] => do
    let ver ← ver.toNat?
    let id ← id.toNat?
    let auth ← auth.toNat?
    let a1 ← a1.toInt?
    let a2 ← a2.toInt?
    let fA ← parseTFee bA mA
    let fB ← parseTFee bB mB
    let (fA, fB) := if kind == "cf" && ver = 2 then (fA, fB) else (none, none)
    -- 5: the position belongs to another pool (close names no pool) · 6: a stranger with one token of another mint
    let auth := if kind == "upd" && auth ≠ 5 then 0 else if kind == "close" && (auth = 3 || auth = 4 || auth = 5) then 0 else auth
    let cap := U64_MAX / 4
    match posGet s.positions id with
    | none => pure "err NoSuchPosition"
    | some pos =>
      if auth = 2 then pure "err AccountNotSigner"
      else if auth = 5 then pure "err ConstraintHasOne"
      else if auth = 6 || auth = 7 then pure "err ConstraintRaw"
      else if auth = 1 then pure "err MissingOrInvalidDelegate"
      else if auth = 4 then pure "err InvalidPositionTokenAmount"
      else if kind == "upd" then
        match histStep s (.upd id) with
        | .error e => pure ("err " ++ e.name)
        | .ok _ => pure "ok"
      else if kind == "cf" then
        if pos.owedA > min s.vaultA cap || pos.owedB > min s.vaultB cap then pure "err Code(1)"
        else pure s!"ok {(excludedAmount fA pos.owedA).1} {(excludedAmount fB pos.owedB).1} {pos.owedA} {pos.owedB}"
      else if kind == "close" then
        if isPositionEmpty pos false then pure "ok" else pure "err ClosePositionNotEmpty"
      else if kind == "reset" then
        match resetPositionRange s.pool.ts pos a1 a2 false with
        | .error e => pure ("err " ++ e.name)
        | .ok _ => pure "ok"
      else none
  | _ => none

end WP
