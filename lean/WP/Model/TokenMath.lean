import WP.Model.Basic
import WP.Model.TickMath
/-
  Model of programs/whirlpool/src/math/{bit_math,token_math,liquidity_math}.rs.
  `U256Muldiv` values are modelled as `Nat` (< 2^256); `U256Muldiv::div` is `Nat` division
  (trusted-base item 4 of DESIGN.md; differentially tested in the harness).
-/
namespace WP
open WP.Gen

/-- `checked_mul_div_round_up_if` -/
def checkedMulDivRoundUpIf (n0 n1 d : Nat) (roundUp : Bool) : R Nat :=
  if d = 0 then .error .DivideByZero
  else if n0 * n1 > U128_MAX then .error .MulDivOverflow
  else
    let p := n0 * n1
    let n := p / d
    .ok (if roundUp && p % d > 0 then n + 1 else n)

def checkedMulDiv (n0 n1 d : Nat) : R Nat := checkedMulDivRoundUpIf n0 n1 d false
def checkedMulDivRoundUp (n0 n1 d : Nat) : R Nat := checkedMulDivRoundUpIf n0 n1 d true

/-- `checked_mul_shift_right_round_up_if` -/
def checkedMulShiftRightRoundUpIf (n0 n1 : Nat) (roundUp : Bool) : R Nat :=
  if n0 = 0 || n1 = 0 then .ok 0
  else if n0 * n1 > U128_MAX then .error .MultiplicationShiftRightOverflow
  else
    let p := n0 * n1
    let result := (p / TWO64) % TWO64
    let shouldRound := roundUp && (p % TWO64 > 0)
    if shouldRound && result = U64_MAX then .error .MultiplicationOverflow
    else .ok (if shouldRound then result + 1 else result)

/-- `div_round_up_if` -/
def divRoundUpIf (n d : Nat) (roundUp : Bool) : R Nat :=
  if d = 0 then .error .DivideByZero
  else .ok (if roundUp && n % d > 0 then n / d + 1 else n / d)

/-- `div_round_up_if_u256` (d ≠ 0; the real code panics on d = 0) -/
def divRoundUpIfU256 (n d : Nat) (roundUp : Bool) : R Nat :=
  if d = 0 then .error .Panic
  else
    let q := n / d
    -- quotient.add(1) wraps at 2^256; q+1 ≤ 2^256 - 1 + 1 only if d = 1 and n = 2^256-1
    let r := if roundUp && n % d > 0 then (q + 1) % TWO256 else q
    if r ≤ U128_MAX then .ok r else .error .NumberDownCastError

/-- the outcome type `AmountDeltaU64` -/
inductive AmountDelta where
  | valid (v : Nat)
  | exceedsMax (e : Err)
  deriving DecidableEq, Repr

def AmountDelta.lte : AmountDelta → Nat → Bool
  | .valid v, o => v ≤ o
  | .exceedsMax _, _ => false

def AmountDelta.isExceedsMax : AmountDelta → Bool
  | .valid _ => false
  | .exceedsMax _ => true

def incOrder (p0 p1 : Nat) : Nat × Nat := if p0 > p1 then (p1, p0) else (p0, p1)

/-- `try_get_amount_delta_a` -/
def tryGetAmountDeltaA (p0 p1 liq : Nat) (roundUp : Bool) : R AmountDelta :=
  let lo := (incOrder p0 p1).1
  let hi := (incOrder p0 p1).2
  let diff := hi - lo
  let prod := liq * diff
  -- checked_shift_word_left: fails iff the top word is non-zero
  if prod ≥ TWO128 * TWO64 then .error .MultiplicationOverflow
  else
    let num := prod * TWO64
    let den := hi * lo
    if den = 0 then .error .Panic
    else
      let q := num / den
      let r := if roundUp && num % den > 0 then (q + 1) % TWO256 else q
      if r > U128_MAX then .ok (.exceedsMax .NumberDownCastError)
      else if r > U64_MAX then .ok (.exceedsMax .TokenMaxExceeded)
      else .ok (.valid r)

/-- `try_get_amount_delta_b` -/
def tryGetAmountDeltaB (p0 p1 liq : Nat) (roundUp : Bool) : R AmountDelta :=
  let lo := (incOrder p0 p1).1
  let hi := (incOrder p0 p1).2
  let n0 := liq
  let n1 := hi - lo
  if n0 = 0 || n1 = 0 then .ok (.valid 0)
  else if n0 * n1 > U128_MAX then .ok (.exceedsMax .MultiplicationShiftRightOverflow)
  else
    let p := n0 * n1
    let result := (p / TWO64) % TWO64
    let shouldRound := roundUp && (p % TWO64 > 0)
    if shouldRound && result = U64_MAX then .ok (.exceedsMax .MultiplicationOverflow)
    else .ok (.valid (if shouldRound then result + 1 else result))

def unwrapDelta (r : R AmountDelta) : R Nat :=
  match r with
  | .ok (.valid v) => .ok v
  | .ok (.exceedsMax e) => .error e
  | .error e => .error e

def getAmountDeltaA (p0 p1 liq : Nat) (roundUp : Bool) : R Nat := unwrapDelta (tryGetAmountDeltaA p0 p1 liq roundUp)
def getAmountDeltaB (p0 p1 liq : Nat) (roundUp : Bool) : R Nat := unwrapDelta (tryGetAmountDeltaB p0 p1 liq roundUp)

/-- `get_next_sqrt_price_from_a_round_up` -/
def getNextSqrtPriceFromARoundUp (p liq amount : Nat) (isInput : Bool) : R Nat :=
  if amount = 0 then .ok p
  else
    let product := p * amount
    if liq * p ≥ TWO128 * TWO64 then .error .MultiplicationOverflow
    else
      let num := liq * p * TWO64
      let liqShl := liq * TWO64
      if !isInput && liqShl ≤ product then .error .DivideByZero
      else
        -- add wraps mod 2^256 (cannot: liqShl < 2^192, product < 2^192)
        let den := if isInput then (liqShl + product) % TWO256 else liqShl - product
        match divRoundUpIfU256 num den true with
        | .error e => .error e
        | .ok price =>
          if price < MIN_SQRT_PRICE_X64 then .error .TokenMinSubceeded
          else if price > MAX_SQRT_PRICE_X64 then .error .TokenMaxExceeded
          else .ok price

/-- `get_next_sqrt_price_from_b_round_down` -/
def getNextSqrtPriceFromBRoundDown (p liq amount : Nat) (isInput : Bool) : R Nat :=
  let amountX64 := amount * TWO64
  match divRoundUpIf amountX64 liq (!isInput) with
  | .error e => .error e
  | .ok delta =>
    if isInput then
      if p + delta ≤ U128_MAX then .ok (p + delta) else .error .SqrtPriceOutOfBounds
    else
      if delta ≤ p then .ok (p - delta) else .error .SqrtPriceOutOfBounds

/-- `get_next_sqrt_price` -/
def getNextSqrtPrice (p liq amount : Nat) (isInput aToB : Bool) : R Nat :=
  if isInput = aToB then getNextSqrtPriceFromARoundUp p liq amount isInput
  else getNextSqrtPriceFromBRoundDown p liq amount isInput

/-- `add_liquidity_delta` -/
def addLiquidityDelta (liq : Nat) (delta : Int) : R Nat :=
  if delta = 0 then .ok liq
  else if delta > 0 then
    if liq + delta.toNat ≤ U128_MAX then .ok (liq + delta.toNat) else .error .LiquidityOverflow
  else
    if delta.natAbs ≤ liq then .ok (liq - delta.natAbs) else .error .LiquidityUnderflow

/-- `est_liquidity_for_token_a` -/
def estLiquidityForTokenA (p0 p1 amountA : Nat) : R Nat :=
  let lo := (incOrder p0 p1).1
  let hi := (incOrder p0 p1).2
  let diff := hi - lo
  if diff = 0 then .error .Panic
  else
    let numX128 := (hi * lo * amountA) % TWO256
    let numX64 := numX128 / TWO64
    let l := numX64 / diff
    if l ≤ U128_MAX then .ok l else .error .NumberDownCastError

/-- `est_liquidity_for_token_b` -/
def estLiquidityForTokenB (p0 p1 amountB : Nat) : R Nat :=
  let lo := (incOrder p0 p1).1
  let hi := (incOrder p0 p1).2
  let diff := hi - lo
  if diff = 0 then .error .Panic
  else .ok ((amountB * TWO64) / diff)

/-- `estimate_max_liquidity_from_token_amounts` -/
def estimateMaxLiquidity (cur : Nat) (tl tu : Int) (maxA maxB : Nat) : R Nat :=
  let lo := sp tl
  let hi := sp tu
  if cur ≥ hi then estLiquidityForTokenB hi lo maxB
  else if cur ≤ lo then estLiquidityForTokenA lo hi maxA
  else
    match estLiquidityForTokenA cur hi maxA with
    | .error e => .error e
    | .ok la =>
      match estLiquidityForTokenB cur lo maxB with
      | .error e => .error e
      | .ok lb => .ok (min la lb)

end WP
