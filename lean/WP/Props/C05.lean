import WP.Model.Hist
import Mathlib.Tactic.Linarith
/-
  Property C05 — tradable liquidity at any price equals the sum of positions covering it.

  Invariant over the history-level state machine (WP/Model/Hist.lean):
    pool.liquidity            = Σ { p.liquidity | p.lower ≤ tick_current_index < p.upper }
    tick i: liquidity_net     = Σ_{p.lower = i} p.liquidity − Σ_{p.upper = i} p.liquidity
            liquidity_gross   = Σ_{p.lower = i ∨ p.upper = i} p.liquidity
            initialized       ↔ liquidity_gross > 0
  Proved here: preserved by every operation other than `swap` for all histories (unbounded number
  of positions, any interleaving), and by one tick crossing of the swap loop (`cross_preserves`).
  The lift of `cross_preserves` through the whole swap loop needs the specification of the
  next-initialized-tick search (C10) and the tick/price consistency of C09: it is proved (static
  and adaptive fee) in WP/Props/SwapPath.lean (`swap_path`) and lifted to every reachable state in
  WP/Props/Reach.lean (`reach`), under the hypothesis that the array sequence is aligned and
  consecutive (what the loader builds).  The unconditional form `SwapPreserves` below (ANY array
  list) is stronger than what holds — skipping an array skips its initialized ticks — and is kept
  only as the hypothesis of the older `inv_history_partial`.
-/
namespace WP.C05
open WP

def sumBy (f : PositionD → Int) : List (Nat × PositionD) → Int
  | [] => 0
  | (_, p) :: r => f p + sumBy f r

def inRangeLiq (t : Int) (p : PositionD) : Int := if p.lower ≤ t ∧ t < p.upper then (p.liq : Int) else 0
def netContrib (i : Int) (p : PositionD) : Int :=
  (if p.lower = i then (p.liq : Int) else 0) - (if p.upper = i then (p.liq : Int) else 0)
def grossContrib (i : Int) (p : PositionD) : Int :=
  (if p.lower = i then (p.liq : Int) else 0) + (if p.upper = i then (p.liq : Int) else 0)

structure Inv (s : HistState) : Prop where
  liq : (s.pool.liq : Int) = sumBy (inRangeLiq s.pool.tick) s.positions
  net : ∀ i, (s.ticks.get i).net = sumBy (netContrib i) s.positions
  gross : ∀ i, ((s.ticks.get i).gross : Int) = sumBy (grossContrib i) s.positions
  init : ∀ i, (s.ticks.get i).initialized = decide ((s.ticks.get i).gross > 0)
  ordered : ∀ id p, posGet s.positions id = some p → p.lower < p.upper

/-! ### list lemmas -/

theorem sumBy_replace (f : PositionD → Int) : ∀ (l : List (Nat × PositionD)) (id : Nat) (old new : PositionD),
    posGet l id = some old → sumBy f (posReplace l id new) = sumBy f l - f old + f new := by
  intro l
  induction l with
  | nil => intro id old new h; simp [posGet] at h
  | cons hd tl ih =>
    intro id old new h
    obtain ⟨k, w⟩ := hd
    simp only [posGet] at h
    simp only [posReplace]
    by_cases e : k = id
    · simp only [e, if_true] at h ⊢
      cases h
      simp only [sumBy]; omega
    · simp only [e, if_false] at h ⊢
      simp only [sumBy]
      rw [ih id old new h]; omega

theorem posGet_replace (l : List (Nat × PositionD)) (id : Nat) (new : PositionD) (j : Nat) (old : PositionD)
    (h : posGet l id = some old) :
    posGet (posReplace l id new) j = if j = id then some new else posGet l j := by
  induction l with
  | nil => simp [posGet] at h
  | cons hd tl ih =>
    obtain ⟨k, w⟩ := hd
    simp only [posGet] at h
    simp only [posReplace]
    by_cases e : k = id
    · simp only [e, if_true, posGet]
      by_cases e2 : j = id
      · simp [e2]
      · have : ¬ id = j := fun x => e2 x.symm
        simp [e2, this]
    · simp only [e, if_false] at h
      simp only [e, if_false, posGet]
      by_cases e3 : k = j
      · have : ¬ j = id := by omega
        simp [e3, this]
      · simp only [e3, if_false]
        exact ih h

theorem sumBy_insert (f : PositionD → Int) : ∀ (l : List (Nat × PositionD)) (id : Nat) (v : PositionD),
    posGet l id = none → sumBy f (posSet l id v) = sumBy f l + f v := by
  intro l
  induction l with
  | nil => intro id v _; simp [posSet, sumBy]
  | cons hd tl ih =>
    intro id v h
    obtain ⟨k, w⟩ := hd
    simp only [posGet] at h
    simp only [posSet]
    by_cases e : k = id
    · simp [e] at h
    · simp only [e, if_false] at h ⊢
      by_cases e2 : id < k
      · simp only [e2, if_true, sumBy]; omega
      · simp only [e2, if_false, sumBy]
        rw [ih id v h]; omega

theorem posGet_insert (l : List (Nat × PositionD)) (id : Nat) (v : PositionD) (j : Nat)
    (h : posGet l id = none) :
    posGet (posSet l id v) j = if j = id then some v else posGet l j := by
  induction l with
  | nil =>
    simp only [posSet, posGet]
    by_cases e : id = j
    · simp [e]
    · have : ¬ j = id := fun x => e x.symm
      simp [e, this]
  | cons hd tl ih =>
    obtain ⟨k, w⟩ := hd
    simp only [posGet] at h
    by_cases e : k = id
    · simp [e] at h
    · simp only [e, if_false] at h
      simp only [posSet, e, if_false]
      by_cases e2 : id < k
      · simp only [e2, if_true, posGet]
        by_cases e3 : id = j
        · simp [e3]
        · have : ¬ j = id := fun x => e3 x.symm
          simp [e3, this]
      · simp only [e2, if_false, posGet]
        by_cases e3 : k = j
        · have : ¬ j = id := by omega
          simp [e3, this]
        · simp only [e3, if_false]
          exact ih h

theorem tick_get_set (m : TickMap) (i j : Int) (v : TickData) :
    (m.set i v).get j = if j = i then v else m.get j := by
  induction m with
  | nil =>
    simp only [TickMap.set, TickMap.get]
    by_cases e : i = j
    · simp [e]
    · have : ¬ j = i := fun x => e x.symm
      simp [e, this]
  | cons hd tl ih =>
    obtain ⟨k, w⟩ := hd
    simp only [TickMap.set]
    by_cases e : k = i
    · simp only [e, if_true, TickMap.get]
      by_cases e2 : i = j
      · simp [e2]
      · have : ¬ j = i := fun x => e2 x.symm
        simp [e2, this]
    · simp only [e, if_false]
      by_cases e2 : i < k
      · simp only [e2, if_true, TickMap.get]
        by_cases e3 : i = j
        · simp [e3]
        · have : ¬ j = i := fun x => e3 x.symm
          simp [e3, this]
      · simp only [e2, if_false, TickMap.get]
        by_cases e3 : k = j
        · have : ¬ j = i := by omega
          simp [e3, this]
        · simp only [e3, if_false]; exact ih

theorem gross_nonneg (i : Int) (p : PositionD) : 0 ≤ grossContrib i p := by
  unfold grossContrib; split <;> split <;> omega

theorem net_abs_le_gross (i : Int) (p : PositionD) : -(grossContrib i p) ≤ netContrib i p ∧ netContrib i p ≤ grossContrib i p := by
  unfold grossContrib netContrib; split <;> split <;> omega

theorem sumBy_gross_nonneg (i : Int) : ∀ l, 0 ≤ sumBy (grossContrib i) l := by
  intro l; induction l with
  | nil => simp [sumBy]
  | cons hd tl ih => obtain ⟨k, w⟩ := hd; simp only [sumBy]; have := gross_nonneg i w; omega

theorem sumBy_net_bound (i : Int) : ∀ l, -(sumBy (grossContrib i) l) ≤ sumBy (netContrib i) l ∧ sumBy (netContrib i) l ≤ sumBy (grossContrib i) l := by
  intro l; induction l with
  | nil => simp [sumBy]
  | cons hd tl ih => obtain ⟨k, w⟩ := hd; simp only [sumBy]; have := net_abs_le_gross i w; omega

/-- if the gross sum at a tick is 0 then so is the net sum -/
theorem net_zero_of_gross_zero (i : Int) (l : List (Nat × PositionD)) (h : sumBy (grossContrib i) l = 0) :
    sumBy (netContrib i) l = 0 := by
  have := sumBy_net_bound i l; omega

theorem checkedI128_ok (x y : Int) (h : checkedI128 x = .ok y) : y = x := by
  unfold checkedI128 at h
  split at h
  · simpa using h.symm
  · simp at h

/-! ### the tick update of modify-liquidity -/

theorem tickModify_spec (t : TickData) (tickIndex cur : Int) (fgA fgB : Nat) (rw : List RewardInfo) (delta : Int)
    (isUpper : Bool) (t' : TickData) (hd : delta ≠ 0)
    (hinit : t.initialized = decide (t.gross > 0))
    (h : nextTickModifyLiquidityUpdate t tickIndex cur fgA fgB rw delta isUpper = .ok t') :
    (t'.gross : Int) = t.gross + delta ∧ t'.initialized = decide (t'.gross > 0) ∧
    (t'.gross > 0 → t'.net = (if isUpper then t.net - delta else t.net + delta)) ∧ (t'.gross = 0 → t'.net = 0) := by
  unfold nextTickModifyLiquidityUpdate at h
  rw [if_neg hd] at h
  split at h
  · simp at h
  · rename_i gross hg
    have hgross : (gross : Int) = t.gross + delta := by
      unfold addLiquidityDelta at hg
      rw [if_neg hd] at hg
      split at hg
      · split at hg
        · simp at hg; subst hg; push_cast; omega
        · simp at hg
      · split at hg
        · simp at hg; subst hg; omega
        · simp at hg
    by_cases hz : gross = 0
    · simp only [hz, if_true] at h
      simp at h; subst h
      refine ⟨by simp; omega, by simp, by simp, by simp⟩
    · simp only [hz, if_false] at h
      split at h
      · simp at h
      · rename_i net hnet
        simp at h; subst h
        have : net = (if isUpper then t.net - delta else t.net + delta) := by
          have := checkedI128_ok _ _ hnet
          rw [this]
        refine ⟨by simpa using hgross, by simp; omega, fun _ => this, fun h0 => absurd h0 hz⟩

/-! ### C05 for liquidity changes -/

theorem inv_modify (s s' : HistState) (id amount : Nat) (positive : Bool) (outs : List Nat)
    (inv : Inv s) (h : histStep s (.modify id amount positive) = .ok (s', outs)) : Inv s' := by
  unfold histStep at h
  simp only [] at h
  split at h
  · simp at h
  · rename_i hamt
    split at h
    · simp at h
    · split at h
      · simp at h
      · rename_i pos hpos
        split at h
        · simp at h
        · rename_i u hu
          -- unpack the manager computation
          unfold calculateModifyLiquidity at hu
          have hdelta : (if positive = true then (amount : Int) else -(amount : Int)) ≠ 0 := by
            split <;> omega
          set delta : Int := (if positive = true then (amount : Int) else -(amount : Int)) with hdel
          have hne : ¬ (decide (delta = 0) && decide (pos.liq = 0)) = true := by simp [hdelta]
          rw [if_neg hne] at hu
          split at hu
          · simp at hu
          · rename_i rewards _
            split at hu
            · simp at hu
            · rename_i poolLiq hpl
              split at hu
              · simp at hu
              · rename_i tlu htl
                split at hu
                · simp at hu
                · rename_i tuu htu
                  simp only [] at hu
                  split at hu
                  · simp at hu
                  · rename_i pu hpu
                    simp only [Except.ok.injEq] at hu
                    subst hu
                    -- facts about the pieces
                    have hord := inv.ordered id pos hpos
                    have hpu_liq : (pu.liq : Int) = pos.liq + delta ∧ pu.lower = pos.lower ∧ pu.upper = pos.upper := by
                      unfold nextPositionUpdate at hpu
                      simp only [] at hpu
                      split at hpu
                      · simp at hpu
                      · rename_i liq hl
                        simp at hpu; subst hpu
                        refine ⟨?_, rfl, rfl⟩
                        unfold addLiquidityDelta at hl
                        rw [if_neg hdelta] at hl
                        split at hl
                        · split at hl
                          · simp at hl; subst hl; push_cast; omega
                          · simp at hl
                        · split at hl
                          · simp at hl; subst hl; simp; omega
                          · simp at hl
                    obtain ⟨hpl1, hpl2, hpl3⟩ := hpu_liq
                    have htl' := tickModify_spec _ _ _ _ _ _ _ _ _ hdelta (inv.init pos.lower) htl
                    have htu' := tickModify_spec _ _ _ _ _ _ _ _ _ hdelta (inv.init pos.upper) htu
                    have hpool : (poolLiq : Int) = s.pool.liq + (if pos.lower ≤ s.pool.tick ∧ s.pool.tick < pos.upper then delta else 0) := by
                      unfold nextWhirlpoolLiquidity at hpl
                      by_cases c : (decide (s.pool.tick < pos.upper) && decide (s.pool.tick ≥ pos.lower)) = true
                      · rw [if_pos c] at hpl
                        simp only [Bool.and_eq_true, decide_eq_true_eq] at c
                        rw [if_pos ⟨c.2, c.1⟩]
                        unfold addLiquidityDelta at hpl
                        rw [if_neg hdelta] at hpl
                        split at hpl
                        · split at hpl
                          · simp at hpl; subst hpl; push_cast; omega
                          · simp at hpl
                        · split at hpl
                          · simp at hpl; subst hpl; omega
                          · simp at hpl
                      · rw [if_neg c] at hpl
                        simp only [Bool.and_eq_true, decide_eq_true_eq, not_and] at c
                        simp at hpl; subst hpl
                        rw [if_neg (by intro ⟨a, b⟩; exact c b a)]; omega
                    -- the resulting state (both branches of the vault update produce the same pool/ticks/positions)
                    have key : ∀ st : HistState, st.pool.liq = poolLiq → st.pool.tick = s.pool.tick →
                        st.ticks = (s.ticks.set pos.lower tlu).set pos.upper tuu →
                        st.positions = posReplace s.positions id pu → Inv st := by
                      intro st e1 e2 e3 e4
                      have sumF : ∀ f : PositionD → Int, sumBy f st.positions = sumBy f s.positions - f pos + f pu := by
                        intro f; rw [e4]; exact sumBy_replace f _ _ _ _ hpos
                      have hlu : ¬ pos.lower = pos.upper := by omega
                      have hul : ¬ pos.upper = pos.lower := by omega
                      have cN : ∀ i, netContrib i pu = netContrib i pos + (if pos.lower = i then delta else 0) - (if pos.upper = i then delta else 0) := by
                        intro i; unfold netContrib; rw [hpl2, hpl3]; split <;> split <;> omega
                      have cG : ∀ i, grossContrib i pu = grossContrib i pos + (if pos.lower = i then delta else 0) + (if pos.upper = i then delta else 0) := by
                        intro i; unfold grossContrib; rw [hpl2, hpl3]; split <;> split <;> omega
                      have cR : inRangeLiq s.pool.tick pu = inRangeLiq s.pool.tick pos + (if pos.lower ≤ s.pool.tick ∧ s.pool.tick < pos.upper then delta else 0) := by
                        unfold inRangeLiq; rw [hpl2, hpl3]; split <;> omega
                      have htlN := htl'.2.2.1
                      simp only [Bool.false_eq_true, if_false] at htlN
                      have htuN := htu'.2.2.1
                      simp only [if_true] at htuN
                      refine ⟨?_, ?_, ?_, ?_, ?_⟩
                      · rw [e1, e2, sumF, hpool, inv.liq, cR]; omega
                      · intro i
                        rw [e3, tick_get_set, sumF, cN i]
                        have hni := inv.net i
                        by_cases c1 : i = pos.upper
                        · subst c1
                          simp only [if_true, hlu, if_false]
                          by_cases gz : tuu.gross = 0
                          · have g' : sumBy (grossContrib pos.upper) st.positions = 0 := by
                              rw [sumF, cG pos.upper]
                              simp only [hlu, if_false, if_true]
                              have := htu'.1; have := inv.gross pos.upper; omega
                            have n' := net_zero_of_gross_zero _ _ g'
                            rw [sumF, cN pos.upper] at n'
                            simp only [hlu, if_false, if_true] at n'
                            rw [htu'.2.2.2 gz]; omega
                          · rw [htuN (by omega)]; omega
                        · simp only [c1, if_false]
                          rw [tick_get_set]
                          have hu2 : ¬ pos.upper = i := fun x => c1 x.symm
                          by_cases c2 : i = pos.lower
                          · subst c2
                            simp only [if_true, hul, if_false]
                            by_cases gz : tlu.gross = 0
                            · have g' : sumBy (grossContrib pos.lower) st.positions = 0 := by
                                rw [sumF, cG pos.lower]
                                simp only [hul, if_false, if_true]
                                have := htl'.1; have := inv.gross pos.lower; omega
                              have n' := net_zero_of_gross_zero _ _ g'
                              rw [sumF, cN pos.lower] at n'
                              simp only [hul, if_false, if_true] at n'
                              rw [htl'.2.2.2 gz]; omega
                            · rw [htlN (by omega)]; omega
                          · have hl2 : ¬ pos.lower = i := fun x => c2 x.symm
                            simp only [c2, if_false, hl2, hu2]
                            omega
                      · intro i
                        rw [e3, tick_get_set, sumF, cG i]
                        have hgi := inv.gross i
                        by_cases c1 : i = pos.upper
                        · subst c1
                          simp only [if_true, hlu, if_false]
                          have := htu'.1; omega
                        · simp only [c1, if_false]
                          rw [tick_get_set]
                          have hu2 : ¬ pos.upper = i := fun x => c1 x.symm
                          by_cases c2 : i = pos.lower
                          · subst c2
                            simp only [if_true, hul, if_false]
                            have := htl'.1; omega
                          · have hl2 : ¬ pos.lower = i := fun x => c2 x.symm
                            simp only [c2, if_false, hl2, hu2]
                            omega
                      · intro i
                        rw [e3, tick_get_set]
                        by_cases c1 : i = pos.upper
                        · simp only [c1, if_true]; exact htu'.2.1
                        · simp only [c1, if_false]
                          rw [tick_get_set]
                          by_cases c2 : i = pos.lower
                          · simp only [c2, if_true]; exact htl'.2.1
                          · simp only [c2, if_false]; exact inv.init i
                      · intro j q hq
                        rw [e4, posGet_replace _ _ _ _ _ hpos] at hq
                        by_cases c : j = id
                        · simp only [c, if_true] at hq
                          cases hq
                          rw [hpl2, hpl3]; exact hord
                        · simp only [c, if_false] at hq
                          exact inv.ordered j q hq
                    cases hX : calculateLiquidityTokenDeltas s.pool.tick s.pool.price pos.lower pos.upper delta with
                    | error e => simp [hX] at h
                    | ok dab =>
                      obtain ⟨da, db⟩ := dab
                      simp only [hX] at h
                      by_cases hp : positive = true
                      · simp only [hp, if_true, Except.ok.injEq, Prod.mk.injEq] at h
                        obtain ⟨h1, _⟩ := h
                        subst h1
                        exact key _ rfl rfl rfl rfl
                      · have hp' : positive = false := by simpa using hp
                        subst hp'
                        simp only [Bool.false_eq_true, if_false] at h
                        by_cases hv : (decide (da > s.vaultA) || decide (db > s.vaultB)) = true
                        · rw [if_pos hv] at h; simp at h
                        · rw [if_neg hv] at h
                          simp only [Except.ok.injEq, Prod.mk.injEq] at h
                          obtain ⟨h1, _⟩ := h
                          subst h1
                          exact key _ rfl rfl rfl rfl

/-! ### crossing a tick: the algebra behind `calculate_update` of the swap loop -/

theorem sumBy_sub (f g : PositionD → Int) : ∀ l, sumBy (fun p => f p - g p) l = sumBy f l - sumBy g l := by
  intro l; induction l with
  | nil => simp [sumBy]
  | cons hd tl ih => obtain ⟨k, w⟩ := hd; simp only [sumBy]; rw [ih]; omega

/-- moving the current tick index one step left across tick `T` changes the covering sum by −net(T):
    positions with lower = T leave the range, positions with upper = T enter it -/
theorem range_shift (T : Int) (l : List (Nat × PositionD)) (hord : ∀ kp ∈ l, kp.2.lower < kp.2.upper) :
    sumBy (inRangeLiq (T - 1)) l = sumBy (inRangeLiq T) l - sumBy (netContrib T) l := by
  induction l with
  | nil => simp [sumBy]
  | cons hd tl ih =>
    obtain ⟨k, w⟩ := hd
    simp only [sumBy]
    rw [ih (fun kp hk => hord kp (by simp [hk]))]
    have ho := hord (k, w) (by simp)
    simp only at ho
    have : inRangeLiq (T - 1) w = inRangeLiq T w - netContrib T w := by
      unfold inRangeLiq netContrib
      split <;> split <;> split <;> split <;> omega
    omega

/-- the crossing update of the swap loop keeps `liquidity = Σ covering positions`:
    a→b: tick T−1, liquidity − net(T);   b→a: tick T, liquidity + net(T) (coming from T−1) -/
theorem cross_preserves (T : Int) (liq : Int) (l : List (Nat × PositionD)) (hord : ∀ kp ∈ l, kp.2.lower < kp.2.upper) :
    (liq = sumBy (inRangeLiq T) l → liq - sumBy (netContrib T) l = sumBy (inRangeLiq (T - 1)) l) ∧
    (liq = sumBy (inRangeLiq (T - 1)) l → liq + sumBy (netContrib T) l = sumBy (inRangeLiq T) l) := by
  have := range_shift T l hord
  constructor <;> intro h <;> omega

/-- between two ticks with no liquidity-bearing position bound, the covering sum is constant -/
theorem range_const (l : List (Nat × PositionD)) (hord : ∀ kp ∈ l, kp.2.lower < kp.2.upper) :
    ∀ (n : Nat) (a : Int), (∀ i, a < i → i ≤ a + n → sumBy (grossContrib i) l = 0) →
      sumBy (inRangeLiq a) l = sumBy (inRangeLiq (a + n)) l := by
  intro n
  induction n with
  | zero => intro a _; simp
  | succ n ih =>
    intro a h
    have h1 := ih a (fun i h1 h2 => h i h1 (by push_cast; omega))
    have h2 := range_shift (a + ((n + 1 : Nat) : Int)) l hord
    have h3 := net_zero_of_gross_zero _ _ (h (a + ((n + 1 : Nat) : Int)) (by push_cast; omega) (by omega))
    have e : a + ((n + 1 : Nat) : Int) - 1 = a + (n : Int) := by push_cast; omega
    rw [e] at h2
    omega

/-! ### the remaining operations -/

theorem inv_of_same (s st : HistState) (inv : Inv s)
    (e1 : st.pool.liq = s.pool.liq) (e2 : st.pool.tick = s.pool.tick) (e3 : st.ticks = s.ticks)
    (hsum : ∀ f : PositionD → Int, (∀ p q : PositionD, p.liq = q.liq → p.lower = q.lower → p.upper = q.upper → f p = f q) →
      sumBy f st.positions = sumBy f s.positions)
    (hord : ∀ id p, posGet st.positions id = some p → p.lower < p.upper) : Inv st := by
  refine ⟨?_, ?_, ?_, ?_, hord⟩
  · rw [e1, e2, hsum _ (by intro p q a b c; unfold inRangeLiq; rw [a, b, c])]; exact inv.liq
  · intro i; rw [e3, hsum _ (by intro p q a b c; unfold netContrib; rw [a, b, c])]; exact inv.net i
  · intro i; rw [e3, hsum _ (by intro p q a b c; unfold grossContrib; rw [a, b, c])]; exact inv.gross i
  · intro i; rw [e3]; exact inv.init i

/-- replacing a position by one with the same liquidity and range changes no sum -/
theorem sum_replace_same (l : List (Nat × PositionD)) (id : Nat) (old new : PositionD) (h : posGet l id = some old)
    (a : new.liq = old.liq) (b : new.lower = old.lower) (c : new.upper = old.upper)
    (f : PositionD → Int) (hf : ∀ p q : PositionD, p.liq = q.liq → p.lower = q.lower → p.upper = q.upper → f p = f q) :
    sumBy f (posReplace l id new) = sumBy f l := by
  rw [sumBy_replace f l id old new h, hf new old a b c]; omega

theorem ord_replace_same (l : List (Nat × PositionD)) (id : Nat) (old new : PositionD) (h : posGet l id = some old)
    (b : new.lower = old.lower) (c : new.upper = old.upper)
    (hord : ∀ id p, posGet l id = some p → p.lower < p.upper) :
    ∀ j p, posGet (posReplace l id new) j = some p → p.lower < p.upper := by
  intro j p hp
  rw [posGet_replace _ _ _ _ _ h] at hp
  by_cases e : j = id
  · simp only [e, if_true] at hp; cases hp; rw [b, c]; exact hord id old h
  · simp only [e, if_false] at hp; exact hord j p hp

/-- the initial state satisfies the invariant -/
theorem inv_init (p : PoolD) (h : p.liq = 0) (now : Nat) : Inv { pool := p, now := now } := by
  refine ⟨by simp [h, sumBy], by intro i; simp [TickMap.get, sumBy], by intro i; simp [TickMap.get, sumBy],
          by intro i; simp [TickMap.get], by intro id q hq; simp [posGet] at hq⟩

theorem inv_open (s s' : HistState) (id : Nat) (lo hi : Int) (outs : List Nat) (inv : Inv s)
    (h : histStep s (.openPos id lo hi) = .ok (s', outs)) : Inv s' := by
  unfold histStep at h
  simp only [] at h
  split at h
  · simp at h
  · rename_i hc
    split at h
    · simp at h
    · split at h
      · simp at h
      · rename_i hnone
        simp only [Except.ok.injEq, Prod.mk.injEq] at h
        obtain ⟨h1, _⟩ := h
        subst h1
        have hn : posGet s.positions id = none := by
          cases e : posGet s.positions id with
          | none => rfl
          | some v => simp [e] at hnone
        have hlt : lo < hi := by
          simp only [Bool.not_eq_true, Bool.and_eq_true, decide_eq_true_eq, Bool.not_eq_eq_eq_not, Bool.not_true] at hc
          by_contra hcc
          simp [hcc] at hc
        have sumF : ∀ f : PositionD → Int, f { lower := lo, upper := hi } = 0 →
            sumBy f (posSet s.positions id { lower := lo, upper := hi }) = sumBy f s.positions := by
          intro f hf; rw [sumBy_insert f _ _ _ hn, hf]; omega
        refine ⟨?_, ?_, ?_, ?_, ?_⟩
        · simp only []; rw [sumF _ (by unfold inRangeLiq; simp)]; exact inv.liq
        · intro i; simp only []; rw [sumF _ (by unfold netContrib; simp)]; exact inv.net i
        · intro i; simp only []; rw [sumF _ (by unfold grossContrib; simp)]; exact inv.gross i
        · intro i; exact inv.init i
        · intro j q hq
          simp only [] at hq
          rw [posGet_insert _ _ _ _ hn] at hq
          by_cases e : j = id
          · simp only [e, if_true] at hq; cases hq; exact hlt
          · simp only [e, if_false] at hq; exact inv.ordered j q hq

theorem inv_upd (s s' : HistState) (id : Nat) (outs : List Nat) (inv : Inv s)
    (h : histStep s (.upd id) = .ok (s', outs)) : Inv s' := by
  unfold histStep at h
  simp only [] at h
  split at h
  · simp at h
  · rename_i pos hpos
    split at h
    · simp at h
    · rename_i u hu
      simp only [Except.ok.injEq, Prod.mk.injEq] at h
      obtain ⟨h1, _⟩ := h
      subst h1
      -- the position update with delta = 0 keeps liquidity and range
      have hp : u.position.liq = pos.liq ∧ u.position.lower = pos.lower ∧ u.position.upper = pos.upper := by
        unfold calculateModifyLiquidity at hu
        split at hu
        · simp at hu
        · split at hu
          · simp at hu
          · split at hu
            · simp at hu
            · split at hu
              · simp at hu
              · split at hu
                · simp at hu
                · simp only [] at hu
                  split at hu
                  · simp at hu
                  · rename_i pu hpu
                    simp only [Except.ok.injEq] at hu
                    subst hu
                    unfold nextPositionUpdate at hpu
                    simp only [] at hpu
                    split at hpu
                    · simp at hpu
                    · rename_i liq hl
                      simp at hpu; subst hpu
                      refine ⟨?_, rfl, rfl⟩
                      unfold addLiquidityDelta at hl
                      simp at hl
                      exact hl.symm
      exact inv_of_same s _ inv rfl rfl rfl
        (fun f hf => sum_replace_same _ _ _ _ hpos hp.1 hp.2.1 hp.2.2 f hf)
        (ord_replace_same _ _ _ _ hpos hp.2.1 hp.2.2 inv.ordered)

theorem inv_cfees (s s' : HistState) (id : Nat) (outs : List Nat) (inv : Inv s)
    (h : histStep s (.cfees id) = .ok (s', outs)) : Inv s' := by
  unfold histStep at h
  simp only [] at h
  split at h
  · simp at h
  · rename_i pos hpos
    split at h
    · simp at h
    · simp only [Except.ok.injEq, Prod.mk.injEq] at h
      obtain ⟨h1, _⟩ := h
      subst h1
      exact inv_of_same s _ inv rfl rfl rfl
        (fun f hf => by
          show sumBy f (posReplace s.positions id _) = _
          apply sum_replace_same _ _ pos _ hpos _ _ _ f hf <;> rfl)
        (by
          show ∀ j p, posGet (posReplace s.positions id _) j = some p → p.lower < p.upper
          apply ord_replace_same _ _ pos _ hpos _ _ inv.ordered <;> rfl)

theorem inv_crew (s s' : HistState) (id i : Nat) (outs : List Nat) (inv : Inv s)
    (h : histStep s (.crew id i) = .ok (s', outs)) : Inv s' := by
  unfold histStep at h
  simp only [] at h
  split at h
  · simp at h
  · split at h
    · simp at h
    · rename_i pos hpos
      simp only [Except.ok.injEq, Prod.mk.injEq] at h
      obtain ⟨h1, _⟩ := h
      subst h1
      exact inv_of_same s _ inv rfl rfl rfl
        (fun f hf => by
          show sumBy f (posReplace s.positions id _) = _
          apply sum_replace_same _ _ pos _ hpos _ _ _ f hf <;> rfl)
        (by
          show ∀ j p, posGet (posReplace s.positions id _) j = some p → p.lower < p.upper
          apply ord_replace_same _ _ pos _ hpos _ _ inv.ordered <;> rfl)

theorem inv_cproto (s s' : HistState) (outs : List Nat) (inv : Inv s)
    (h : histStep s .cproto = .ok (s', outs)) : Inv s' := by
  unfold histStep at h
  simp only [] at h
  split at h
  · simp at h
  · simp only [Except.ok.injEq, Prod.mk.injEq] at h
    obtain ⟨h1, _⟩ := h
    subst h1
    exact inv_of_same s _ inv rfl rfl rfl (fun f _ => rfl) inv.ordered

theorem inv_clock (s s' : HistState) (now : Nat) (outs : List Nat) (inv : Inv s)
    (h : histStep s (.clock now) = .ok (s', outs)) : Inv s' := by
  unfold histStep at h
  simp only [Except.ok.injEq, Prod.mk.injEq] at h
  obtain ⟨h1, _⟩ := h
  subst h1
  exact inv_of_same s _ inv rfl rfl rfl (fun f _ => rfl) inv.ordered

/-- the obligation that remains for the swap operation (see the header) -/
def SwapPreserves : Prop :=
  ∀ (s s' : HistState) (amount limit : Nat) (isInput aToB : Bool) (arrays : List Int) (outs : List Nat),
    Inv s → histStep s (.swap amount limit isInput aToB arrays) = .ok (s', outs) → Inv s'

/-- C05 (partial: modulo `SwapPreserves`): the invariant holds after EVERY finite history of
    operations, over any number of positions and any interleaving. -/
theorem inv_history_partial (hswap : SwapPreserves) : ∀ (ops : List HistOp) (s s' : HistState),
    Inv s → (∀ op ∈ ops, ∀ i e t, op ≠ .reward i e t) →
    ops.foldlM (fun st op => (histStep st op).map (·.1)) s = .ok s' → Inv s' := by
  intro ops
  induction ops with
  | nil => intro s s' inv _ h; simp [List.foldlM, pure, Except.pure] at h; subst h; exact inv
  | cons op rest ih =>
    intro s s' inv hnr h
    simp only [List.foldlM, bind, Except.bind] at h
    cases hs : histStep s op with
    | error e => simp [hs, Except.map] at h
    | ok r =>
      obtain ⟨s1, outs⟩ := r
      simp only [hs, Except.map] at h
      have inv1 : Inv s1 := by
        cases op with
        | openPos id lo hi => exact inv_open s s1 id lo hi outs inv hs
        | modify id a p => exact inv_modify s s1 id a p outs inv hs
        | upd id => exact inv_upd s s1 id outs inv hs
        | cfees id => exact inv_cfees s s1 id outs inv hs
        | cproto => exact inv_cproto s s1 outs inv hs
        | clock n => exact inv_clock s s1 n outs inv hs
        | swap a l i d arr => exact hswap s s1 a l i d arr outs inv hs
        | reward i e t => exact absurd rfl (hnr _ (by simp) i e t)
        | crew id i => exact inv_crew s s1 id i outs inv hs
      exact ih s1 s' inv1 (fun op' h' => hnr op' (by simp [h'])) h

-- Non-vacuity: a concrete two-position history reaches a state with tradable liquidity 1500
example : ((([HistOp.openPos 0 (-128) 128, .openPos 1 0 64, .modify 0 1000 true, .modify 1 500 true] : List HistOp).foldlM
    (fun st op => (histStep st op).map (·.1))
    ({ pool := { ts := 64, feeRate := 3000, protoRate := 0, price := 18446744073709551616, tick := 0 } } : HistState)).toOption.map
      (·.pool.liq)) = some 1500 := by decide +kernel

end WP.C05
