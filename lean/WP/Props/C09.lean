import WP.Props.C09.AllTicks
import WP.Props.C09.Bridge
/-
  Property C09 — tick index and sqrt-price convert consistently over the whole supported range.

  Property theorems only (helper lemmas live in WP/Props/C09/*).  The model functions `sp`
  (`sqrt_price_from_tick_index`) and `ti` (`tick_index_from_sqrt_price`) are in
  WP/Model/TickMath.lean; their 42 numeric constants are regenerated from the source on every
  run (WP/Gen/TickConsts.lean, WP/Gen/Consts.lean).
-/
namespace WP.C09
open WP WP.Gen

theorem minT : MIN_TICK_INDEX = -443636 := by decide
theorem maxT : MAX_TICK_INDEX = 443636 := by decide

theorem stepOk_spec (p q : Nat) (h : stepOk p q = true) :
    p < q ∧ (p * 4294967295) ^ 2 * 10001 ≤ (q * 4294967296) ^ 2 * 10000
      ∧ (q * 4294967296) ^ 2 * 10000 ≤ (p * 4294967297) ^ 2 * 10001 := by
  unfold stepOk at h
  simp only [Bool.and_eq_true, Nat.blt_eq, Nat.ble_eq, Nat.mul_eq, Nat.pow_eq] at h
  exact ⟨h.1.1, h.1.2, h.2⟩

/-- C09(a): the sqrt-price of a tick is strictly increasing in the tick index. -/
theorem sp_strictMono : ∀ t : Int, MIN_TICK_INDEX ≤ t → t < MAX_TICK_INDEX → sp t < sp (t + 1) := by
  intro t h1 h2
  rw [minT] at h1; rw [maxT] at h2
  exact (stepOk_spec _ _ (all_ticks t h1 h2).1).1

/-- C09(b): the published minimum and maximum sqrt-price at the minimum and maximum tick. -/
theorem sp_ends : sp MIN_TICK_INDEX = MIN_SQRT_PRICE_X64 ∧ sp MAX_TICK_INDEX = MAX_SQRT_PRICE_X64 := by
  decide +kernel

/-- C09(c): each step multiplies the price by sqrt(1.0001) to within 2^-32 relative error:
    (1 − 2^-32)² · 1.0001 ≤ (sp (t+1) / sp t)² ≤ (1 + 2^-32)² · 1.0001, in cross-multiplied form. -/
theorem sp_step_error : ∀ t : Int, MIN_TICK_INDEX ≤ t → t < MAX_TICK_INDEX →
    (sp t * (2 ^ 32 - 1)) ^ 2 * 10001 ≤ (sp (t + 1) * 2 ^ 32) ^ 2 * 10000 ∧
    (sp (t + 1) * 2 ^ 32) ^ 2 * 10000 ≤ (sp t * (2 ^ 32 + 1)) ^ 2 * 10001 := by
  intro t h1 h2
  rw [minT] at h1; rw [maxT] at h2
  have := (stepOk_spec _ _ (all_ticks t h1 h2).1).2
  norm_num at this ⊢
  exact this

theorem sp_lt_of_lt : ∀ (k : Nat) (s : Int), MIN_TICK_INDEX ≤ s → s + (k + 1 : Nat) ≤ MAX_TICK_INDEX →
    sp s < sp (s + (k + 1 : Nat)) := by
  intro k
  induction k with
  | zero =>
    intro s h1 h2
    have := sp_strictMono s h1 (by push_cast at h2; omega)
    simpa using this
  | succ k ih =>
    intro s h1 h2
    have a := ih s h1 (by push_cast at h2 ⊢; omega)
    have b := sp_strictMono (s + (k + 1 : Nat)) (by push_cast; omega) (by push_cast at h2 ⊢; omega)
    have e : s + ((k + 1 : Nat) : Int) + 1 = s + ((k + 1 + 1 : Nat) : Int) := by push_cast; omega
    rw [e] at b
    omega

/-- strict monotonicity between any two ticks of the range -/
theorem sp_lt : ∀ s t : Int, MIN_TICK_INDEX ≤ s → s < t → t ≤ MAX_TICK_INDEX → sp s < sp t := by
  intro s t h1 h2 h3
  have := sp_lt_of_lt (t - s - 1).toNat s h1 (by omega)
  have e : s + (((t - s - 1).toNat + 1 : Nat) : Int) = t := by omega
  rw [e] at this
  exact this

theorem sp_le : ∀ s t : Int, MIN_TICK_INDEX ≤ s → s ≤ t → t ≤ MAX_TICK_INDEX → sp s ≤ sp t := by
  intro s t h1 h2 h3
  rcases Int.lt_or_eq_of_le h2 with h | h
  · exact Nat.le_of_lt (sp_lt s t h1 h h3)
  · rw [h]

theorem sp_pos (t : Int) (h1 : MIN_TICK_INDEX ≤ t) (h2 : t ≤ MAX_TICK_INDEX) : sp t ≠ 0 := by
  have := sp_le MIN_TICK_INDEX t (le_refl _) h1 h2
  have e := sp_ends.1
  have : MIN_SQRT_PRICE_X64 ≤ sp t := by rw [← e]; exact this
  have : (4295048016 : Nat) ≤ sp t := this
  omega

theorem tick_at_min : tickLow (sp (-443636)) = -443636 - 1 ∧ tickHigh (sp (-443636)) = -443636 := by
  have : invOkN 0 (sp (-443636)) = true := by decide +kernel
  have := invOkN_spec 0 _ this
  simpa using this

/-- at the price of every tick the two estimates are exactly `t − 1` and `t` -/
theorem tick_at_price : ∀ t : Int, MIN_TICK_INDEX ≤ t → t ≤ MAX_TICK_INDEX →
    tickLow (sp t) = t - 1 ∧ tickHigh (sp t) = t := by
  intro t h1 h2
  rw [minT] at h1; rw [maxT] at h2
  by_cases h : t = -443636
  · rw [h]; exact tick_at_min
  · have := (all_ticks (t - 1) (by omega) (by omega)).2
    have e : t - 1 + 1 = t := by omega
    rw [e] at this
    have := invOkN_spec _ _ this
    have e2 : (((t + 443636).toNat : Nat) : Int) = t + 443636 := by omega
    rw [e2] at this
    constructor <;> omega

/-- every price of the half-open interval of tick `t` converts to `t` -/
theorem ti_of_interval (p : Nat) (t : Int) (h1 : MIN_TICK_INDEX ≤ t) (h2 : t < MAX_TICK_INDEX)
    (hlo : sp t ≤ p) (hhi : p < sp (t + 1)) : ti p = t := by
  have hp0 : sp t ≠ 0 := sp_pos t h1 (by omega)
  have hp : p ≠ 0 := by omega
  obtain ⟨a1, a2⟩ := tick_at_price t h1 (by omega)
  obtain ⟨b1, b2⟩ := tick_at_price (t + 1) (by omega) (by omega)
  have l1 := tickLow_mono (sp t) p hp0 hlo
  have l2 := tickLow_mono p (sp (t + 1)) hp (by omega)
  have u1 := tickHigh_mono (sp t) p hp0 hlo
  have u2 := tickHigh_mono p (sp (t + 1)) hp (by omega)
  obtain ⟨w1, w2⟩ := tick_window p
  unfold ti
  simp only []
  by_cases e : tickLow p = tickHigh p
  · rw [if_pos e]; omega
  · rw [if_neg e]
    by_cases c : tickLow p = t
    · have hh : tickHigh p = t + 1 := by omega
      rw [hh, if_neg (by omega), c]
    · have hl : tickLow p = t - 1 := by omega
      have hh : tickHigh p = t := by omega
      rw [hh, if_pos hlo]

theorem ti_max : ti MAX_SQRT_PRICE_X64 = MAX_TICK_INDEX := by
  obtain ⟨a1, a2⟩ := tick_at_price MAX_TICK_INDEX (by decide) (le_refl _)
  have e := sp_ends.2
  rw [e] at a1 a2
  unfold ti
  simp only []
  rw [a1, a2, if_neg (by rw [maxT]; omega), e, if_pos (le_refl _)]

theorem exists_tick : ∀ (k : Nat) (p : Nat), MIN_TICK_INDEX + k ≤ MAX_TICK_INDEX →
    sp MIN_TICK_INDEX ≤ p → p < sp (MIN_TICK_INDEX + k) →
    ∃ t : Int, MIN_TICK_INDEX ≤ t ∧ t < MIN_TICK_INDEX + k ∧ sp t ≤ p ∧ p < sp (t + 1) := by
  intro k
  induction k with
  | zero => intro p _ h1 h2; simp at h2; omega
  | succ k ih =>
    intro p hk h1 h2
    by_cases c : p < sp (MIN_TICK_INDEX + k)
    · obtain ⟨t, a, b, c1, d⟩ := ih p (by push_cast at hk; omega) h1 c
      exact ⟨t, a, by push_cast; omega, c1, d⟩
    · refine ⟨MIN_TICK_INDEX + k, by omega, by push_cast; omega, by omega, ?_⟩
      have e : MIN_TICK_INDEX + (k : Int) + 1 = MIN_TICK_INDEX + ((k + 1 : Nat) : Int) := by push_cast; omega
      rw [e]; exact h2

/-- C09(d): the tick of a sqrt-price is a tick whose price is at most that sqrt-price and whose
    successor's price is above it, for EVERY sqrt-price within bounds. -/
theorem ti_spec : ∀ p : Nat, MIN_SQRT_PRICE_X64 ≤ p → p ≤ MAX_SQRT_PRICE_X64 →
    MIN_TICK_INDEX ≤ ti p ∧ ti p ≤ MAX_TICK_INDEX ∧ sp (ti p) ≤ p ∧
      (ti p < MAX_TICK_INDEX → p < sp (ti p + 1)) := by
  intro p h1 h2
  by_cases c : p = MAX_SQRT_PRICE_X64
  · rw [c, ti_max]
    exact ⟨by decide, le_refl _, by rw [sp_ends.2], fun h => absurd h (lt_irrefl _)⟩
  · have hk : MIN_TICK_INDEX + ((887272 : Nat) : Int) = MAX_TICK_INDEX := by decide
    obtain ⟨t, a, b, c1, d⟩ := exists_tick 887272 p (by rw [hk]) (by rw [sp_ends.1]; exact h1)
      (by rw [hk, sp_ends.2]; omega)
    rw [hk] at b
    have := ti_of_interval p t a b c1 d
    rw [this]
    exact ⟨a, by omega, c1, fun _ => d⟩

/-- C09(e): … and it is the unique such tick. -/
theorem ti_unique : ∀ (p : Nat) (t : Int), MIN_SQRT_PRICE_X64 ≤ p → p ≤ MAX_SQRT_PRICE_X64 →
    MIN_TICK_INDEX ≤ t → t ≤ MAX_TICK_INDEX → sp t ≤ p → (t < MAX_TICK_INDEX → p < sp (t + 1)) →
    ti p = t := by
  intro p t h1 h2 a b c d
  by_cases e : t = MAX_TICK_INDEX
  · have : p = MAX_SQRT_PRICE_X64 := by
      have := sp_ends.2
      rw [e] at c; omega
    rw [this, e]; exact ti_max
  · exact ti_of_interval p t a (by omega) c (d (by omega))

/-- C09(f): converting a tick to a price and back returns the same tick. -/
theorem ti_sp : ∀ t : Int, MIN_TICK_INDEX ≤ t → t ≤ MAX_TICK_INDEX → ti (sp t) = t := by
  intro t a b
  have h1 : MIN_SQRT_PRICE_X64 ≤ sp t := by
    rw [← sp_ends.1]; exact sp_le _ _ (le_refl _) a b
  have h2 : sp t ≤ MAX_SQRT_PRICE_X64 := by
    rw [← sp_ends.2]; exact sp_le _ _ (by omega) b (le_refl _)
  exact ti_unique (sp t) t h1 h2 a b (le_refl _) (fun h => sp_strictMono t a h)

/-- C09(g): the fixed-width intermediates of the forward conversion never wrap: every tick price
    fits 96 bits, so each `mul_shift_96` result fits u128 (the ladder is increasing) -/
theorem sp_fits : ∀ t : Int, MIN_TICK_INDEX ≤ t → t ≤ MAX_TICK_INDEX → sp t < 2 ^ 96 := by
  intro t a b
  have h2 : sp t ≤ MAX_SQRT_PRICE_X64 := by
    rw [← sp_ends.2]; exact sp_le _ _ (by omega) b (le_refl _)
  have : MAX_SQRT_PRICE_X64 < 2 ^ 96 := by decide
  omega

-- non-vacuity: concrete instances that meet the hypotheses and exercise both branches of `ti`
example : ti 18446744073709551616 = 0 ∧ sp 0 = 18446744073709551616 := by decide +kernel
example : ti (sp 0 - 1) = -1 := by decide +kernel          -- tick_low ≠ tick_high, resolved by the exact comparison
example : MIN_TICK_INDEX ≤ (-427197 : Int) ∧ ti (sp (-427197)) = -427197 := by decide +kernel

end WP.C09
