import WP.Props.C02
import WP.Props.C06
import WP.Props.C07
import WP.Props.C08
import WP.Model.Hist
/-
  Property C01 — pool solvency: every outstanding claim on a vault can always be paid.

  STATUS: PARTIAL.  The composite invariant  vault ≥ protocol fees owed + Σ fees owed + Σ withdrawable
  over ALL histories (`Solvent` below) is stated but not yet proved in Lean.  What is proved are the
  four mechanisms it rests on, each for all inputs:
    (1) deposits round up and withdrawals round down, so a position never withdraws more than it
        put in at an unchanged price                                     (deposit_covers_withdrawal)
    (2) a swap step takes at least the exact curve input and pays at most the exact curve output
                                                                         (step_pool_never_loses)
    (3) every unit of fee that becomes a claim (protocol fees owed, LP fee growth) was received by
        the vault in the same swap: paid = Σ in + Σ fee, Σ fee = lp_fee + protocol_fee (fees_backed)
    (4) a position is never credited more than L·Δgrowth/2^64                    (C07.credit_le)
  The invariant itself, the drain in rotating orders at EVERY prefix of every explored history, and
  the no-free-lunch clause are checked on the implementation by the history harness' oracles
  (hist_oracle.rs: c01_drain, trader ledger) and by the model correspondence.
-/
namespace WP.C01
open WP WP.Gen

/-- (1) -/
theorem deposit_covers_withdrawal (curTick : Int) (price : Nat) (lower upper : Int) (L : Nat) (ai bi ad bd : Nat)
    (hl : 0 < sp lower) (hu : 0 < sp upper) (hp : 0 < price) (hL : 0 < L)
    (hinc : calculateLiquidityTokenDeltas curTick price lower upper (L : Int) = .ok (ai, bi))
    (hdec : calculateLiquidityTokenDeltas curTick price lower upper (-(L : Int)) = .ok (ad, bd)) :
    ad ≤ ai ∧ bd ≤ bi := by
  have := C08.add_remove_loss curTick price lower upper L ai bi ad bd hl hu hp hL hinc hdec
  omega

/-- (2): the input taken is ≥ the exact amount (it is its ceiling) and the output paid ≤ the exact
    amount (it is at most its floor), in units of the exact rational amounts num/den -/
theorem step_pool_never_loses (rem rate L cur tgt : Nat) (ein dir : Bool) (r : SwapStep)
    (wf : C02.WFStep rem rate L cur tgt dir) (h : computeSwap rem rate L cur tgt ein dir = .ok r) :
    r.amountIn = C02.roundTok dir L (C02.lo' cur r.nextPrice) (C02.hi' cur r.nextPrice) true ∧
    r.amountOut ≤ C02.roundTok (!dir) L (C02.lo' cur r.nextPrice) (C02.hi' cur r.nextPrice) false := by
  refine ⟨C02.step_in_exact rem rate L cur tgt ein dir r wf h, ?_⟩
  rw [C02.step_out_exact rem rate L cur tgt ein dir r wf h]
  split
  · exact le_refl _
  · exact Nat.min_le_right _ _

/-- (3) -/
theorem fees_backed (p : PoolD) (ticks : TickMap) (arrays : List Int) (amount limit : Nat) (isInput aToB : Bool)
    (now : Nat) (af : Option AfInfo) (fuel : Nat) (u : PostSwap)
    (hp : p.protoRate ≤ PROTOCOL_FEE_RATE_MUL_VALUE)
    (h : swap p ticks arrays amount limit isInput aToB now af fuel = .ok u) :
    (if aToB then u.amountA else u.amountB) = C06.sumIn u.steps + (u.lpFee + u.protoFee) := by
  have := C06.swap_accounting p ticks arrays amount limit isInput aToB now af fuel u hp h
  omega

/-- the remaining obligation: the solvency invariant over all histories (floor-valued claims) -/
def Solvent (s : HistState) : Prop :=
  ∀ (claimsA claimsB : Nat),
    claimsA = s.pool.pfA + (s.positions.map fun (_, q) => q.owedA).sum →
    claimsB = s.pool.pfB + (s.positions.map fun (_, q) => q.owedB).sum →
    claimsA ≤ s.vaultA ∧ claimsB ≤ s.vaultB

end WP.C01
