import WP.Props.C02
import WP.Props.C06
import WP.Props.C07
import WP.Props.C08
import WP.Model.Hist
import WP.Props.Solvency.Final
import WP.Props.Solvency.Ext
/-
  Property C01 — pool solvency: every outstanding claim on a vault can always be paid.

  STATUS: PROVED for the history state machine `histStep` / `histApply` (WP.Model.Hist: a pool over an
  abstract tick map with any number of positions; operations open position, increase / decrease
  liquidity, update fees, collect fees, collect protocol fees, swap (static or adaptive fee, any amount,
  direction, mode, limit, over any aligned consecutive array sequence), reward configuration and
  collection, clock moves; a failing operation changes nothing).  The helper development is in
  WP/Props/Solvency/*.lean; this file states the property theorems.

    (I)   `solvent`         after ANY finite history each vault holds at least the protocol fees owed plus,
                            for every position, its owed fees, the fee it would be credited if touched
                            now and the tokens returned by withdrawing all its liquidity now
    (II)  `funds_suffice`   hence none of the four transfers out of a vault can lack funds in a reachable
                            state — draining in any order succeeds
    (III) `no_free_lunch`   a swap-only history never leaves the vaults with less of one token and no more
                            of the other: whoever only swaps never gains one token without losing the other

  The invariant behind (I)–(III) is over EXACT rational claims (`Solv.claims`): Σ L·2^64·(1/p̄ − 1/p_u),
  Σ L·(p̄ − p_l)/2^64, Σ L·pend/2^64 — the program takes ceilings of these and pays floors.

  The mechanisms (1)–(4) below were the first stage and stay as independent statements.
  Hypotheses that remain visible: swaps run over aligned consecutive array sequences (`OpOK`; what the
  account loader builds: `Reach.buildSeq_seqOK`) with a u64 amount; the pool starts empty with in-bounds
  price / fee rate / protocol fee rate (`solv_init`; C19 is about those bounds).
-/
namespace WP.C01
open WP WP.Gen WP.Reach WP.Path WP.Solv

/-- (1) -/
theorem deposit_covers_withdrawal (curTick : Int) (price : Nat) (lower upper : Int) (L : Nat) (ai bi ad bd : Nat)
    (hl : 0 < sp lower) (hu : 0 < sp upper) (hp : 0 < price) (hL : 0 < L)
    (hinc : calculateLiquidityTokenDeltas curTick price lower upper (L : Int) = .ok (ai, bi))
    (hdec : calculateLiquidityTokenDeltas curTick price lower upper (-(L : Int)) = .ok (ad, bd)) :
    ad ≤ ai ∧ bd ≤ bi := by
  have := C08.add_remove_loss curTick price lower upper L ai bi ad bd hl hu hp hL hinc hdec
  omega

/-- (2): the input taken is ≥ the exact amount (it is its ceiling) and the output paid ≤ the exact
    amount (it is at most its floor), in units of the exact rational amounts num/den -/
theorem step_pool_never_loses (rem rate L cur tgt : Nat) (ein dir : Bool) (r : SwapStep)
    (wf : C02.WFStep rem rate L cur tgt dir) (h : computeSwap rem rate L cur tgt ein dir = .ok r) :
    r.amountIn = C02.roundTok dir L (C02.lo' cur r.nextPrice) (C02.hi' cur r.nextPrice) true ∧
    r.amountOut ≤ C02.roundTok (!dir) L (C02.lo' cur r.nextPrice) (C02.hi' cur r.nextPrice) false := by
  refine ⟨C02.step_in_exact rem rate L cur tgt ein dir r wf h, ?_⟩
  rw [C02.step_out_exact rem rate L cur tgt ein dir r wf h]
  split
  · exact le_refl _
  · exact Nat.min_le_right _ _

/-- (3) -/
theorem fees_backed (p : PoolD) (ticks : TickMap) (arrays : List Int) (amount limit : Nat) (isInput aToB : Bool)
    (now : Nat) (af : Option AfInfo) (fuel : Nat) (u : PostSwap)
    (hp : p.protoRate ≤ PROTOCOL_FEE_RATE_MUL_VALUE)
    (h : swap p ticks arrays amount limit isInput aToB now af fuel = .ok u) :
    (if aToB then u.amountA else u.amountB) = C06.sumIn u.steps + (u.lpFee + u.protoFee) := by
  have := C06.swap_accounting p ticks arrays amount limit isInput aToB now af fuel u hp h
  omega

/-! ### the property -/

variable {ts0 : Nat}

/-- the state after a history started on a fresh pool -/
def after (p : PoolD) (now : Nat) (af : Option AfInfo) (ops : List HistOp) : HistState :=
  ops.foldl histApply { pool := p, now := now, af := af }

/-- a fresh pool: no liquidity, nothing owed, price / tick consistent and in bounds, rates in bounds -/
structure Fresh (p : PoolD) (af : Option AfInfo) : Prop where
  liq : p.liq = 0
  ts : 0 < p.ts
  fee : p.feeRate ≤ FEE_RATE_HARD_LIMIT
  proto : p.protoRate ≤ PROTOCOL_FEE_RATE_MUL_VALUE
  price_lo : MIN_SQRT_PRICE_X64 ≤ p.price
  price_hi : p.price ≤ MAX_SQRT_PRICE_X64
  tick : p.tick = ti p.price
  pfA : p.pfA = 0
  pfB : p.pfB = 0
  fgA : p.fgA < TWO128
  fgB : p.fgB < TWO128
  af : ∀ info, af = some info → InfoOK info

theorem fresh_inv (p : PoolD) (now : Nat) (af : Option AfInfo) (f : Fresh p af) :
    SolvInv p.ts { pool := p, now := now, af := af } :=
  solv_init p now af f.liq f.ts f.fee f.price_lo f.price_hi f.tick f.af f.proto f.pfA f.pfB f.fgA f.fgB

theorem reachable (p : PoolD) (now : Nat) (af : Option AfInfo) (ops : List HistOp) (f : Fresh p af)
    (hops : ∀ op ∈ ops, OpOK p.ts op) : SolvInv p.ts (after p now af ops) :=
  reach_solvent ops _ (fresh_inv p now af f) hops

/-- **C01 (I)**: after any history, for token A (`true`) and token B (`false`):
    protocol fees owed + Σ over positions of (fees owed + fee credited if touched now + tokens returned by
    withdrawing all liquidity at the current price)  ≤  vault balance -/
theorem solvent (p : PoolD) (now : Nat) (af : Option AfInfo) (ops : List HistOp) (f : Fresh p af)
    (hops : ∀ op ∈ ops, OpOK p.ts op) (tokA : Bool) :
    pfOf tokA (after p now af ops) +
      sumN (fun q => owedN tokA q + creditNow tokA (after p now af ops) q + withdrawAll tokA (after p now af ops) q)
        (after p now af ops).positions ≤ vaultOf tokA (after p now af ops) :=
  payable tokA _ (reachable p now af ops f hops)

/-- the statement of the first stage (floor-valued claims, fees only) is a consequence -/
def Solvent (s : HistState) : Prop :=
  ∀ (claimsA claimsB : Nat),
    claimsA = s.pool.pfA + (s.positions.map fun (_, q) => q.owedA).sum →
    claimsB = s.pool.pfB + (s.positions.map fun (_, q) => q.owedB).sum →
    claimsA ≤ s.vaultA ∧ claimsB ≤ s.vaultB

theorem map_sum_le (f g : PositionD → Nat) (h : ∀ q, f q ≤ g q) : ∀ l : List (Nat × PositionD),
    (l.map fun x => f x.2).sum ≤ sumN g l := by
  intro l
  induction l with
  | nil => simp [sumN]
  | cons hd tl ih =>
    obtain ⟨k, w⟩ := hd
    simp only [List.map_cons, List.sum_cons, sumN]
    have := h w
    omega

theorem solvent_floor (p : PoolD) (now : Nat) (af : Option AfInfo) (ops : List HistOp) (f : Fresh p af)
    (hops : ∀ op ∈ ops, OpOK p.ts op) : Solvent (after p now af ops) := by
  intro cA cB hA hB
  have a := solvent p now af ops f hops true
  have b := solvent p now af ops f hops false
  have a' := map_sum_le (fun q => q.owedA)
    (fun q => owedN true q + creditNow true (after p now af ops) q + withdrawAll true (after p now af ops) q)
    (fun q => by unfold owedN; simp only [if_true]; omega) (after p now af ops).positions
  have b' := map_sum_le (fun q => q.owedB)
    (fun q => owedN false q + creditNow false (after p now af ops) q + withdrawAll false (after p now af ops) q)
    (fun q => by unfold owedN; simp only [Bool.false_eq_true, if_false]; omega) (after p now af ops).positions
  have eA : ((after p now af ops).positions.map fun (_, q) => q.owedA) = ((after p now af ops).positions.map fun x => x.2.owedA) := rfl
  have eB : ((after p now af ops).positions.map fun (_, q) => q.owedB) = ((after p now af ops).positions.map fun x => x.2.owedB) := rfl
  unfold pfOf vaultOf at a b
  simp only [if_true, Bool.false_eq_true, if_false] at a b
  constructor
  · rw [hA, eA]; omega
  · rw [hB, eB]; omega

/-- **C01 (II)**: in every reachable state, collecting protocol fees, collecting any position's fees,
    removing any accepted amount of any position's liquidity and paying the output of any swap never
    exceed the vault balance -/
theorem funds_suffice (p : PoolD) (now : Nat) (af : Option AfInfo) (ops : List HistOp) (f : Fresh p af)
    (hops : ∀ op ∈ ops, OpOK p.ts op) :
    let s := after p now af ops
    (s.pool.pfA ≤ s.vaultA ∧ s.pool.pfB ≤ s.vaultB) ∧
    (∀ id pos, posGet s.positions id = some pos → pos.owedA ≤ s.vaultA ∧ pos.owedB ≤ s.vaultB) ∧
    (∀ id pos (amount : Nat) u da db, posGet s.positions id = some pos →
        calculateModifyLiquidity s.pool pos (s.ticks.get pos.lower) (s.ticks.get pos.upper) (-(amount : Int)) s.now = .ok u →
        calculateLiquidityTokenDeltas s.pool.tick s.pool.price pos.lower pos.upper (-(amount : Int)) = .ok (da, db) →
        da ≤ s.vaultA ∧ db ≤ s.vaultB) ∧
    (∀ amount limit isInput aToB arrays u, SeqOK arrays s.pool.ts aToB → amount ≤ U64_MAX →
        swap s.pool s.ticks arrays amount limit isInput aToB s.now s.af SWAP_FUEL = .ok u →
        (if aToB then u.amountB ≤ s.vaultB else u.amountA ≤ s.vaultA)) :=
  Solv.funds_suffice _ (reachable p now af ops f hops)

/-- **C01 (III)**: from any reachable state, any sequence of swaps leaves the vaults NOT with (less of
    one token and no more of the other) -/
theorem no_free_lunch (p : PoolD) (now : Nat) (af : Option AfInfo) (ops swaps : List HistOp) (f : Fresh p af)
    (hops : ∀ op ∈ ops, OpOK p.ts op) (hsw : ∀ op ∈ swaps, OpOK p.ts op ∧ IsSwap op) :
    let s := after p now af ops
    let s' := swaps.foldl histApply s
    ¬ (s'.vaultA ≤ s.vaultA ∧ s'.vaultB ≤ s.vaultB ∧ (s'.vaultA < s.vaultA ∨ s'.vaultB < s.vaultB)) :=
  Solv.no_free_lunch swaps _ (reachable p now af ops f hops) hsw

/-- **C01 (I) for histories that also re-range empty positions and reposition liquidity**
    (`reset_position_range`, `reposition_liquidity_v2` = withdraw all ; re-range ; deposit): the invariant —
    and with it `payable`, `funds_suffice` — holds at every state such a history reaches -/
theorem solvent_ext (p : PoolD) (now : Nat) (af : Option AfInfo) (ops : List ExtOp) (f : Fresh p af)
    (hops : ∀ op ∈ ops, ExtOK p.ts op) (tokA : Bool) :
    let s := ops.foldl extApply { pool := p, now := now, af := af }
    pfOf tokA s + sumN (fun q => owedN tokA q + creditNow tokA s q + withdrawAll tokA s q) s.positions ≤ vaultOf tokA s :=
  payable tokA _ (reach_solvent_ext ops _ (fresh_inv p now af f) hops)

/-! ### non-vacuity: a concrete history meets every hypothesis, holds claims, and the theorems bite -/

example : Fresh Reach.exPool none :=
  { liq := rfl, ts := by decide, fee := by decide, proto := by decide, price_lo := by decide, price_hi := by decide,
    tick := by decide +kernel, pfA := rfl, pfB := rfl, fgA := by decide, fgB := by decide, af := fun _ h => by cases h }

-- the example history of Reach.lean (two positions, a crossing swap down, a swap back up) leaves non-zero
-- protocol fees, a positive vault on both sides, and the trader of the two swaps has lost token A
example : let s0 := after Reach.exPool 10 none (Reach.exOps.take 4)
          let s := after Reach.exPool 10 none Reach.exOps
          (0 < s.pool.pfA ∧ 0 < s.vaultA ∧ 0 < s.vaultB ∧ s0.vaultA < s.vaultA ∧ s.positions.length = 2) = True := by
  decide +kernel

-- a reposition really executes on the example history: position 2 (range [−6400, −64), in range after the
-- first swap) is moved to [−12800, −6400) with new liquidity, and the result still holds liquidity
example : let s := after Reach.exPool 10 none (Reach.exOps.take 5)
          (match histRepo s 2 (-12800) (-6400) 50000 with
           | .ok s' => decide (s'.pool.liq < s.pool.liq) && (posGet s'.positions 2).map (fun q => (q.lower, q.upper, q.liq)) == some (-12800, -6400, 50000)
           | .error _ => false) = true := by
  decide +kernel

end WP.C01
