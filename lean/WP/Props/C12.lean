import WP.Model.PinoOffset
import WP.Gen.Layouts
/-
  Property C12 — the Pinocchio fast path and the Anchor implementation agree bit for bit.

  The port differs from the Anchor code in exactly three structural ways; each is decided here:
   1. it reads and writes accounts through #[repr(C)] byte-array views instead of Borsh / zero-copy
      types: the two sets of declarations are regenerated from the source on every run
      (Gen/Layouts.lean) and their leaf layouts (path, kind, offset, size) are computed and compared
      (`*_layout_eq`), with total lengths 653 / 216 / 9988 / 60-byte dynamic header, discriminators
      (`discriminators_eq`) and the getters' field/integer type (`getters_ok`);
   2. it computes the tick offset with a division-free shift-subtract loop: `pino_offset_spec` proves
      it equal to the Anchor check-and-divide for every tick, spacing and (valid) start index;
   3. the dynamic array is accessed through its own byte routine: C13 (`pino_eq`, `update_refines`).
  The ported manager arithmetic itself (pinocchio/ported/manager_liquidity_manager.rs) is tied to the
  SAME Lean model functions as the Anchor managers by the correspondence harness, which runs both on
  identical bytes (families pmod, hist, dyn, reset) and compares them with each other and the model.
-/
set_option linter.unusedSimpArgs false
namespace WP.C12
open WP WP.Gen

/-! ### 2. the division-free offset routine -/

theorem pinoLoop_spec (ts : Nat) (hts : 0 < ts) : ∀ (k fuel rem off : Nat), fuel ≥ k + 2 → rem < ts * 2 ^ (k + 1) →
    pinoLoop fuel ts rem off (ts * 2 ^ k) (2 ^ k) = (rem % ts, off + rem / ts) := by
  intro k
  induction k with
  | zero =>
    intro fuel rem off hf hr
    obtain ⟨f, rfl⟩ : ∃ f, fuel = f + 2 := ⟨fuel - 2, by omega⟩
    simp only [Nat.pow_zero, Nat.mul_one, Nat.zero_add, Nat.pow_one] at hr ⊢
    unfold pinoLoop
    simp only [ge_iff_le, Nat.le_refl, if_true]
    have hhalf : ¬ ts / 2 ≥ ts := by
      have : ts / 2 < ts := Nat.div_lt_self hts (by decide)
      omega
    by_cases h : ts ≤ rem
    · rw [if_pos h]
      unfold pinoLoop
      rw [if_neg hhalf]
      have h1 : rem / ts = 1 := by
        apply Nat.div_eq_of_lt_le <;> omega
      have h2 : rem % ts = rem - ts := by
        have := Nat.div_add_mod rem ts
        rw [h1] at this; omega
      rw [h1, h2]
    · rw [if_neg h]
      unfold pinoLoop
      rw [if_neg hhalf]
      have h' : rem < ts := by omega
      rw [Nat.mod_eq_of_lt h', Nat.div_eq_of_lt h']
      rfl
  | succ k ih =>
    intro fuel rem off hf hr
    obtain ⟨f, rfl⟩ : ∃ f, fuel = f + 1 := ⟨fuel - 1, by omega⟩
    have hD : ts * 2 ^ (k + 1) / 2 = ts * 2 ^ k := by
      rw [Nat.pow_succ, ← Nat.mul_assoc, Nat.mul_div_cancel _ (by decide : 0 < 2)]
    have hM : 2 ^ (k + 1) / 2 = 2 ^ k := by
      rw [Nat.pow_succ, Nat.mul_div_cancel _ (by decide : 0 < 2)]
    have hge : ts * 2 ^ (k + 1) ≥ ts := by
      have : 2 ^ (k + 1) ≥ 1 := Nat.one_le_two_pow
      calc ts = ts * 1 := (Nat.mul_one ts).symm
        _ ≤ ts * 2 ^ (k + 1) := Nat.mul_le_mul_left ts this
    unfold pinoLoop
    rw [if_pos hge, hD, hM]
    by_cases h : ts * 2 ^ (k + 1) ≤ rem
    · rw [if_pos h]
      have hr' : rem - ts * 2 ^ (k + 1) < ts * 2 ^ (k + 1) := by
        have : ts * 2 ^ (k + 1 + 1) = ts * 2 ^ (k + 1) + ts * 2 ^ (k + 1) := by
          rw [Nat.pow_succ 2 (k + 1), ← Nat.mul_assoc, Nat.mul_two]
        omega
      rw [ih f _ _ (by omega) hr', Nat.sub_mul_mod h, Nat.sub_mul_div]
      have : 2 ^ (k + 1) ≤ rem / ts := by
        rw [Nat.le_div_iff_mul_le hts, Nat.mul_comm]; exact h
      congr 1; omega
    · rw [if_neg h]
      exact ih f _ _ (by omega) (by omega)

/-- every valid start index is a multiple of the spacing -/
theorem validStart_mod (t : Int) (ts : Nat) (hts : 0 < ts) (h : validStartTick t ts = true) : t % (ts : Int) = 0 := by
  unfold validStartTick at h
  have hdvd : ((ts : Int)) ∣ ((TICK_ARRAY_SIZE : Nat) : Int) * ts := Int.dvd_mul_left _ _
  by_cases ho : outOfBounds t = true
  · rw [if_pos ho] at h
    by_cases hm : t > MIN_TICK_INDEX
    · rw [if_pos hm] at h; cases h
    · rw [if_neg hm] at h
      have h := of_decide_eq_true h
      have h2 : ((TICK_ARRAY_SIZE : Nat) : Int) * ts ∣ (MIN_TICK_INDEX - Int.tmod MIN_TICK_INDEX ((TICK_ARRAY_SIZE : Nat) * ts)) := by
        have := Int.mul_tdiv_add_tmod MIN_TICK_INDEX (((TICK_ARRAY_SIZE : Nat) : Int) * ts)
        exact ⟨Int.tdiv MIN_TICK_INDEX (((TICK_ARRAY_SIZE : Nat) : Int) * ts), by omega⟩
      have h3 : ((TICK_ARRAY_SIZE : Nat) : Int) * ts ∣ t := by
        rw [h]
        have : MIN_TICK_INDEX - (Int.tmod MIN_TICK_INDEX (((TICK_ARRAY_SIZE : Nat) : Int) * ts) + ((TICK_ARRAY_SIZE : Nat) : Int) * ts) =
            (MIN_TICK_INDEX - Int.tmod MIN_TICK_INDEX (((TICK_ARRAY_SIZE : Nat) : Int) * ts)) - ((TICK_ARRAY_SIZE : Nat) : Int) * ts := by omega
        rw [this]
        exact Int.dvd_sub h2 (Int.dvd_refl _)
      exact Int.emod_eq_zero_of_dvd (Int.dvd_trans hdvd h3)
  · rw [if_neg ho] at h
    have h := of_decide_eq_true h
    have h3 : ((TICK_ARRAY_SIZE : Nat) : Int) * ts ∣ t := Int.dvd_of_tmod_eq_zero h
    exact Int.emod_eq_zero_of_dvd (Int.dvd_trans hdvd h3)

/-- **the division-free routine equals the Anchor check-and-divide**: for every tick, spacing and
    start index that is a multiple of the spacing, `check_is_usable_tick_and_get_offset` returns
    `Some(offset)` exactly when the Anchor accessors accept the tick, with the same offset -/
theorem pino_offset_spec (start tick : Int) (ts : Nat) (hs : start % (ts : Int) = 0) :
    pinoUsableOffset start tick ts = (slotOf start tick ts).toOption := by
  unfold pinoUsableOffset slotOf
  by_cases hb : inBounds start tick ts = true
  · have hb' := hb
    unfold inBounds at hb'
    simp only [Bool.and_eq_true, decide_eq_true_eq] at hb'
    have hT : ((TICK_ARRAY_SIZE : Nat) : Int) = 88 := rfl
    rw [hT] at hb'
    have hts : 0 < ts := by
      rcases Nat.eq_zero_or_pos ts with h | h
      · subst h; simp at hb'; omega
      · exact h
    have htsne : ¬ ts = 0 := by omega
    by_cases ho : outOfBounds tick = true
    · have : isUsableTick tick ts = false := by
        unfold outOfBounds at ho; unfold isUsableTick
        simp only [Bool.not_eq_true', Bool.and_eq_false_iff] at ho
        rcases ho with h | h <;> simp [h]
      simp [hb, ho, this, Except.toOption]
    · have ho' : outOfBounds tick = false := by simpa using ho
      simp only [hb, ho', Bool.not_true, Bool.false_or, Bool.false_eq_true, if_false]
      have hd : (tick - start).natAbs < ts * 2 ^ (6 + 1) := by omega
      have hloop := pinoLoop_spec ts hts 6 32 (tick - start).natAbs 0 (by decide) hd
      rw [show ts * 64 = ts * 2 ^ 6 by rfl, show (64 : Nat) = 2 ^ 6 by rfl, hloop]
      simp only [Nat.zero_add]
      have hnn : 0 ≤ tick - start := by omega
      have hcast : ((tick - start).natAbs : Int) = tick - start := Int.natAbs_of_nonneg hnn
      have hmod : ((tick - start).natAbs % ts = 0) ↔ (tick % (ts : Int) = 0) := by
        constructor
        · intro h
          have : (((tick - start).natAbs % ts : Nat) : Int) = 0 := by rw [h]; rfl
          rw [Int.natCast_emod, hcast] at this
          have h2 : (ts : Int) ∣ tick - start := Int.dvd_of_emod_eq_zero this
          have h3 : (ts : Int) ∣ start := Int.dvd_of_emod_eq_zero hs
          have : (ts : Int) ∣ tick := by
            have := Int.dvd_add h2 h3
            rwa [Int.sub_add_cancel] at this
          exact Int.emod_eq_zero_of_dvd this
        · intro h
          have h2 : (ts : Int) ∣ tick := Int.dvd_of_emod_eq_zero h
          have h3 : (ts : Int) ∣ start := Int.dvd_of_emod_eq_zero hs
          have h4 : (ts : Int) ∣ tick - start := Int.dvd_sub h2 h3
          have := Int.emod_eq_zero_of_dvd h4
          rw [← hcast, ← Int.natCast_emod] at this
          exact_mod_cast this
      have hdiv : ((tick - start) / (ts : Int)).toNat = (tick - start).natAbs / ts := by
        have : (tick - start) / (ts : Int) = (((tick - start).natAbs / ts : Nat) : Int) := by
          rw [Int.natCast_ediv, hcast]
        rw [this, Int.toNat_natCast]
      have hdnn : ¬ (tick - start) / (ts : Int) < 0 := by
        have : 0 ≤ (tick - start) / (ts : Int) := Int.ediv_nonneg hnn (by omega)
        omega
      have hin : (decide (MIN_TICK_INDEX ≤ tick) && decide (tick ≤ MAX_TICK_INDEX)) = true := by
        unfold outOfBounds at ho'; simpa using ho'
      by_cases hu : tick % (ts : Int) = 0
      · have : isUsableTick tick ts = true := by
          unfold isUsableTick; rw [hin]; simp [hu]
        rw [if_pos (hmod.mpr hu)]
        simp only [this, Bool.not_true, Bool.false_eq_true, if_false, htsne, hdnn, Except.toOption, hdiv]
      · have : isUsableTick tick ts = false := by
          unfold isUsableTick; rw [hin]; simp [hu]
        rw [if_neg (fun h => hu (hmod.mp h))]
        simp [this, Except.toOption]
  · have hb' : inBounds start tick ts = false := by simpa using hb
    simp [hb', Except.toOption]


/-! ### 1. byte layouts (regenerated from both sets of declarations on every run) -/

def aEnv : StructEnv := anchorStructs.map fun x => (x.1, x.2.2)
def pEnv : StructEnv := pinoStructs

def discLeaf : Leaf := { path := [.field "discriminator"], kind := "bytes", offset := 0, size := 8 }

/-- MemoryMappedWhirlpool = 8 discriminator bytes + the Borsh layout of `Whirlpool`, leaf by leaf
    (same field paths, same integer kinds, same offsets, same sizes) -/
theorem whirlpool_layout_eq : layout pEnv "MemoryMappedWhirlpool" = discLeaf :: layout aEnv "Whirlpool" 8 := by
  decide +kernel

theorem position_layout_eq : layout pEnv "MemoryMappedPosition" = discLeaf :: layout aEnv "Position" 8 := by
  decide +kernel

theorem tick_layout_eq : layout pEnv "MemoryMappedTick" = layout aEnv "Tick" := by
  decide +kernel

theorem fixed_array_layout_eq : layout pEnv "MemoryMappedFixedTickArray" = discLeaf :: layout aEnv "TickArray" 8 := by
  decide +kernel

/-- header of the dynamic array, then the packed tick bytes -/
theorem dynamic_array_layout_eq : layout pEnv "MemoryMappedDynamicTickArray" =
    discLeaf :: layout aEnv "DynamicTickArray" 8 ++ [{ path := [.field "ticks"], kind := "bytes", offset := 60, size := 113 * 88 }] := by
  decide +kernel

/-- an initialized dynamic slot (tag byte + Borsh `DynamicTickData`) read through a
    `MemoryMappedTick` pointer: the fields after the first byte line up -/
theorem dynamic_tick_layout_eq : (layout pEnv "MemoryMappedTick").tail = layout aEnv "DynamicTickData" 1 := by
  decide +kernel

theorem sizes :
    totalSize (layout pEnv "MemoryMappedWhirlpool") = 653 ∧ totalSize (layout pEnv "MemoryMappedPosition") = 216 ∧
    totalSize (layout pEnv "MemoryMappedFixedTickArray") = 9988 ∧ totalSize (layout pEnv "MemoryMappedTick") = 113 ∧
    totalSize (layout pEnv "MemoryMappedDynamicTickArray") = 10004 ∧ totalSize (layout aEnv "DynamicTickData") = 112 := by
  decide +kernel

def lookupL (l : List (String × List Nat)) (n : String) : Option (List Nat) :=
  match l with
  | [] => none
  | (k, v) :: r => if k == n then some v else lookupL r n

/-- the discriminator literals of the Pinocchio views are sha256("account:<Name>")[..8] of the Anchor types -/
theorem discriminators_eq :
    lookupL pinoDiscriminators "MemoryMappedWhirlpool" = lookupL anchorDiscriminators "Whirlpool" ∧
    lookupL pinoDiscriminators "MemoryMappedPosition" = lookupL anchorDiscriminators "Position" ∧
    (lookupL anchorDiscriminators "Whirlpool").isSome ∧ (lookupL anchorDiscriminators "Position").isSome := by
  decide +kernel

def fieldKind (fs : List (String × Ty)) (f : String) : Option Ty :=
  match fs with
  | [] => none
  | (k, t) :: r => if k == f then some t else fieldKind r f

/-- a getter reads the field of its own name, with the integer type of that field -/
def getterOk (g : String × String × String × String × String) : Bool :=
  let (st, name, ret, field, conv) := g
  if field == "?" then
    -- computed getters, reviewed by hand: PDA seeds; reward initialized = (mint != Pubkey::default())
    (st == "MemoryMappedWhirlpool" && name == "seeds") || (st == "MemoryMappedWhirlpoolRewardInfo" && name == "initialized")
  else
    name == field &&
    match lookupStruct pEnv st with
    | none => false
    | some fs =>
      match fieldKind fs field, conv with
      | some (.prim k _), "ref" => k == "pubkey" && ret == "&Pubkey"
      | some (.arr _ _), "ref" => true
      | some (.prim k _), "nonzero" => k == "bool" && ret == "bool"
      | some (.arr (.prim k _) 3), "u128-array" => k == "u128"
      | some (.prim k _), c => k == c && ret == c
      | _, _ => false

theorem getters_ok : pinoGetters.all getterOk = true := by decide +kernel

-- Non-vacuity: the tables are populated
example : (layout pEnv "MemoryMappedWhirlpool").length = 34 ∧ pinoGetters.length = 37 := by decide +kernel

end WP.C12
