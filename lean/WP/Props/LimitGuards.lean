import WP.Gen.PinoSpecs
/-
  C08 / C16 — the caller's limits are enforced by every live liquidity handler (the six Pinocchio handlers the
  entrypoint routes to).  The guard lists are regenerated from the handlers' source on every run
  (tools/extract.py -> WP/Gen/PinoSpecs.lean); each row below must be present: zero liquidity is refused, an
  increase is refused when the (transfer-fee-included) cost of either token exceeds its maximum, a decrease /
  reposition when the (transfer-fee-excluded) proceeds of either token fall below its minimum, and the
  by-token-amounts increase outside its price window.  What the guards compare is modelled and executed
  (families ltd / est, history ops xliq, xliqt, xrepo with limits exactly at and one unit beyond the amounts);
  this table is what notices a guard that disappears from a handler.  (Measured by tools/table_mutants.py.)
-/
namespace WP.LimitGuards
open WP WP.Gen

def limitRows : List (String × String) := [
  ("pinocchio/instructions/decrease_liquidity.rs", "reject: data.liquidity_amount == 0 => LiquidityZero"),
  ("pinocchio/instructions/decrease_liquidity.rs", "reject: delta_a < data.token_min_a || delta_b < data.token_min_b => TokenMinSubceeded"),
  ("pinocchio/instructions/decrease_liquidity_v2.rs", "reject: data.liquidity_amount == 0 => LiquidityZero"),
  ("pinocchio/instructions/decrease_liquidity_v2.rs", "reject: transfer_fee_excluded_delta_a.amount < data.token_min_a => TokenMinSubceeded"),
  ("pinocchio/instructions/decrease_liquidity_v2.rs", "reject: transfer_fee_excluded_delta_b.amount < data.token_min_b => TokenMinSubceeded"),
  ("pinocchio/instructions/increase_liquidity.rs", "reject: data.liquidity_amount == 0 => LiquidityZero"),
  ("pinocchio/instructions/increase_liquidity.rs", "reject: delta_a > data.token_max_a || delta_b > data.token_max_b => TokenMaxExceeded"),
  ("pinocchio/instructions/increase_liquidity_by_token_amounts_v2.rs", "reject: current_sqrt_price < min_sqrt_price || current_sqrt_price > max_sqrt_price => PriceSlippageOutOfBounds"),
  ("pinocchio/instructions/increase_liquidity_by_token_amounts_v2.rs", "reject: liquidity_amount == 0 => LiquidityZero"),
  ("pinocchio/instructions/increase_liquidity_by_token_amounts_v2.rs", "reject: transfer_fee_included_delta_a.amount > token_max_a => TokenMaxExceeded"),
  ("pinocchio/instructions/increase_liquidity_by_token_amounts_v2.rs", "reject: transfer_fee_included_delta_b.amount > token_max_b => TokenMaxExceeded"),
  ("pinocchio/instructions/increase_liquidity_v2.rs", "reject: data.liquidity_amount == 0 => LiquidityZero"),
  ("pinocchio/instructions/increase_liquidity_v2.rs", "reject: transfer_fee_included_delta_a.amount > data.token_max_a => TokenMaxExceeded"),
  ("pinocchio/instructions/increase_liquidity_v2.rs", "reject: transfer_fee_included_delta_b.amount > data.token_max_b => TokenMaxExceeded"),
  ("pinocchio/instructions/reposition_liquidity_v2.rs", "reject: transfer_fee_excluded_amount_a.amount < existing_range_token_min_a => TokenMinSubceeded"),
  ("pinocchio/instructions/reposition_liquidity_v2.rs", "reject: transfer_fee_excluded_amount_b.amount < existing_range_token_min_b => TokenMinSubceeded")]

def limitOk (r : String × String) : Bool :=
  match pinoSpecs.find? (·.file == r.1) with
  | none => false
  | some s => s.core.any (· == r.2)

theorem limit_rows_met : limitRows.all limitOk = true := by decide +kernel

-- every one of the six live handlers appears in the table (kernel evaluation over the regenerated list)
theorem every_handler_listed : (pinoSpecs.all fun s => limitRows.any fun r => r.1 == s.file) = true := by decide +kernel

end WP.LimitGuards
